#!/bin/sh
# coordinator tool: apply a patch file ($2) to a scratch copy of /repo/src and run ./check $1 [extra args]
PROP=$1; PATCH=$2; shift 2
S=$(mktemp -d /var/tmp/dvtry-XXXXXX); cp -r /repo/src $S/src
patch -p1 -s -d $S -i $PATCH || { echo "patch failed"; rm -rf $S; exit 3; }
VERIF_EVIDENCE_DIR=$S/evidence DENDROPY_REPO=$S /verif/check $PROP "$@" | grep -v "^KNOWN" | tail -6
rm -rf $S
(cd /verif/harness && ${PY:-/venv/bin/python} -c "import leanio
with leanio.lock(): leanio.regenerate()" >/dev/null)
