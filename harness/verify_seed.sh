#!/bin/sh
# coordinator tool: verify a seeding agent's deliverables in worktree $1 and store them as /verif/seeded/$2
WT=$1; NAME=$2
S=$WT/_seed
[ -f $S/patch.diff ] && [ -f $S/demo.py ] && [ -f $S/meta.json ] || { echo "missing deliverables in $S"; exit 1; }
cd $WT
echo "--- demo on unchanged /repo (expect PASS / exit 0)"; PYTHONPATH=/repo/src /venv/bin/python $S/demo.py | tail -2; echo "exit=$?"
PYTHONPATH=/repo/src /venv/bin/python $S/demo.py >/dev/null 2>&1; A=$?
echo "--- demo on changed worktree (expect FAIL / exit 1)"; PYTHONPATH=$WT/src /venv/bin/python $S/demo.py | tail -2
PYTHONPATH=$WT/src /venv/bin/python $S/demo.py >/dev/null 2>&1; B=$?
echo "demo: unchanged exit=$A changed exit=$B"
echo "--- patch applies to /repo HEAD:"; git -C /repo apply --check $S/patch.diff && echo yes
echo "--- test suite on the changed worktree"
PYTHONPATH=$WT/src /venv/bin/python -m pytest -q -p no:cacheprovider --timeout=900 --junitxml=/tmp/seedsuite-$NAME.xml > /tmp/seedsuite-$NAME.log 2>&1
/venv/bin/python - /tmp/seedsuite-$NAME.xml <<'PY'
import json,sys,xml.etree.ElementTree as ET
base=json.load(open('/root/.vp/BASELINE.json')); stable=set(base['stable_pass'])
res={}
for tc in ET.parse(sys.argv[1]).getroot().iter('testcase'):
    name=tc.get('classname')+'::'+tc.get('name')
    res[name]='fail' if any(ch.tag in('failure','error') for ch in tc) else 'pass'
missing=[n for n in stable if res.get(n)!='pass']
print("suite: stable %d, passing %d, NOT passing %d %s"%(len(stable),len(stable)-len(missing),len(missing),missing[:5]))
PY
mkdir -p /verif/seeded/$NAME && cp $S/patch.diff $S/demo.py $S/meta.json /verif/seeded/$NAME/
rm -f /tmp/seedsuite-$NAME.xml /tmp/seedsuite-$NAME.log
