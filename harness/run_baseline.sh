#!/bin/sh
# coordinator tool: run the repository's own suite on /repo and compare with the stable baseline
OUT=${1:-/root/baseline_run.xml}
cd /repo && /venv/bin/python -m pytest -ra -q -p no:cacheprovider --timeout=900 --continue-on-collection-errors --junitxml=$OUT > ${OUT%.xml}.log 2>&1
/venv/bin/python - "$OUT" <<'PY'
import json,sys,xml.etree.ElementTree as ET
base=json.load(open('/root/.vp/BASELINE.json'))
stable=set(base['stable_pass'])
res={}
for tc in ET.parse(sys.argv[1]).getroot().iter('testcase'):
    name=tc.get('classname')+'::'+tc.get('name')
    bad=any(ch.tag in('failure','error') for ch in tc)
    skipped=any(ch.tag=='skipped' for ch in tc)
    res[name]='fail' if bad else ('skip' if skipped else 'pass')
missing=[n for n in stable if res.get(n)!='pass']
print("stable baseline tests: %d, passing now: %d, NOT passing: %d"%(len(stable),len(stable)-len(missing),len(missing)))
for n in missing[:40]: print("  ",n,res.get(n))
PY
