"""./check --selftest <Cxx|all>: run the property checks against the seeded breaking changes under /verif/seeded.
Each seeded/<name>/ holds patch.diff (relative to the repository root), demo.py and meta.json {"property": ...}.
The change is applied to a scratch copy of $DENDROPY_REPO/src (never to /repo), the check runs with DENDROPY_REPO
pointing at the copy, and exit 1 with a VIOLATION line is expected.  Results go to seeded/RESULTS.json."""
import glob
import json
import os
import shutil
import subprocess
import sys
import tempfile
import time

from common import VERIF, REPO
EVIDENCE_DIR = os.path.join(VERIF, "evidence")


def run_one(d, tier):
    meta = json.load(open(os.path.join(d, "meta.json")))
    prop = meta["property"]
    scratch = tempfile.mkdtemp(prefix="dvseed-", dir=os.environ.get("TMPDIR", "/var/tmp"))
    res = {"seed": os.path.basename(d), "property": prop}
    try:
        shutil.copytree(os.path.join(REPO, "src"), os.path.join(scratch, "src"))
        p = subprocess.run(["patch", "-p1", "-s", "-d", scratch, "-i", os.path.join(d, "patch.diff")],
                           stdout=subprocess.PIPE, stderr=subprocess.STDOUT, text=True)
        if p.returncode != 0:
            res.update(status="patch-failed", detail=p.stdout[-300:])
            return res
        env = dict(os.environ, DENDROPY_REPO=scratch, VERIF_TIER=tier, VERIF_EVIDENCE_DIR=os.path.join(scratch, "evidence"))
        t0 = time.time()
        c = subprocess.run([os.path.join(VERIF, "check"), prop, "--tier", tier], env=env, stdout=subprocess.PIPE,
                           stderr=subprocess.STDOUT, text=True, timeout=3600)
        lines = [l for l in c.stdout.split("\n") if l.startswith("VIOLATION") or l.startswith("  ")]
        res.update(status="caught" if c.returncode == 1 else ("missed" if c.returncode == 0 else "error"),
                   exit=c.returncode, wall_s=round(time.time() - t0, 1), output=lines[:6],
                   with_failing_input=any(l.startswith("VIOLATION") and "no-failing-input-found" not in l for l in lines))
        if os.path.exists(os.path.join(d, "demo.py")):
            dm = subprocess.run([sys.executable, os.path.join(d, "demo.py")], env=dict(os.environ, PYTHONPATH=os.path.join(scratch, "src")),
                                stdout=subprocess.PIPE, stderr=subprocess.STDOUT, text=True, timeout=600)
            res["demo_fails_with_change"] = dm.returncode != 0
    finally:
        shutil.rmtree(scratch, ignore_errors=True)
    return res


def run(which, tier):
    dirs = sorted(glob.glob(os.path.join(VERIF, "seeded", "*")))
    out = []
    todo = []
    for d in dirs:
        if not os.path.exists(os.path.join(d, "meta.json")):
            continue
        meta = json.load(open(os.path.join(d, "meta.json")))
        if which.lower() != "all" and meta["property"].upper() != which.upper():
            continue
        if meta.get("retired"):
            # a later repair of /repo in the same lines made the change harmless or inapplicable; kept for the record only
            out.append({"seed": os.path.basename(d), "property": meta["property"], "status": "retired", "detail": meta["retired"]})
            continue
        todo.append(d)
    # the obligations phase of each check is serialised by the build lock; the exploration phases run side by side
    jobs = max(1, int(os.environ.get("VERIF_SELFTEST_JOBS", "6")))
    from concurrent.futures import ThreadPoolExecutor
    with ThreadPoolExecutor(max_workers=jobs) as ex:
        for r in ex.map(lambda d: run_one(d, tier), todo):
            out.append(r)
            print("%-28s %s %-7s exit=%s %s" % (r["seed"], r["property"], r["status"], r.get("exit"), (r.get("output") or [""])[0][:110]),
                  flush=True)
    # regenerate Gen/*.lean for the real repository
    import leanio
    with leanio.lock():
        leanio.regenerate()
    os.makedirs(EVIDENCE_DIR, exist_ok=True)
    path = os.path.join(VERIF, "seeded", "RESULTS.json")
    old = {}
    if os.path.exists(path):
        try:
            old = {r["seed"]: r for r in json.load(open(path)).get("results", [])}
        except Exception:
            old = {}
    for r in out:
        old[r["seed"]] = r
    allr = sorted(old.values(), key=lambda r: r["seed"])
    json.dump({"tier": tier, "caught": len([r for r in allr if r["status"] == "caught"]), "retired": len([r for r in allr if r["status"] == "retired"]), "total": len(allr), "results": allr},
              open(path, "w"), indent=1)
    return 0 if all(r["status"] in ("caught", "retired") for r in out) else 1
