#!/bin/sh
# usage: mutate.sh <prop> <file-relative-to-src> <python-regex-old> <new>   -- applies one mutation in a scratch copy and runs the check
PROP=$1; FILE=$2; OLD=$3; NEW=$4
S=/tmp/mut-$$; mkdir -p $S; cp -r ${DENDROPY_REPO:-/repo}/src $S/src
python3 - "$S/src/$FILE" "$OLD" "$NEW" <<'PY'
import re,sys
p,old,new=sys.argv[1:4]
s=open(p).read()
n=len(re.findall(old,s))
if n!=1: print("MUTATION-PATTERN matches %d times"%n); sys.exit(3)
open(p,'w').write(re.sub(old,lambda m:new,s,count=1))
PY
rc=$?
if [ $rc -eq 0 ]; then VERIF_EVIDENCE_DIR=$S/evidence DENDROPY_REPO=$S /verif/check $PROP | tail -4; echo "exit=$?"; fi
rm -rf $S
# restore generated files for the real repo
(cd /verif/harness && ${PY:-/venv/bin/python} -c "import leanio
with leanio.lock(): leanio.regenerate()" >/dev/null)
