"""coordinator tool: ./check-free runner for the behaviour-preserving refactorings under /verif/harmless
(usage: python harness/harmless.py [Cxx|all] [jobs]).  Each harmless/<Cxx>-h<N>.diff is applied to a scratch copy of
$DENDROPY_REPO/src and the property's quick check is run against the copy; the expected outcome is exit 0 (a
TIE-A-UNAVAILABLE line is fine).  Results go to harmless/RESULTS.json.  A diff that no longer applies (a later repair of
/repo touched the same lines) is reported as 'stale', not as a failure."""
import glob
import json
import os
import shutil
import subprocess
import sys
import tempfile
import time
from concurrent.futures import ThreadPoolExecutor

sys.path.insert(0, os.path.dirname(os.path.abspath(__file__)))
from common import VERIF, REPO  # noqa: E402


def run_one(path):
    name = os.path.basename(path)[:-5]
    prop = name.split("-")[0]
    scratch = tempfile.mkdtemp(prefix="dvharm-", dir=os.environ.get("TMPDIR", "/var/tmp"))
    res = {"diff": name, "property": prop}
    try:
        shutil.copytree(os.path.join(REPO, "src"), os.path.join(scratch, "src"))
        p = subprocess.run(["patch", "-p1", "-s", "-d", scratch, "-i", path], stdout=subprocess.PIPE, stderr=subprocess.STDOUT, text=True)
        if p.returncode != 0:
            res["status"] = "stale"
            return res
        env = dict(os.environ, DENDROPY_REPO=scratch, VERIF_EVIDENCE_DIR=os.path.join(scratch, "evidence"))
        t0 = time.time()
        c = subprocess.run([os.path.join(VERIF, "check"), prop, "--tier", "quick"], env=env, stdout=subprocess.PIPE,
                           stderr=subprocess.STDOUT, text=True, timeout=3600)
        lines = c.stdout.split("\n")
        res.update(status="quiet" if c.returncode == 0 else ("alarm" if c.returncode == 1 else "error"), exit=c.returncode,
                   wall_s=round(time.time() - t0, 1),
                   tie_a_unavailable=[l[:200] for l in lines if l.startswith("TIE-A-UNAVAILABLE")],
                   violations=[l[:300] for l in lines if l.startswith("VIOLATION") or l.startswith("  ")][:6])
    finally:
        shutil.rmtree(scratch, ignore_errors=True)
    return res


def main():
    which = sys.argv[1] if len(sys.argv) > 1 else "all"
    jobs = int(sys.argv[2]) if len(sys.argv) > 2 else 6
    diffs = sorted(glob.glob(os.path.join(VERIF, "harmless", "*.diff")))
    if which.lower() != "all":
        diffs = [d for d in diffs if os.path.basename(d).upper().startswith(which.upper() + "-")]
    out = []
    with ThreadPoolExecutor(max_workers=jobs) as ex:
        for r in ex.map(run_one, diffs):
            out.append(r)
            print("%-10s %-6s exit=%s tieA=%d %s" % (r["diff"], r["status"], r.get("exit"), len(r.get("tie_a_unavailable", [])),
                                                    (r.get("violations") or [""])[0][:100]), flush=True)
    import leanio
    with leanio.lock():
        leanio.regenerate()
    path = os.path.join(VERIF, "harmless", "RESULTS.json")
    old = {}
    if os.path.exists(path):
        try:
            old = {r["diff"]: r for r in json.load(open(path)).get("results", [])}
        except Exception:
            old = {}
    for r in out:
        old[r["diff"]] = r
    allr = sorted(old.values(), key=lambda r: r["diff"])
    json.dump({"quiet": len([r for r in allr if r["status"] == "quiet"]), "alarm": len([r for r in allr if r["status"] == "alarm"]),
               "stale": len([r for r in allr if r["status"] == "stale"]), "total": len(allr), "results": allr}, open(path, "w"), indent=1)
    return 0


if __name__ == "__main__":
    sys.exit(main())
