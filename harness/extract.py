"""Tie (A): the translator.  Regenerates lean/DendroModel/Gen/*.lean from the *current* repository
sources on every run.  Each generator is a module in harness/gen/ exposing

    NAME = "PyBits"                     # -> Gen/PyBits.lean
    def generate(repo_root) -> str       # Lean text; raise Unsupported if the source left the subset

A generation failure is never papered over: the old file is left in place, the error is returned,
and every property that lists NAME in GEN_DEPENDS counts the obligation as broken."""
import ast
import importlib
import os
import pkgutil
import sys
import textwrap
import traceback


class Unsupported(Exception):
    pass


# ---------------------------------------------------------------- Python subset -> Lean Int
BINOP = {ast.BitAnd: "pyAnd", ast.BitOr: "pyOr", ast.BitXor: "pyXor", ast.LShift: "pyShl"}
ARITH = {ast.Sub: "-", ast.Add: "+", ast.Mult: "*"}
CMP = {ast.Eq: "=", ast.NotEq: "≠", ast.Lt: "<", ast.LtE: "≤", ast.Gt: ">", ast.GtE: "≥"}


def expr(e):
    if isinstance(e, ast.Name):
        return e.id
    if isinstance(e, ast.Constant):
        if isinstance(e.value, bool):
            return "true" if e.value else "false"
        if isinstance(e.value, int):
            return "(%d : Int)" % e.value
        raise Unsupported(ast.dump(e))
    if isinstance(e, ast.BinOp):
        l, r = expr(e.left), expr(e.right)
        if type(e.op) in BINOP:
            return "(%s %s %s)" % (BINOP[type(e.op)], l, r)
        if type(e.op) in ARITH:
            return "(%s %s %s)" % (l, ARITH[type(e.op)], r)
        raise Unsupported(ast.dump(e))
    if isinstance(e, ast.UnaryOp):
        if isinstance(e.op, ast.Invert):
            return "(pyNot %s)" % expr(e.operand)
        if isinstance(e.op, ast.Not):
            return "(!%s)" % cond(e.operand)
        if isinstance(e.op, ast.USub):
            return "(- %s)" % expr(e.operand)
        raise Unsupported(ast.dump(e))
    if isinstance(e, ast.Compare) and len(e.ops) == 1 and type(e.ops[0]) in CMP:
        return "(decide (%s %s %s))" % (expr(e.left), CMP[type(e.ops[0])], expr(e.comparators[0]))
    if isinstance(e, ast.BoolOp):
        op = " || " if isinstance(e.op, ast.Or) else " && "
        return "(" + op.join(cond(v) for v in e.values) + ")"
    raise Unsupported(ast.dump(e)[:200])


def cond(e):
    """Python truthiness of an int-valued or bool-valued expression"""
    if isinstance(e, (ast.Compare, ast.BoolOp)) or (isinstance(e, ast.UnaryOp) and isinstance(e.op, ast.Not)):
        return expr(e)
    if isinstance(e, ast.Constant) and isinstance(e.value, bool):
        return expr(e)
    return "(decide (%s ≠ 0))" % expr(e)


def _returns(stmts):
    if not stmts:
        return False
    last = stmts[-1]
    if isinstance(last, ast.Return):
        return True
    if isinstance(last, ast.If):
        return _returns(last.body) and bool(last.orelse) and _returns(last.orelse)
    return False


def block(stmts, ind, boolret):
    pad = "  " * ind
    if not stmts:
        raise Unsupported("function may fall off its end")
    s, rest = stmts[0], stmts[1:]
    if isinstance(s, ast.Expr) and isinstance(s.value, ast.Constant) and isinstance(s.value.value, str):
        return block(rest, ind, boolret)
    if isinstance(s, ast.Return):
        if s.value is None:
            raise Unsupported("bare return")
        return pad + (cond(s.value) if boolret else expr(s.value))
    if isinstance(s, ast.Assign) and len(s.targets) == 1 and isinstance(s.targets[0], ast.Name):
        return "%slet %s := %s\n" % (pad, s.targets[0].id, expr(s.value)) + block(rest, ind, boolret)
    if isinstance(s, ast.If):
        if s.orelse:
            if _returns(s.body) and _returns(s.orelse):
                return ("%sif %s then\n" % (pad, cond(s.test)) + block(s.body, ind + 1, boolret)
                        + "\n%selse\n" % pad + block(s.orelse, ind + 1, boolret))
            return ("%sif %s then\n" % (pad, cond(s.test))
                    + block(s.body + ([] if _returns(s.body) else rest), ind + 1, boolret)
                    + "\n%selse\n" % pad
                    + block(s.orelse + ([] if _returns(s.orelse) else rest), ind + 1, boolret))
        if _returns(s.body):
            return ("%sif %s then\n" % (pad, cond(s.test)) + block(s.body, ind + 1, boolret)
                    + "\n%selse\n" % pad + block(rest, ind + 1, boolret))
        if all(isinstance(b, ast.Assign) and len(b.targets) == 1 and isinstance(b.targets[0], ast.Name) for b in s.body):
            out = ""
            c = cond(s.test)
            # all right-hand sides are evaluated under the *old* bindings only if no assigned name is read later in the body
            assigned = []
            for b in s.body:
                for n in ast.walk(b.value):
                    if isinstance(n, ast.Name) and n.id in assigned:
                        raise Unsupported("conditional block reads a name it assigned")
                assigned.append(b.targets[0].id)
            for n in ast.walk(s.test):
                pass
            # the test must not depend on names assigned in the body (else re-evaluating it per let would differ)
            tnames = {n.id for n in ast.walk(s.test) if isinstance(n, ast.Name)}
            if tnames & set(assigned):
                out += "%slet _c := %s\n" % (pad, c)
                c = "_c"
            for b in s.body:
                n = b.targets[0].id
                out += "%slet %s := if %s then %s else %s\n" % (pad, n, c, expr(b.value), n)
            return out + block(rest, ind, boolret)
    raise Unsupported(ast.dump(s)[:200])


def find_function(tree, qualname):
    """locate `Class.func` or `func` in a module ast"""
    parts = qualname.split(".")
    body = tree.body
    node = None
    for p in parts:
        node = None
        for n in body:
            if isinstance(n, (ast.FunctionDef, ast.ClassDef)) and n.name == p:
                node = n
                break
        if node is None:
            raise Unsupported("cannot find %s" % qualname)
        body = node.body
    if not isinstance(node, ast.FunctionDef):
        raise Unsupported("%s is not a function" % qualname)
    return node


def translate_function(path, qualname, ret="Int", lean_name=None):
    with open(path) as f:
        tree = ast.parse(f.read())
    fn = find_function(tree, qualname)
    args = [a.arg for a in fn.args.args if a.arg not in ("self", "cls")]
    if fn.args.vararg or fn.args.kwarg or fn.args.kwonlyargs:
        raise Unsupported("unsupported signature of %s" % qualname)
    body = block(fn.body, 1, ret == "Bool")
    return "def %s (%s : Int) : %s :=\n%s\n" % (lean_name or fn.name, " ".join(args), ret, body)


def lean_chars(cs):
    return "[" + ", ".join("Char.ofNat %d" % ord(c) for c in sorted(set(cs))) + "]"


def lean_string(s):
    return '"' + "".join(c if (c.isalnum() or c in " _-+*/=<>.,;:!?()[]{}&|^~#@%$") else "\\u{%x}" % ord(c) for c in s) + '"'


def regex_class(rx):
    """members of a regex that is a single positive character class `[...]` of literals and escapes"""
    import re
    m = re.fullmatch(r"\[(.*)\]", rx, re.S)
    if not m or rx.startswith("[^"):
        raise Unsupported("not a positive character class: %r" % rx)
    body, out, i = m.group(1), [], 0
    while i < len(body):
        c = body[i]
        if c == "\\":
            n = body[i + 1]
            if n.isalnum() and n not in "tnr0":
                raise Unsupported("class escape \\%s" % n)
            out.append({"t": "\t", "n": "\n", "r": "\r", "0": "\0"}.get(n, n))
            i += 2
        elif c == "-" and 0 < i < len(body) - 1 and body[i - 1] != "\\":
            raise Unsupported("character range in class")
        else:
            out.append(c)
            i += 1
    return out


# ---------------------------------------------------------------- registry
def generators():
    import gen
    mods = []
    for m in sorted(pkgutil.iter_modules(gen.__path__), key=lambda x: x.name):
        try:
            g = importlib.import_module("gen." + m.name)
        except Exception:   # a broken plug-in of one property must not take the others down
            continue
        if hasattr(g, "NAME") and hasattr(g, "generate"):
            mods.append(g)
    return mods


def _restore_committed(path):
    """when a generator declines, the Gen file must be the committed one (generated from the repository the theorems were
    last proved against), not whatever an earlier run against some other source tree left behind"""
    import subprocess
    top = os.path.dirname(os.path.dirname(os.path.abspath(__file__)))
    rel = os.path.relpath(path, top)
    try:
        p = subprocess.run(["git", "-C", top, "show", "HEAD:" + rel], stdout=subprocess.PIPE, stderr=subprocess.DEVNULL, timeout=30)
    except Exception:
        return
    if p.returncode == 0 and p.stdout:
        text = p.stdout.decode("utf-8")
        old = open(path).read() if os.path.exists(path) else None
        if old != text:
            with open(path, "w") as f:
                f.write(text)


def regenerate(repo, outdir):
    os.makedirs(outdir, exist_ok=True)
    res = {}
    for g in generators():
        name = g.NAME
        path = os.path.join(outdir, name + ".lean")
        try:
            text = g.generate(repo)
        except Exception as e:  # Unsupported, SyntaxError, missing file, ...
            res[name] = "%s: %s" % (type(e).__name__, e)
            _restore_committed(path)
            continue
        header = "-- GENERATED by harness/gen/%s.py from $DENDROPY_REPO on every run; do not edit.\n" % g.__name__.split(".")[-1]
        text = header + text
        old = open(path).read() if os.path.exists(path) else None
        if old != text:
            with open(path, "w") as f:
                f.write(text)
        res[name] = None
    return res


if __name__ == "__main__":
    sys.path.insert(0, os.path.dirname(os.path.abspath(__file__)))
    from common import REPO, LEAN_DIR
    r = regenerate(REPO, os.path.join(LEAN_DIR, "DendroModel", "Gen"))
    for k, v in r.items():
        print(k, "ok" if v is None else "FAILED " + v)
