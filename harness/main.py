"""./check front end: obligations (regenerate, build, audit) -> corpus + correspondence + oracle -> decision -> evidence."""
import argparse
import glob
import importlib
import json
import os
import sys
import time
import traceback

HERE = os.path.dirname(os.path.abspath(__file__))
sys.path.insert(0, HERE)

import common  # noqa: E402
import leanio  # noqa: E402
from common import Ctx, VERIF, REPO  # noqa: E402

ALL = ["C%02d" % i for i in range(1, 21)]


def load(prop):
    return importlib.import_module("props." + prop.lower())


def prop_targets(mod):
    t = [getattr(mod, "PROPS_MODULE", "DendroModel.Props." + mod.ID)]
    d = getattr(mod, "DRIVER", "drv_" + mod.ID.lower())
    if d:
        t.append(d)
    t += list(getattr(mod, "EXTRA_TARGETS", []))
    return t


def available_props():
    out = []
    for p in ALL:
        if os.path.exists(os.path.join(HERE, "props", p.lower() + ".py")):
            out.append(p)
    return out


def setup():
    t0 = time.time()
    gen = leanio.regenerate()
    for k, v in gen.items():
        print("gen %s: %s" % (k, "ok" if v is None else "FAILED " + v))
    targets = ["DendroModel"]
    claimed = json.load(open(os.path.join(VERIF, "claimed.json")))
    for p in available_props():
        if p in claimed:
            targets += prop_targets(load(p))
    ok, out = leanio.build(sorted(set(targets)), timeout=7200)
    print(out[-3000:])
    print("setup %s in %.0fs" % ("ok" if ok else "FAILED", time.time() - t0))
    return 0 if ok and all(v is None for v in gen.values()) else 2


def obligations_phase(mod, tier):
    with leanio.lock():
        return _obligations_phase(mod, tier)


def _obligations_phase(mod, tier):
    """returns (obligations: list of dict(name, ok, detail), info)"""
    prop = mod.ID
    obl = []
    gen = leanio.regenerate()
    unavailable = []
    for g in getattr(mod, "GEN_DEPENDS", []):
        err = gen.get(g, "no such generator")
        if err is not None and g in gen:
            # The translator declined: the source left the subset it reads (or it failed on an unexpected shape).  That is a
            # limit of tie (A), not a broken proof obligation: the previous Gen file stays in place, the theorems are still
            # checked, and the hand model stays tied to the code by the correspondence (tie B).  The property module's
            # targeted search is run all the same, and the run reports which kernels were not re-read from the source.
            unavailable.append({"name": "Gen/%s.lean regenerated from the current source" % g, "detail": err, "kind": "generation"})
            continue
        obl.append({"name": "Gen/%s.lean regenerated from the current source" % g, "ok": err is None,
                    "detail": err or "ok", "kind": "generation"})
    props_module = getattr(mod, "PROPS_MODULE", "DendroModel.Props." + prop)
    namespace = getattr(mod, "NAMESPACE", "DendroModel." + prop)
    targets = prop_targets(mod)
    ok_build, log = leanio.build(targets)
    driver_ok = True
    if not ok_build:
        # find out which part fails: props, driver
        ok_props, log_props = leanio.build([props_module])
        drv = getattr(mod, "DRIVER", "drv_" + prop.lower())
        if drv:
            driver_ok, _ = leanio.build([drv])
        ok_build = ok_props
        log = log_props if not ok_props else log
    closure = leanio.import_closure(props_module)
    theorems = leanio.theorem_names(props_module, namespace)
    hits = leanio.grep_forbidden(closure)
    obl.append({"name": "no sorry/admit/axiom/native_decide/bv_decide/implemented_by/unsafe in the import closure of %s" % props_module,
                "ok": not hits, "detail": "; ".join(hits) or "clean", "kind": "audit"})
    axioms_seen = set()
    if ok_build:
        res, raw = leanio.audit(prop, [props_module], theorems)
        for t in theorems:
            good, ax = res[t]
            if good:
                axioms_seen |= set(ax)
            obl.append({"name": t, "ok": bool(good), "detail": ("axioms: " + ", ".join(ax)) if isinstance(ax, list) else ax,
                        "kind": "theorem"})
    else:
        for t in theorems:
            obl.append({"name": t, "ok": False, "detail": "lake build %s failed: %s" % (props_module, log[-600:]),
                        "kind": "theorem"})
    if not theorems:
        obl.append({"name": "%s declares property theorems" % props_module, "ok": False, "detail": "none found", "kind": "audit"})
    drv = getattr(mod, "DRIVER", "drv_" + prop.lower())
    snap = leanio.snapshot_driver(drv) if (drv and driver_ok) else None
    info = {"tie_a_unavailable": unavailable, "driver_path": snap, "driver_name": drv, "closure": sorted(closure), "external_imports": leanio.external_imports(closure),
            "axioms_used": sorted(axioms_seen), "driver_ok": driver_ok,
            "checker_cmd": "cd lean && lake build %s && lake env lean <audit file with `#print axioms` for the %d theorems of %s>" % (
                " ".join(targets), len(theorems), props_module)}
    if tier == "thorough" and ok_build:
        rc, out = leanio.run(["lake", "env", "leanchecker", props_module], timeout=3600)
        obl.append({"name": "leanchecker replays %s and its imports" % props_module, "ok": rc == 0,
                    "detail": out[-300:] if rc else "ok", "kind": "audit"})
        info["checker_cmd"] += " && lake env leanchecker %s" % props_module
    return obl, info


def replay_known(mod, ctx, known):
    """re-run the stored witness of each known finding of this property"""
    lines = []
    for k in known.get("known", []):
        if k.get("property") != mod.ID:
            continue
        before = len(ctx.failures)
        try:
            mod.replay(ctx, {"kind": k.get("kind"), "replay": k.get("witness", {})})
        except Exception as e:
            ctx.note("known finding %s: replay raised %s" % (k.get("id"), e))
        new = ctx.failures[before:]
        del ctx.failures[before:]
        if any(common.match_known(mod.ID, f, {"known": [k]}) for f in new):
            lines.append("KNOWN-FINDING: property=%s %s" % (mod.ID, k.get("what", k.get("id"))))
            ctx.count("known_finding_reproduced")
        else:
            ctx.note("known finding %s no longer reproduces on its stored witness" % k.get("id"))
    return lines


def replay_corpus(mod, ctx):
    n = 0
    for path in sorted(glob.glob(os.path.join(common.CORPUS_DIR, mod.ID, "*.json"))):
        try:
            rec = json.load(open(path))
            mod.replay(ctx, rec)
            n += 1
        except Exception as e:
            ctx.note("corpus %s: %s" % (os.path.basename(path), e))
    return n


def check(prop, tier, seed, replay_path=None):
    t0 = time.time()
    mod = load(prop)
    ctx = Ctx(prop, tier, seed)
    if replay_path:
        common.import_repo()
        rec = json.load(open(replay_path if os.path.isabs(replay_path) else os.path.join(VERIF, replay_path)))
        if rec.get("broken_obligations") and not rec.get("replay"):
            print("replay file records broken obligations only:")
            for b in rec["broken_obligations"]:
                print("  ", b)
            return 1
        mod.replay(ctx, rec)
        for f in ctx.failures:
            print("REPRODUCED %s: %s" % (f["kind"], f["what"]))
        for d in ctx.disagreements:
            print("DISAGREEMENT %s impl=%s model=%s" % (d["op"], d["impl"], d["model"]))
        if not ctx.failures and not ctx.disagreements:
            print("not reproduced")
        return 1 if ctx.failures else 0

    obl, info = obligations_phase(mod, tier)
    broken = [o for o in obl if not o["ok"]]
    ctx.model_ok = info["driver_ok"]
    if not info["driver_ok"] or not info["driver_path"]:
        ctx._driver = NoDriver()
    else:
        ctx._driver = leanio.Driver(info["driver_name"], info["driver_path"])

    common.import_repo()
    known = common.load_known()
    out_lines = replay_known(mod, ctx, known)
    n_corpus = replay_corpus(mod, ctx)
    try:
        ctx.t0 = time.time()     # the exploration budget starts here: waiting for the build lock must not eat it
        mod.run(ctx)
        unavailable = info.get("tie_a_unavailable", [])
        if (broken or unavailable or ctx.disagreements) and hasattr(mod, "search"):
            # a kernel the translator could not re-read is searched like a broken obligation (the code changed there),
            # but only a failing input or a disagreement can turn it into a violation
            mod.search(ctx, broken + unavailable)
    except common.Timeout:
        raise
    except Exception:
        traceback.print_exc()
        print("INFRASTRUCTURE-ERROR property=%s (harness exception above)" % prop)
        return 2

    # ---- decision
    violations = []
    known_hits = {}
    for f in ctx.failures:
        k = common.match_known(prop, f, known)
        if k is not None:
            known_hits[k["id"]] = k
        else:
            violations.append(f)
    for kid, k in known_hits.items():
        line = "KNOWN-FINDING: property=%s %s" % (prop, k.get("what", kid))
        if line not in out_lines:
            out_lines.append(line)
    exit_code = 0
    seen_kinds = set()
    for f in violations:
        if f["kind"] in seen_kinds or len(seen_kinds) >= 8:
            continue  # one replay per kind of failure on the console; all failures are counted in the evidence
        seen_kinds.add(f["kind"])
        rec = dict(f, property=prop, seed=seed, tier=tier, repo=REPO)
        path = common.write_replay(prop, rec)
        out_lines.append("VIOLATION property=%s replay=%s" % (prop, path))
        out_lines.append("  %s: %s" % (f["kind"], str(f["what"])[:600]))
        exit_code = 1
    if not violations and (broken or ctx.disagreements):
        rec = {"property": prop, "seed": seed, "tier": tier, "repo": REPO,
               "kind": "unshown", "what": "the property is no longer shown to hold: proof obligations or the model/implementation correspondence broke and no input was found on which the implementation contradicts the statement",
               "broken_obligations": [{"name": o["name"], "detail": o["detail"]} for o in broken],
               "correspondence_disagreements": ctx.disagreements[:10]}
        path = common.write_replay(prop, rec)
        for o in broken[:5]:
            out_lines.append("  broken obligation: %s -- %s" % (o["name"], str(o["detail"])[:300]))
        for d in ctx.disagreements[:3]:
            out_lines.append("  correspondence: op %s impl=%s model=%s" % (d["op"], str(d["impl"])[:200], str(d["model"])[:200]))
        out_lines.append("VIOLATION property=%s replay=%s no-failing-input-found" % (prop, path))
        exit_code = 1

    # ---- evidence
    wall = time.time() - t0
    theorems = [o for o in obl if o["kind"] == "theorem"]
    cov = {
        "obligations": len(obl),
        "discharged": len([o for o in obl if o["ok"]]),
        "checker_cmd": info["checker_cmd"],
        "trusted_base": common.GLOBAL_TRUSTED_BASE + list(getattr(mod, "MODELLED_NOT_VERIFIED", [])),
        "obligation_list": [{"name": o["name"], "ok": o["ok"], "detail": str(o["detail"])[:200]} for o in obl],
        "theorems": len(theorems),
        "tie_a_unavailable": [{"name": u["name"], "detail": str(u["detail"])[:300]} for u in info.get("tie_a_unavailable", [])],
        "axioms_used": info["axioms_used"],
        "lean_modules": info["closure"],
        "external_imports": info["external_imports"],
        "evaluations": ctx.evaluations,
        "distinct": len(ctx._distinct),
        "distinct_nontrivial": len(ctx._distinct_nontrivial),
        "rule": getattr(mod, "RULE", ""),
        "samples": ctx.samples[:ctx.max_samples] or [{"obligations": [o["name"] for o in obl[:5]]}],
        "input_distribution": dict(ctx.dist),
        "disagreements_checked": ctx.disagreements_checked,
        "disagreements": len(ctx.disagreements),
        "oracle_failures": len(ctx.failures),
        "known_findings_matched": sorted(known_hits),
        "corpus_replayed": n_corpus,
        "notes": ctx.notes[:50],
        "exhaustive": bool(ctx.extra.get("exhaustive", False)),
        "explanation": getattr(mod, "EXPLANATION", ""),
    }
    cov.update({k: v for k, v in ctx.extra.items() if k != "exhaustive"})
    common.write_evidence(prop, tier, seed, cov, list(getattr(mod, "ASSUMPTIONS", [])), wall,
                          len(violations) + (1 if (not violations and exit_code) else 0))
    for u in info.get("tie_a_unavailable", []):
        print("TIE-A-UNAVAILABLE: property=%s %s -- %s (translator declined; the committed Gen file, the theorems and the "
              "correspondence stay in force; targeted search run)" % (prop, u["name"], str(u["detail"])[:200]))
    for l in out_lines:
        print(l)
    print("%s tier=%s seed=%d: obligations %d/%d, %d evaluations (%d distinct non-trivial), %d compared with the model, "
          "%d disagreements, %d oracle failures (%d known), %.1fs -> exit %d" % (
              prop, tier, seed, cov["discharged"], cov["obligations"], ctx.evaluations, cov["distinct_nontrivial"],
              ctx.disagreements_checked, len(ctx.disagreements), len(ctx.failures), len(ctx.failures) - len(violations), wall, exit_code))
    return exit_code


class NoDriver(object):
    def ask(self, lines, timeout=None):
        return [None] * len(lines)

    def available(self):
        return False


def main():
    ap = argparse.ArgumentParser()
    ap.add_argument("prop", nargs="?")
    ap.add_argument("--setup", action="store_true")
    ap.add_argument("--tier", default=os.environ.get("VERIF_TIER", "quick"))
    ap.add_argument("--replay")
    ap.add_argument("--selftest")
    ap.add_argument("--list", action="store_true")
    a = ap.parse_args()
    if a.tier not in ("quick", "thorough"):
        a.tier = "quick"
    try:
        seed = int(os.environ.get("VERIF_SEED", "0"))
    except ValueError:
        seed = 0
    if a.setup:
        return setup()
    if a.list:
        print(" ".join(available_props()))
        return 0
    if a.selftest:
        import selftest
        return selftest.run(a.selftest, a.tier)
    if not a.prop:
        ap.print_help()
        return 2
    prop = a.prop.upper()
    try:
        return check(prop, a.tier, seed, a.replay)
    except common.Timeout:
        print("INFRASTRUCTURE-ERROR property=%s global timeout" % prop)
        return 2
    except Exception:
        traceback.print_exc()
        print("INFRASTRUCTURE-ERROR property=%s" % prop)
        return 2


if __name__ == "__main__":
    sys.exit(main())
