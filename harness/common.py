"""Shared machinery of every check: paths, the run context, evidence, known findings, time limits."""
import collections
import hashlib
import json
import os
import random
import signal
import sys
import time

VERIF = os.path.dirname(os.path.dirname(os.path.abspath(__file__)))
LEAN_DIR = os.path.join(VERIF, "lean")
REPO = os.environ.get("DENDROPY_REPO", "/repo")
EVIDENCE_DIR = os.environ.get("VERIF_EVIDENCE_DIR") or os.path.join(VERIF, "evidence")   # redirected for runs against seeded/scratch copies
REPLAY_DIR = os.path.join(VERIF, "replays")
CORPUS_DIR = os.path.join(VERIF, "corpus")
KNOWN_FINDINGS = os.path.join(VERIF, "known_findings.json")

ALLOWED_AXIOMS = {"propext", "Classical.choice", "Quot.sound"}

GLOBAL_TRUSTED_BASE = [
    "Lean 4.33.0 kernel and elaborator (leanchecker re-check in the thorough tier)",
    "axioms: only propext, Classical.choice, Quot.sound (audited by #print axioms on every property theorem, every run); no native_decide, bv_decide, sorry, admit, or own axioms (grep + audit every run)",
    "Mathlib v4.33.0 modules imported by lemma/property files",
    "harness/extract.py (translator Python ast -> Lean Int definitions and tables), differential-tested every run",
    "the correspondence harness (generators, canonicalisation, exception mapping) that ties the hand-written models to /repo",
    "CPython int/str/list/dict/set/float/re/copy taken as correct; floating point is not modelled (exact comparison only on dyadic inputs)",
]


def import_repo():
    """make `import dendropy` resolve to $DENDROPY_REPO/src"""
    src = os.path.join(REPO, "src")
    if sys.path[0] != src:
        sys.path.insert(0, src)
    import warnings
    warnings.simplefilter("ignore")
    import dendropy  # noqa
    try:   # deprecation banners are noise on stderr; silencing them changes no behaviour under test
        from dendropy.utility import deprecate
        deprecate.dendropy_deprecation_warning = lambda **kwargs: None
    except Exception:
        pass
    got = os.path.realpath(os.path.dirname(os.path.dirname(dendropy.__file__)))
    if got != os.path.realpath(src):
        raise RuntimeError("dendropy imported from %s, expected %s" % (got, src))
    return dendropy


def is_library_exception(exc):
    """True iff the exception was raised by a frame of the library under test ($DENDROPY_REPO/src), as opposed to the
    harness's own code (a harness bug must end as exit 2, never as a VIOLATION)"""
    tb = exc.__traceback__
    last = None
    while tb is not None:
        last = tb
        tb = tb.tb_next
    if last is None:
        return False
    fn = os.path.realpath(last.tb_frame.f_code.co_filename)
    return fn.startswith(os.path.realpath(os.path.join(REPO, "src")) + os.sep)


class Timeout(BaseException):
    """raised by time_limit; BaseException so that `except Exception` in the library cannot swallow it"""


class time_limit(object):
    def __init__(self, seconds):
        self.seconds = seconds

    def _handler(self, signum, frame):
        raise Timeout()

    def __enter__(self):
        self.old = signal.signal(signal.SIGALRM, self._handler)
        signal.setitimer(signal.ITIMER_REAL, self.seconds)

    def __exit__(self, *a):
        signal.setitimer(signal.ITIMER_REAL, 0)
        signal.signal(signal.SIGALRM, self.old)
        return False


def stable_hash(obj):
    return hashlib.sha1(json.dumps(obj, sort_keys=True, default=str).encode()).hexdigest()[:16]


def hex6(s):
    """string field of the line protocol: '-' None, '=' empty, else 6 hex digits per code point"""
    if s is None:
        return "-"
    if s == "":
        return "="
    return "".join("%06x" % ord(c) for c in s)


def unhex6(h):
    if h == "-":
        return None
    if h == "=":
        return ""
    return "".join(chr(int(h[i:i + 6], 16)) for i in range(0, len(h), 6))


class Ctx(object):
    """What a property module sees while it runs."""

    def __init__(self, prop, tier, seed):
        self.prop = prop
        self.tier = tier
        self.seed = seed
        self.rng = random.Random("%s-%d" % (prop, seed))
        self.t0 = time.time()
        self.evaluations = 0
        self._distinct = set()
        self._distinct_nontrivial = set()
        self.samples = []
        self.dist = collections.Counter()
        self._fail_kinds = {}
        self.failures = []        # oracle failures: the implementation contradicts the statement
        self.disagreements = []   # model != implementation
        self.disagreements_checked = 0
        self.notes = []
        self.extra = {}
        self._driver = None
        self.max_samples = 6
        self.budget_s = None

    # ---- budget ----
    def pick(self, quick, thorough):
        return thorough if self.tier == "thorough" else quick

    def set_budget(self, quick_s, thorough_s):
        # the quick tier's exploration budget is stretched by a common factor (default 1.5): the fixed openings and sweeps
        # added with every strengthened class take a growing share of the module's own figure, and the random stream
        # behind them must not be starved (two seeded changes caught earlier were missed for exactly that reason)
        try:
            scale = float(os.environ.get("VERIF_QUICK_SCALE", "1.5"))
        except ValueError:
            scale = 1.5
        self.budget_s = self.pick(quick_s * max(scale, 0.1), thorough_s)

    def time_left(self):
        if self.budget_s is None:
            return 1e9
        return self.budget_s - (time.time() - self.t0)

    def out_of_time(self):
        return self.time_left() <= 0

    # ---- coverage accounting ----
    def case(self, key, nontrivial, sample=None, kind=None):
        """count one explored case. key: hashable-by-json canonical description of the input"""
        self.evaluations += 1
        h = stable_hash(key)
        new = h not in self._distinct
        self._distinct.add(h)
        if nontrivial:
            self._distinct_nontrivial.add(h)
        if kind:
            self.dist[kind] += 1
        if sample is not None and new and len(self.samples) < self.max_samples and nontrivial:
            self.samples.append(sample)

    def count(self, name, n=1):
        self.dist[name] += n

    # ---- verdicts ----
    def fail(self, kind, what, replay):
        """the implementation contradicts the property statement on this input"""
        rec = {"kind": kind, "what": what, "replay": replay}
        # per-kind cap, so that a flood of one (possibly known) kind can never crowd out another kind
        n = self._fail_kinds.get(kind, 0)
        self._fail_kinds[kind] = n + 1
        if n < 2000:
            self.failures.append(rec)
        return rec

    def disagree(self, op, case, impl, model):
        """model and implementation differ on this input (the oracle decides whether it is a violation)"""
        if len(self.disagreements) < 200:
            self.disagreements.append({"op": op, "case": case, "impl": impl, "model": model})

    def compared(self, n=1):
        self.disagreements_checked += n

    def note(self, s):
        self.notes.append(s)

    # ---- model driver ----
    def driver(self, name=None):
        from leanio import Driver
        if self._driver is None:
            self._driver = Driver(name or ("drv_" + self.prop.lower()))
        return self._driver

    def ask(self, lines):
        """send protocol lines to the property's Lean driver; returns one output line per input line"""
        return self.driver().ask(lines)


def load_known():
    if not os.path.exists(KNOWN_FINDINGS):
        return {"known": [], "fixed": []}
    with open(KNOWN_FINDINGS) as f:
        return json.load(f)


def _match_value(pat, val):
    import re
    if isinstance(pat, dict) and "regex" in pat:
        return val is not None and re.search(pat["regex"], str(val)) is not None
    if isinstance(pat, dict) and "min" in pat:
        return isinstance(val, (int, float)) and val >= pat["min"]
    return pat == val


def match_known(prop, failure, known):
    """a failure is a listed known finding iff property, kind and every `match` field agree"""
    for k in known.get("known", []):
        if k.get("property") != prop:
            continue
        if k.get("kind") is not None and k["kind"] != failure["kind"]:
            continue
        rep = failure.get("replay", {})
        ok = True
        for field, pat in k.get("match", {}).items():
            if not _match_value(pat, rep.get(field)):
                ok = False
                break
        if ok:
            return k
    return None


def write_replay(prop, rec):
    os.makedirs(REPLAY_DIR, exist_ok=True)
    h = stable_hash(rec)
    path = os.path.join(REPLAY_DIR, "%s-%s.json" % (prop, h))
    with open(path, "w") as f:
        json.dump(rec, f, indent=1, sort_keys=True, default=str)
    return os.path.relpath(path, VERIF)


def write_evidence(prop, tier, seed, coverage, assumptions, wall_s, violations):
    os.makedirs(EVIDENCE_DIR, exist_ok=True)
    ev = {
        "property_id": prop,
        "tier": tier,
        "seed": seed,
        "level": "proof",
        "coverage": coverage,
        "assumptions": assumptions,
        "wall_s": round(wall_s, 2),
        "violations": violations,
    }
    path = os.path.join(EVIDENCE_DIR, "%s.json" % prop)
    tmp = path + ".tmp"
    with open(tmp, "w") as f:
        json.dump(ev, f, indent=1, default=str)
    os.replace(tmp, path)
    return path
