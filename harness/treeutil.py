"""Shared Python-side tree helpers: generators, protocol encoding, canonical rendering, and
*independent* oracles (literal arborescence check, leaf sets, path lengths) that never call the
library routines they are used to judge."""
from fractions import Fraction

from common import hex6


# ---------------------------------------------------------------- exact numbers
def frac(x):
    """exact protocol rendering of an edge length (None -> N)"""
    if x is None:
        return "N"
    f = Fraction(x)
    return str(f.numerator) if f.denominator == 1 else "%d/%d" % (f.numerator, f.denominator)


def F(x):
    return Fraction(0) if x is None else Fraction(x)


def dyadic(rng, none_rate=0.0, zero_rate=0.05, maxnum=16, maxexp=3):
    """a length k/2^j on which the sums, differences and halvings the library performs are exact"""
    r = rng.random()
    if r < none_rate:
        return None
    if r < none_rate + zero_rate:
        return 0.0
    return rng.randint(1, maxnum) / float(2 ** rng.randint(0, maxexp))


# ---------------------------------------------------------------- shapes
def rand_shape(rng, n_leaves, p_poly=0.25, p_unary=0.08):
    """random rose-tree shape with n_leaves leaves as nested lists ([] is a leaf)"""
    def go(k):
        if k == 1:
            if rng.random() < p_unary:
                return [go(1)]
            return []
        if rng.random() < p_unary:
            return [go(k)]
        nparts = 2
        while nparts < k and rng.random() < p_poly:
            nparts += 1
        cuts = sorted(rng.sample(range(1, k), nparts - 1))
        sizes = [b - a for a, b in zip([0] + cuts, cuts + [k])]
        return [go(s) for s in sizes]
    return go(n_leaves)


def shape_families(n):
    """fixed families: star, caterpillar, balanced, for n leaves"""
    out = []
    out.append([[] for _ in range(n)] if n > 1 else [])
    cat = []
    for _ in range(n - 1):
        cat = [cat, []]
    out.append(cat)

    def bal(k):
        if k == 1:
            return []
        return [bal(k // 2), bal(k - k // 2)]
    out.append(bal(n))
    return out


def all_shapes(n, allow_unary=False):
    """every rose-tree shape with n leaves and no unary nodes, children ordered (compositions)"""
    memo = {}

    def comps(k, minparts):
        # ordered compositions of k into >= minparts positive parts
        res = []

        def rec(rem, parts):
            if rem == 0:
                if len(parts) >= minparts:
                    res.append(list(parts))
                return
            for p in range(1, rem + 1):
                parts.append(p)
                rec(rem - p, parts)
                parts.pop()
        rec(k, [])
        return res

    def go(k):
        if k in memo:
            return memo[k]
        if k == 1:
            memo[k] = [[]]
            return memo[k]
        out = []
        for comp in comps(k, 2):
            lists = [go(p) for p in comp]
            acc = [[]]
            for l in lists:
                acc = [a + [x] for a in acc for x in l]
            out.extend(acc)
        memo[k] = out
        return out
    return go(n)


def count_leaves(shape):
    return 1 if not shape else sum(count_leaves(c) for c in shape)


# ---------------------------------------------------------------- building real trees
def make_namespace(dendropy, n, extra=0, prefix="t", holes=(), labels=None):
    """namespace with n+extra members; `holes` = positions removed again (their bits stay allocated)"""
    labels = labels or ["%s%d" % (prefix, i) for i in range(n + extra + len(holes))]
    tns = dendropy.TaxonNamespace(labels)
    for h in sorted(holes, reverse=True):
        tns.remove_taxon(tns[h])
    return tns


def build_tree(dendropy, shape, tns, leaf_taxa, lengths=None, rooted=None, labels=None):
    """build a Tree through the Node API.  leaf_taxa: list of Taxon (left-to-right leaves);
    lengths / labels: callables () -> value drawn per node in pre-order (or None)"""
    Node = dendropy.Node
    it = iter(leaf_taxa)

    def go(sh, is_root):
        nd = Node()
        if lengths is not None:
            nd.edge.length = lengths()
        if not sh:
            nd.taxon = next(it)
        elif labels is not None:
            nd.label = labels()
        for c in sh:
            nd.add_child(go(c, False))
        return nd
    seed = go(shape, True)
    tree = dendropy.Tree(taxon_namespace=tns, seed_node=seed)
    tree.is_rooted = rooted
    return tree


def random_tree(dendropy, rng, n_leaves=None, max_leaves=10, extra=None, none_rate=0.0, lengths=True,
                rooted="any", p_poly=0.25, p_unary=0.08, tns=None, shuffle_bits=True):
    n = n_leaves or rng.randint(1, max_leaves)
    shape = rand_shape(rng, n, p_poly, p_unary)
    if tns is None:
        ex = rng.randint(0, 3) if extra is None else extra
        tns = make_namespace(dendropy, n, ex)
    members = list(tns)
    taxa = rng.sample(members, n) if shuffle_bits else members[:n]
    if rooted == "any":
        rooted = rng.choice([True, False, None])
    lf = (lambda: dyadic(rng, none_rate)) if lengths else None
    return build_tree(dendropy, shape, tns, taxa, lf, rooted)


# ---------------------------------------------------------------- ids, encoding, rendering
class Ids(object):
    """stable small integers for node objects (never Python id() in output)"""

    def __init__(self):
        self.map = {}
        self.keep = []

    def assign_preorder(self, tree_or_node):
        seed = getattr(tree_or_node, "seed_node", tree_or_node)
        self.map = {}
        self.keep = []
        stack = [seed]
        while stack:
            nd = stack.pop()
            self.map[id(nd)] = len(self.keep)
            self.keep.append(nd)
            stack.extend(reversed(nd._child_nodes))
        return self

    def of(self, nd):
        return self.map.get(id(nd))

    def node(self, i):
        return self.keep[i]

    def __len__(self):
        return len(self.keep)


def bit_of(tns, taxon):
    return tns.accession_index(taxon)


def encode_tree(tree, ids=None, with_labels=True):
    """protocol tokens `n parents taxa lens labels` with nodes numbered in pre-order.
    returns (tokens, ids)"""
    ids = ids or Ids().assign_preorder(tree)
    tns = tree.taxon_namespace
    n = len(ids)
    par, tax, lens, labs = [], [], [], []
    for i in range(n):
        nd = ids.node(i)
        p = nd._parent_node
        par.append("-1" if (p is None or ids.of(p) is None) else str(ids.of(p)))
        tax.append("-" if nd.taxon is None else str(bit_of(tns, nd.taxon)))
        lens.append(frac(nd.edge.length))
        labs.append(hex6(nd.label) if with_labels else "-")
    return [str(n)] + par + tax + lens + labs, ids


def render_tree(tree_or_node, ids, tns=None):
    """same text as Lean `T.render`: (id taxon len child ...); nodes unknown to ids print as *"""
    seed = getattr(tree_or_node, "seed_node", tree_or_node)
    tns = tns or getattr(tree_or_node, "taxon_namespace", None)
    out = []
    # iterative to survive deep trees
    stack = [(seed, 0)]
    while stack:
        nd, state = stack.pop()
        if state == 1:
            out.append(")")
            continue
        i = ids.of(nd)
        out.append(" (" if out else "(")
        out.append("%s %s %s" % ("*" if i is None else i,
                                 "-" if nd.taxon is None else bit_of(tns, nd.taxon),
                                 frac(nd.edge.length)))
        stack.append((nd, 1))
        for c in reversed(nd._child_nodes):
            stack.append((c, 0))
    return "".join(out)


# ---------------------------------------------------------------- independent oracles
def walk(seed):
    """pre-order list of nodes reachable through _child_nodes (iterative, cycle-safe)"""
    out, seen, stack = [], set(), [seed]
    while stack:
        nd = stack.pop()
        if id(nd) in seen:
            out.append(nd)  # reported as duplicate by the caller
            continue
        seen.add(id(nd))
        out.append(nd)
        stack.extend(reversed(nd._child_nodes))
    return out


def arborescence_problems(tree, also=()):
    """clause (a) of C03, literally: returns a list of human-readable problems (empty = well formed).
    `also`: nodes ever seen; those not reachable must not claim a reachable parent that lists them."""
    probs = []
    seed = tree.seed_node
    if seed is None:
        return ["seed_node is None"]
    if seed._parent_node is not None:
        probs.append("seed has a parent")
    nodes = walk(seed)
    ids_seen = set()
    for nd in nodes:
        if id(nd) in ids_seen:
            probs.append("node reachable twice (shared or cyclic)")
        ids_seen.add(id(nd))
    for nd in nodes:
        kids = nd._child_nodes
        if len(set(map(id, kids))) != len(kids):
            probs.append("a node lists the same child twice")
        for c in kids:
            if c._parent_node is not nd:
                probs.append("child's parent pointer does not point back")
        e = nd._edge
        if e is None:
            probs.append("node without edge")
        else:
            if e._head_node is not nd:
                probs.append("edge head is not its node")
            if e.tail_node is not nd._parent_node:
                probs.append("edge tail is not the node's parent")
    reach = ids_seen
    # traversals visit exactly the reachable nodes
    for name in ("preorder_node_iter", "postorder_node_iter", "levelorder_node_iter"):
        try:
            got = [id(x) for x in getattr(tree, name)()]
        except RecursionError:
            continue
        if sorted(got) != sorted(reach):
            probs.append("%s does not visit exactly the reachable nodes" % name)
    leaves = [id(x) for x in tree.leaf_node_iter()]
    if sorted(leaves) != sorted(id(n) for n in nodes if not n._child_nodes):
        probs.append("leaf_node_iter does not visit exactly the reachable leaves")
    return sorted(set(probs))


def leafset_masks(tree):
    """from-scratch: {id(node): mask of taxa on leaves below}, leaves left to right"""
    tns = tree.taxon_namespace
    masks = {}
    order = walk(tree.seed_node)
    for nd in reversed(order):
        if not nd._child_nodes:
            masks[id(nd)] = 0 if nd.taxon is None else (1 << bit_of(tns, nd.taxon))
        else:
            m = 0
            for c in nd._child_nodes:
                m |= masks[id(c)]
            masks[id(nd)] = m
    return masks


def leaf_paths(tree):
    """independent patristic oracle: {frozenset({labelA,labelB}): (Fraction length, edge count)}
    computed from root paths (None length = 0)"""
    seed = tree.seed_node
    paths = {}   # id(leaf) -> list of (id(node), Fraction) from seed (exclusive) down to leaf
    stack = [(seed, [])]
    leaves = []
    while stack:
        nd, path = stack.pop()
        if not nd._child_nodes:
            leaves.append(nd)
            paths[id(nd)] = path
        for c in nd._child_nodes:
            stack.append((c, path + [(id(c), F(c.edge.length))]))
    out = {}
    for i, a in enumerate(leaves):
        pa = paths[id(a)]
        for b in leaves[i + 1:]:
            pb = paths[id(b)]
            k = 0
            while k < len(pa) and k < len(pb) and pa[k][0] == pb[k][0]:
                k += 1
            d = sum((x[1] for x in pa[k:]), Fraction(0)) + sum((x[1] for x in pb[k:]), Fraction(0))
            steps = len(pa) - k + len(pb) - k
            key = frozenset((label_of(a), label_of(b)))
            out[key] = (d, steps)
    return out


def label_of(nd):
    return nd.taxon.label if nd.taxon is not None else ("#%s" % nd.label)


def total_length(tree, include_seed=True):
    tot = Fraction(0)
    for nd in walk(tree.seed_node):
        if nd is tree.seed_node and not include_seed:
            continue
        tot += F(nd.edge.length)
    return tot


def canon_topology(tree, with_lengths=False):
    """child-order-independent canonical form keyed by leaf taxon bits (rooted)"""
    tns = tree.taxon_namespace

    def go(nd):
        if not nd._child_nodes:
            base = "t%s" % ("-" if nd.taxon is None else bit_of(tns, nd.taxon))
        else:
            base = "(" + ",".join(sorted(go(c) for c in nd._child_nodes)) + ")"
        if with_lengths:
            base += ":" + frac(nd.edge.length)
        return base
    return go(tree.seed_node)


def tree_from_tokens(dendropy, toks, rooted=None, tns=None):
    """inverse of encode_tree: rebuild a real Tree (through the Node API) from protocol tokens.
    Taxon with bit k gets label 't<k>' in a namespace of max_bit+1 (or more) members.
    returns (tree, ids)"""
    from common import unhex6
    n = int(toks[0])
    par = [int(x) for x in toks[1:1 + n]]
    tax = toks[1 + n:1 + 2 * n]
    lens = toks[1 + 2 * n:1 + 3 * n]
    labs = toks[1 + 3 * n:1 + 4 * n]
    bits = [int(x) for x in tax if x != "-"]
    if tns is None:
        tns = dendropy.TaxonNamespace(["t%d" % i for i in range((max(bits) + 1) if bits else 1)])
    by_bit = {tns.accession_index(t): t for t in tns}
    nodes = [dendropy.Node() for _ in range(n)]
    for i in range(n):
        if tax[i] != "-":
            nodes[i].taxon = by_bit[int(tax[i])]
        if lens[i] != "N":
            nodes[i].edge.length = float(Fraction(lens[i]))
        nodes[i].label = unhex6(labs[i])
    root = None
    for i in range(n):
        if par[i] < 0:
            root = nodes[i]
        else:
            nodes[par[i]].add_child(nodes[i])
    tree = dendropy.Tree(taxon_namespace=tns, seed_node=root)
    tree.is_rooted = rooted
    ids = Ids()
    ids.keep = nodes
    ids.map = {id(nd): i for i, nd in enumerate(nodes)}
    return tree, ids
