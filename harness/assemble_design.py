"""coordinator tool: (re)insert §0 "As built" into DESIGN.md from notes/asbuilt_head.md + notes/asbuilt_tail.md
(the part between the markers is replaced; the design-phase sections §1–§6 are left as they are)."""
import os
import sys
sys.path.insert(0, os.path.dirname(os.path.abspath(__file__)))
from common import VERIF  # noqa

BEGIN = "<!-- BEGIN §0 (assembled by harness/assemble_design.py from notes/asbuilt_head.md and notes/asbuilt_tail.md) -->"
END = "<!-- END §0 -->"
p = os.path.join(VERIF, "DESIGN.md")
s = open(p).read()
head = open(os.path.join(VERIF, "notes", "asbuilt_head.md")).read().strip("\n")
head = head.lstrip("-").lstrip("\n")
tail = open(os.path.join(VERIF, "notes", "asbuilt_tail.md")).read().strip("\n")
block = BEGIN + "\n\n" + head + "\n\n" + tail + "\n\n" + END + "\n"
if BEGIN in s:
    a = s.index(BEGIN)
    b = s.index(END) + len(END) + 1
    s = s[:a] + block + s[b:]
else:
    marker = "## 1. What was read, and what it showed"
    a = s.index(marker)
    s = s[:a] + block + "\n---------------------------------------------------------------------------------------\n\n" + s[a:]
open(p, "w").write(s)
print("DESIGN.md: §0 assembled (%d lines)" % block.count("\n"))
