"""C09 - character matrices survive a round trip through NEXUS, PHYLIP, FASTA and NeXML."""
import io
import json
import re
import xml.etree.ElementTree as ET
from xml.sax.saxutils import quoteattr

from common import time_limit, hex6, unhex6

ID = "C09"
GEN_DEPENDS = ["Alphabets", "Tables", "C09Consts"]
RULE = ("matrices of every data type (dna, rna, protein, standard incl. custom symbol sets, restriction, infinite sites, continuous) "
        "x building route (from_dict, parsed from harness-composed NEXUS sequential/interleaved/DATA-block/matchchar/{..}(..) tokens, "
        "PHYLIP strict/relaxed x sequential/interleaved, FASTA, NeXML with explicit columns, concatenate, export_character_indices, "
        "'assembled': every row put in place another way - m[t]=list / coerced str / generic CharacterDataSequence / sequence object of "
        "another matrix type / own type, new_sequence, short rows completed by fill(), missing rows by fill_taxa()+fill() or pack(), "
        "add_/update_/extend_sequences from a second matrix, then optionally copy-constructed / cloned / deep-copied; 'derived': a matrix "
        "with explicit per-column character types (parsed from NeXML or built with character_type=) put through 1-3 of "
        "export_character_indices / export_character_subset (single column, trailing block, scattered, reversed, repeated indices), "
        "concatenate / extend_sequences with a second typed matrix, del seq[i] in every row, clone / copy construction / deepcopy) "
        "; WRITE-EDIT-WRITE histories on one matrix object: observed once (any format, str(seq), symbols_as_list/_string, values()), "
        "edited in place (set_at, seq[i]=, slice assignment, append/extend/insert/del on every row, m[t]=, fill, pack), then written to "
        "every format and compared with the live cells; "
        "x target format x writer/reader options, 1xN and Nx1 included, conversion chains of two formats, data sets with 1-3 "
        "namespaces x suppress_block_titles in {default, None, False, True} x {nexus, nexml}; NEXUS data sets also x unquoted_underscores "
        "x preserve_spaces x reader preserve_underscores (where the taxon labels survive it) with namespace / matrix / tree-list labels "
        "drawn from families that differ only in blank versus underscore, letter case, quote characters or a '.1' suffix, and taxon "
        "labels with blanks / underscores; labels x escape_nexus_token options x tokenizer options; thorough adds every symbol of every "
        "alphabet in every position class, every dimension pair <= 3x3 per type/route/format and every (namespaces, option) pair; "
        "non-trivial = at least 2 taxa and a gap, missing or ambiguity symbol (or a continuous value that is not an integer), "
        "or a data set with >= 2 namespaces")
MODELLED_NOT_VERIFIED = [
    "C09: XML text of NeXML (the model works on the abstract document: <char> ids in format order, <cell char= state=>), float "
    "formatting of continuous values (repr; the model takes the decimal tokens as given and compares them numerically), quoting of row / taxon labels (C02; "
    "block TITLE / LINK tokens ARE modelled: escToken / readToken, compared token by token), PHYLIP label uniquification, NEXUS tokenizer "
    "(rows reach the model as label token + row text), EQUATE emission",
    "C09: the Lean readers/writers are hand-written from NexusWriter._write_char_block/_compose_format_terms, NexusReader."
    "_parse_format_statement/_read_character_states/_process_discrete_matrix_data, PhylipWriter/PhylipReader, FastaWriter/FastaReader, "
    "NexmlWriter._write_format_section, _NexmlCharBlockParser, _link_blocks/_get_block_title/_get_taxon_namespace, escape_nexus_token; tied to the code "
    "by per-case comparison of written text and read-back content; REGENERATED from the source on every run and bridged by theorems "
    "(bridge_*): the symbol tables (Gen/Alphabets), the quoting class and the tokenizer's captured delimiters (Gen/Tables), the PHYLIP strict "
    "label width in writer and reader, the FASTA wrap default and width, the DATATYPE keyword table and the reader's initial FORMAT state (Gen/C09Consts)",
]
EXPLANATION = ("Theorems (Props/C09.lean): symbol tables (symbol_roundtrip, symbol_case_insensitive, symbol_synonyms, ambiguity_token_roundtrip) and, for "
               "ANY custom standard symbol set unchanged by upper-casing, standard_symbols_denote_themselves; FORMAT (format_roundtrip for the fixed "
               "types, format_standard_roundtrip: parsing half for arbitrary such symbol strings); NEXUS rows and whole matrix, sequential on both "
               "entry paths (cells_roundtrip, nexus_matrix_roundtrip), interleaved in pages of any widths (nexus_interleaved_matrix_roundtrip) and "
               "with MATCHCHAR in any cells of any row after the first, whole matrix, both entry paths (nexus_matchchar_matrix_roundtrip; "
               "matchchar_row_roundtrip / nexus_matchchar_step / nexus_interleaved_step are its steps); continuous rows as decimal tokens "
               "(continuous_tokens_roundtrip, continuous_row_roundtrip), the WHOLE continuous NEXUS matrix on both entry paths incl. the final "
               "NCHAR check (nexus_continuous_matrix_roundtrip, about nxReadC / nxRowsC, driver op nxreadc) and the relaxed PHYLIP line of a "
               "continuous row (phylip_continuous_line_roundtrip_partial: one line, the whole continuous PHYLIP file is not modelled); NeXML otus references (nexml_links_resolve); custom alphabets through "
               "FORMAT and _build_state_alphabet (format_standard_alphabet_roundtrip); whole-file PHYLIP: relaxed for labels written "
               "without blanks under every underscore option pair (phylip_relaxed_roundtrip), relaxed with multispace delimiter for labels with "
               "single inner blanks (phylip_multispace_roundtrip), strict (phylip_strict_roundtrip), INTERLEAVED in blocks of any widths with labels on the first block only "
               "(phylip_interleaved_read, with ph_first_page / ph_page_fold / ph_pages_fold: every row reads as the concatenation of its chunks "
               "and the file is accepted iff every row then has exactly NCHAR characters - phRead now models that final check of "
               "PhylipReader._read, so an incomplete last block is refused; the closed form 'chunks of widths summing to NCHAR give back the rows' "
               "is evaluated on examples, not proved in general); whole-file FASTA with wrapping "
               "(fasta_roundtrip); NeXML columns for ANY injective column-id scheme, ragged matrices included (nexml_matrix_columns_any_ids; "
               "nexml_matrix_columns is the identity-id instance, nexml_columns_partial the row lemma with the id property as hypothesis); "
               "TITLE/LINK: de-duplication by the key upper-case + underscore-as-blank (assignTitles_distinct), resolution of raw titles "
               "(title_link_resolves) and of the ESCAPED tokens under every setting of preserve_spaces / unquoted_underscores / reader "
               "preserve_underscores for arbitrary labels (title_link_resolves_escaped, via tkey_readToken); title_token_roundtrip: default "
               "options give the label back exactly; bridge_* tie the regenerated kernels to the model; conversion chains as compositions "
               "of the above for symbol-only rows (convert_*). Whole-file theorems assume at least one row and rows of one positive length. "
               "Correspondence/oracle only: rows in another order than TAXLABELS, MATCHCHAR combined with interleaving, strict-label PHYLIP interleaved, "
               "whole continuous PHYLIP / NeXML matrices, interleaved continuous NEXUS and float formatting, NeXML XML text, tree lists, construction routes "
               "(from_dict/concatenate/export), lower-case custom symbols. format_standard_roundtrip_partial / phylip_*_line_roundtrip_partial / "
               "fasta_wrap_roundtrip_partial are fragments kept beside the full statements named above.")

NS = "{http://www.nexml.org/2009}"

# ---------------------------------------------------------------------------------------------- data types
# full symbol sets, written down independently of charstatemodel.py (IUPAC); canonical symbols only
SYMS = {
    "dna": "ACGTNRYMWSKVHDB-?",
    "rna": "ACGUNRYMWSKVHDB-?",
    "nucleotide": "ACGTUNRYMWSKVHDB-?",
    "protein": "ACDEFGHIKLMNPQRSTVWY*BZX-?",
    "standard": "0123456789-?",
    "restriction": "10",
    "infinite": "10",
}
AMBIG = {
    "dna": {"N": "ACGT", "R": "AG", "Y": "CT", "M": "AC", "W": "AT", "S": "CG", "K": "GT", "V": "ACG", "H": "ACT", "D": "AGT", "B": "CGT"},
    "rna": {"N": "ACGU", "R": "AG", "Y": "CU", "M": "AC", "W": "AU", "S": "CG", "K": "GU", "V": "ACG", "H": "ACU", "D": "AGU", "B": "CGU"},
    "nucleotide": {"N": "ACGTU", "R": "AG", "Y": "CTU", "M": "AC", "W": "ATU", "S": "CG", "K": "GTU", "V": "ACG", "H": "ACTU",
                   "D": "AGTU", "B": "CGTU"},
    "protein": {"B": "DN", "Z": "EQ"},
}
SPECIAL = set("NRYMWSKVHDBZX-?")
SUPPORTED = {
    "nexus": {"dna", "rna", "nucleotide", "protein", "standard", "continuous"},
    "phylip": {"dna", "rna", "nucleotide", "protein", "standard", "restriction", "infinite", "continuous"},
    "fasta": {"dna", "rna", "nucleotide", "protein", "standard", "restriction", "infinite"},
    "nexml": {"dna", "rna", "protein", "standard", "restriction", "continuous"},
}
FORMATS = ["nexus", "phylip", "fasta", "nexml"]
DTYPES = ["dna", "rna", "nucleotide", "protein", "standard", "restriction", "infinite", "continuous"]   # nucleotide: no NeXML type


def matrix_class(dendropy, dt):
    return {"dna": dendropy.DnaCharacterMatrix, "rna": dendropy.RnaCharacterMatrix, "nucleotide": dendropy.NucleotideCharacterMatrix, "protein": dendropy.ProteinCharacterMatrix,
            "standard": dendropy.StandardCharacterMatrix, "restriction": dendropy.RestrictionSitesCharacterMatrix,
            "infinite": dendropy.InfiniteSitesCharacterMatrix, "continuous": dendropy.ContinuousCharacterMatrix}[dt]


def dt_field(dt, std_syms):
    if dt == "standard" and std_syms is not None:
        return "std:" + hex6(std_syms)
    return dt


# ---------------------------------------------------------------------------------------------- canonical content
def cell_of(x, ordered=False):
    """canonical form of one cell of the implementation's matrix (ordered: members in the state's own order)"""
    if isinstance(x, (int, float)):
        return float(x)
    sym = getattr(x, "symbol", None)
    if sym:
        return str(sym)
    if hasattr(x, "state_denomination"):
        kind = {1: "a", 2: "p"}.get(x.state_denomination, "f")
        if ordered:
            return [kind, "".join(x.fundamental_symbols)]
        return [kind, "".join(sorted(set(x.fundamental_symbols)))]
    if x is None:
        return None
    return float(x)


def content(m):
    return [[t.label, [cell_of(x) for x in m[t]]] for t in m]


def cells_equal(a, b):
    if isinstance(a, float) or isinstance(b, float):
        return isinstance(a, float) and isinstance(b, float) and a == b      # "equal numbers": -0.0 equals 0.0
    return a == b


def same_content(ref, got):
    if len(ref) != len(got):
        return False
    for (l1, c1), (l2, c2) in zip(ref, got):
        if l1 != l2 or len(c1) != len(c2):
            return False
        if not all(cells_equal(x, y) for x, y in zip(c1, c2)):
            return False
    return True


def brief(c):
    out = []
    for l, cells in c[:4]:
        out.append("%s:%s" % (l, "".join(x if isinstance(x, str) else ("<%s>" % (x,)) for x in cells[:24])))
    return "[" + " | ".join(out) + ("" if len(c) <= 4 else " ...") + "]"


def cell_text(c):
    """repaired NEXUS rendering of a canonical discrete cell"""
    if isinstance(c, str):
        return c
    return ("(%s)" if c[0] == "p" else "{%s}") % c[1]


def row_text(cells):
    return "".join(cell_text(c) for c in cells)


# ---------------------------------------------------------------------------------------------- generators
LABEL_POOLS = [
    ["t1", "t2", "t3", "t4", "t5", "t6", "t7", "t8"],
    ["Alpha", "beta", "Gamma3", "tenletters", "Epsilon_e", "zeta9", "Eta", "theta"],
    ["Homo sapiens", "Pan_paniscus", "Mus musculus 2", "D.melanogaster", "x-1", "it's", "a+b", "Q/R"],
    ["12", "007", "3.5", "1e5", "A1", "b_2", "C 3", "d4"],
    ["[x]", "a,b", "p:q", "semi;colon", "eq=al", "back\\slash", "(par)", "\"dq\""],
    ["été", "naïve", "über", "zø", "α", "n1", "n2", "n3"],
]
SIMPLE_POOLS = [LABEL_POOLS[0], LABEL_POOLS[1]]


def numeric_labels(rng, n):
    """labels that collide with taxon NUMBERS: NEXUS lets trees name taxa by their 1-based position, so a matrix row or
    TAXLABELS entry that is itself a plain integer must still mean the taxon with that LABEL.  Families: a permutation
    of 1..n other than the identity (specimen numbers out of numerical order), a rotation, numbers at the wrong position
    mixed with names, zero-based numbers, zero-padded numbers, and numbers beyond n."""
    if n == 1:
        return [rng.choice(["2", "0", "01", "1"])]
    fam = rng.choice(["perm", "rot", "mixed", "zero", "padded", "shifted", "reverse"])
    nums = [str(i + 1) for i in range(n)]
    if fam == "perm":
        out = list(nums)
        while out == nums:
            rng.shuffle(out)
        return out
    if fam == "rot":
        return nums[1:] + nums[:1]
    if fam == "reverse":
        return nums[::-1]
    if fam == "zero":
        out = [str(i) for i in range(n)]
        if rng.random() < 0.5:
            rng.shuffle(out)
        return out
    if fam == "padded":
        out = ["0" + x for x in nums]
        rng.shuffle(out)
        return out
    if fam == "shifted":
        out = [str(i + 2) for i in range(n)]          # one label is beyond NTAX, the others name a different position
        if rng.random() < 0.5:
            rng.shuffle(out)
        return out
    out = []
    for i in range(n):
        if rng.random() < 0.5:
            k = rng.choice([x for x in range(1, n + 1) if x != i + 1])
            out.append(str(k))
        else:
            out.append("n%d" % (i + 1))
    seen, res = set(), []
    for i, l in enumerate(out):
        if l in seen:
            l = "m%d" % (i + 1)
        seen.add(l)
        res.append(l)
    return res


def gen_labels(rng, n, style):
    """style: 'simple' (alnum/underscore-free), 'nospace', 'any'"""
    if rng.random() < 0.15:
        return numeric_labels(rng, n)          # admissible in every format and style
    if style == "simple":
        pool = rng.choice(SIMPLE_POOLS)
        pool = [l for l in pool if "_" not in l]
    elif style == "nospace":
        pool = [l for l in rng.choice(LABEL_POOLS[:2] + [LABEL_POOLS[3]]) if " " not in l and "_" not in l]
    elif style == "strict":
        pool = [l for l in rng.choice(LABEL_POOLS[:4]) if len(l) <= 10 and "_" not in l]
    else:
        pool = rng.choice(LABEL_POOLS)
    pool = list(pool)
    rng.shuffle(pool)
    out = []
    for l in pool:
        if l.lower() not in [x.lower() for x in out]:
            out.append(l)
    k = 0
    while len(out) < n:
        k += 1
        out.append("x%d" % k)
    return out[:n]


def nexml_safe(l):
    """labels the NeXML writer's attribute quoting (json.dumps, a C02 matter) leaves intact"""
    return all(32 <= ord(c) < 127 and c not in '"\\<&' for c in l)


def gen_dims(rng, big=False):
    r = rng.random()
    if r < 0.12:
        return 1, rng.randint(1, 14)
    if r < 0.24:
        return rng.randint(1, 6), 1
    if big or r < 0.34:
        return rng.randint(2, 4), rng.choice([69, 70, 71, 75, 140, 141])
    return rng.randint(2, 6), rng.randint(2, 14)


def gen_symbol(rng, syms):
    if rng.random() < 0.35:
        sp = [c for c in syms if c in SPECIAL]
        if sp:
            return rng.choice(sp)
    return rng.choice(syms)


def gen_float(rng):
    r = rng.random()
    if r < 0.3:
        return float(rng.randint(-5, 5))
    if r < 0.6:
        return rng.randint(-4000, 4000) / 64.0
    if r < 0.8:
        return rng.uniform(-10, 10)
    return rng.choice([1e-7, -2.5e-9, 1e22, 3.0e15, 0.1, -0.0, 123456789.125, 5e-324])


def gen_rows(rng, dt, ntax, nchar, syms):
    if dt == "continuous":
        return [[gen_float(rng) for _ in range(nchar)] for _ in range(ntax)]
    return [[gen_symbol(rng, syms) for _ in range(nchar)] for _ in range(ntax)]


def std_symbols(rng):
    r = rng.random()
    if r < 0.5:
        return None                       # default alphabet 0-9
    return rng.choice(["01", "012", "0123", "ABC", "10", "01234567"])


def nontrivial(ref):
    if len(ref) < 2:
        return False
    for _, cells in ref:
        for c in cells:
            if isinstance(c, float):
                if c != int(c) if abs(c) < 1e15 else False:
                    return True
            elif not isinstance(c, str) or c in SPECIAL:
                return True
    return False


# ---------------------------------------------------------------------------------------------- text composers (harness-owned)
def nx_quote(label, rng=None):
    if re.match(r"^[A-Za-z0-9.]+$", label) and (rng is None or rng.random() < 0.8):
        return label
    return "'" + label.replace("'", "''") + "'"


def vary_case(rng, s):
    return "".join(c.lower() if rng.random() < 0.5 else c.upper() for c in s)


def compose_nexus(p):
    """p: dict(simple, taxa, ntax, nchar, fmt, rows=[[label, text], ...]) -> NEXUS text"""
    out = ["#NEXUS", ""]
    if not p["simple"]:
        out += ["BEGIN TAXA;", "  DIMENSIONS NTAX=%d;" % len(p["taxa"]), "  TAXLABELS"]
        out += ["    " + nx_quote(l) for l in p["taxa"]]
        out += ["  ;", "END;", ""]
        out += ["BEGIN CHARACTERS;", "  DIMENSIONS NCHAR=%d;" % p["nchar"]]
    else:
        out += ["Begin Data;", "  Dimensions ntax=%d nchar=%d;" % (p["ntax"], p["nchar"])]
    out += ["  " + p["fmt"], "  MATRIX"]
    out += ["    %s   %s" % (nx_quote(l), t) for l, t in p["rows"]]
    out += ["  ;", "END;", ""]
    return "\n".join(out)


def gen_nexus_parse(rng, dt, labels, rows, std_syms):
    """returns (params for compose_nexus, ref content) for discrete rows (lists of canonical symbols)"""
    nchar = len(rows[0])
    simple = rng.random() < 0.4
    interleave = rng.random() < 0.4 and nchar >= 2
    use_match = dt != "standard" and rng.random() < 0.4
    use_tokens = rng.random() < 0.5
    terms = ["DATATYPE=%s" % {"dna": "DNA", "rna": "RNA", "nucleotide": "NUCLEOTIDE", "protein": "PROTEIN", "standard": "STANDARD"}[dt]]
    if dt == "dna" and rng.random() < 0.2:
        terms = ["DATATYPE=NUCLEOTIDES"]
    if dt == "standard" and (std_syms is not None or rng.random() < 0.5):
        s = std_syms or "0123456789"
        terms.append('SYMBOLS="%s"' % (" ".join(s) if rng.random() < 0.5 else s))
    if rng.random() < 0.7:
        terms.append("GAP=-")
    if rng.random() < 0.7:
        terms.append("MISSING=?")
    mc = "."
    if use_match:
        if rng.random() < 0.3:
            mc = "!"
            terms.append("MATCHCHAR=!")
        elif rng.random() < 0.7:
            terms.append("MATCHCHAR=.")
    if interleave:
        terms.append(rng.choice(["INTERLEAVE", "INTERLEAVE=YES", "Interleave=yes"]))
    elif rng.random() < 0.15:
        terms.append("INTERLEAVE=NO")
    rng.shuffle(terms)
    if dt == "standard":      # DATATYPE resets the symbol list, so it must precede SYMBOLS
        terms.sort(key=lambda t: 0 if t.startswith("DATATYPE") else 1)
    fmt = "FORMAT " + " ".join(vary_case(rng, t) if rng.random() < 0.3 and "SYMBOLS" not in t.upper() else t for t in terms) + ";"
    amb = AMBIG.get(dt, {})

    def render(cell, first_cell, is_first):
        if use_match and not is_first and cell == first_cell and rng.random() < 0.5:
            return mc
        if use_tokens and isinstance(cell, str) and cell in amb and rng.random() < 0.5:
            ms = list(amb[cell])
            rng.shuffle(ms)
            return "{" + (" " if rng.random() < 0.2 else "").join(ms) + "}"
        if isinstance(cell, str):
            return cell.lower() if rng.random() < 0.15 else cell
        return cell_text(cell)

    width = rng.choice([1, 2, 3, 5, 10, 70]) if interleave else nchar
    order = list(range(len(labels)))
    if not simple and rng.random() < 0.3:
        rng.shuffle(order)                                  # rows in a different order than TAXLABELS
    out_rows = []
    for start in range(0, nchar, width):
        for i in order:
            chunk = [render(rows[i][j], rows[order[0]][j], i == order[0]) for j in range(start, min(nchar, start + width))]
            sep = " " if rng.random() < 0.2 else ""
            out_rows.append([labels[i], sep.join(chunk)])
    p = {"simple": simple, "taxa": list(labels), "ntax": len(labels), "nchar": nchar, "fmt": fmt, "rows": out_rows}
    ref = [[labels[i], list(rows[i])] for i in (range(len(labels)) if not simple else order)]
    return p, ref


def compose_phylip(rng, labels, seqs, strict, interleaved, multispace, nchar):
    """seqs: list of strings (discrete) or lists of tokens (continuous)"""
    cont = not isinstance(seqs[0], str)
    lines = ["%s%d %d" % (" " if rng.random() < 0.3 else "", len(labels), nchar)]

    def chunks(s):
        if cont:
            w = rng.choice([1, 2, 5, max(1, nchar)])
            return [" ".join(s[i:i + w]) for i in range(0, len(s), w)] or [""]
        w = rng.choice([1, 3, 10, 60, max(1, nchar)])
        parts = [s[i:i + w] for i in range(0, len(s), w)] or [""]
        if rng.random() < 0.3:
            parts = [" ".join(p[i:i + 5] for i in range(0, len(p), 5)) for p in parts]
        return parts

    def head(l):
        if strict:
            return l.ljust(10)
        return l + " " * (rng.randint(2, 4) if multispace else rng.randint(1, 3))

    if not interleaved:
        for l, s in zip(labels, seqs):
            ch = chunks(s)
            lines.append(head(l) + ch[0])
            lines += ch[1:]
            if rng.random() < 0.2:
                lines.append("")
    else:
        if cont:
            w = rng.choice([1, 2, max(1, nchar)])
            pages = [[" ".join(s[i:i + w]) for s in seqs] for i in range(0, nchar, w)]
        else:
            w = rng.choice([1, 2, 10, max(1, nchar)])
            pages = [[s[i:i + w] for s in seqs] for i in range(0, nchar, w)]
        for k, pg in enumerate(pages):
            for l, c in zip(labels, pg):
                lines.append((head(l) if k == 0 else "") + c)
            lines.append("")
    return "\n".join(lines) + "\n"


def compose_fasta(rng, labels, seqs):
    out = []
    for l, s in zip(labels, seqs):
        out.append(">" + (" " if rng.random() < 0.2 else "") + l)
        w = rng.choice([1, 7, 60, 70, 1000])
        for i in range(0, len(s), w):
            out.append(s[i:i + w])
        if rng.random() < 0.5:
            out.append("")
    return "\n".join(out) + "\n"


def compose_nexml(dt, labels, rows, std_syms):
    """a NeXML document with explicit <char> columns (cells mark-up); discrete and continuous"""
    xsi = {"dna": "Dna", "rna": "Rna", "protein": "Protein", "standard": "Standard", "restriction": "Restriction",
           "continuous": "Continuous"}[dt]
    o = ['<?xml version="1.0" encoding="UTF-8"?>',
         '<nex:nexml version="0.9" xmlns="http://www.nexml.org/2009" xmlns:nex="http://www.nexml.org/2009" '
         'xmlns:xsi="http://www.w3.org/2001/XMLSchema-instance">',
         ' <otus id="tax">']
    for i, l in enumerate(labels):
        o.append('  <otu id="t%d" label=%s/>' % (i, quoteattr(l)))
    o.append(' </otus>')
    o.append(' <characters id="cm" otus="tax" xsi:type="nex:%sCells">' % xsi)
    o.append('  <format>')
    sid = {}
    if dt != "continuous":
        syms = std_syms + "-?" if (dt == "standard" and std_syms) else SYMS[dt]
        amb = dict(AMBIG.get(dt, {}))
        fund = [c for c in syms if c not in amb and c != "?" and not (dt == "protein" and c == "X")]
        o.append('   <states id="sa">')
        for c in fund:
            sid[c] = "s%d" % len(sid)
            o.append('    <state id="%s" symbol=%s/>' % (sid[c], quoteattr(c)))
        multi = dict(amb)
        if "?" in syms:
            multi["?"] = "".join(fund)
        if dt == "protein":
            multi["X"] = "".join(c for c in fund if c != "-")
        for c, ms in multi.items():
            sid[c] = "s%d" % len(sid)
            o.append('    <uncertain_state_set id="%s" symbol=%s>' % (sid[c], quoteattr(c)))
            for m in ms:
                o.append('     <member state="%s"/>' % sid[m])
            o.append('    </uncertain_state_set>')
        o.append('   </states>')
    ncol = max(len(r) for r in rows)
    for j in range(ncol):
        o.append('   <char id="c%d"%s/>' % (j, ' states="sa"' if dt != "continuous" else ""))
    o.append('  </format>')
    o.append('  <matrix>')
    for i, r in enumerate(rows):
        o.append('   <row id="r%d" otu="t%d">' % (i, i))
        for j, c in enumerate(r):
            o.append('    <cell char="c%d" state="%s"/>' % (j, repr(c) if dt == "continuous" else sid[c]))
        o.append('   </row>')
    o += ['  </matrix>', ' </characters>', '</nex:nexml>']
    return "\n".join(o) + "\n"


# ---------------------------------------------------------------------------------------------- building routes
def std_alphabet(dendropy, std_syms):
    return dendropy.new_standard_state_alphabet(std_syms) if std_syms else None


def read_kwargs(dendropy, dt, fmt, std_alpha):
    kw = {}
    if dt == "standard" and std_alpha is not None and fmt in ("phylip", "fasta"):
        kw["default_state_alphabet"] = std_alpha
    return kw


def build(dendropy, spec):
    """spec['route'] -> (matrix, reference content computed from the inputs alone)"""
    dt = spec["dt"]
    cls = matrix_class(dendropy, dt)
    rt = spec["route"]
    via = rt["via"]
    sa = std_alphabet(dendropy, spec.get("std")) if dt == "standard" else None
    mk = {"default_state_alphabet": sa} if sa is not None else {}

    def from_rows(labels, rows, tns=None):
        tns = tns or dendropy.TaxonNamespace()
        taxa = [tns.new_taxon(label=l) for l in labels]
        m = cls(taxon_namespace=tns, **mk)
        for t, r in zip(taxa, rows):
            m[t] = m.coerce_values(r) if dt != "continuous" else list(r)
        return m

    if via == "dict":
        import collections
        d = collections.OrderedDict((l, ("".join(r) if dt != "continuous" and rt.get("as_str") else list(r)))
                                    for l, r in zip(rt["labels"], rt["input"]))
        m = cls.from_dict(d, **mk)
        return m, [[l, list(r)] for l, r in zip(rt["labels"], rt["rows"])], sa
    if via == "concatenate":
        tns = dendropy.TaxonNamespace()
        taxa = [tns.new_taxon(label=l) for l in rt["labels"]]
        parts = []
        for part in rt["parts"]:
            m = cls(taxon_namespace=tns, **mk)
            for t, r in zip(taxa, part):
                m[t] = m.coerce_values(r) if dt != "continuous" else list(r)
            parts.append(m)
        m = cls.concatenate(parts)
        ref = [[l, [c for part in rt["parts"] for c in part[i]]] for i, l in enumerate(rt["labels"])]
        if dt == "standard" and sa is not None:
            # the concatenated standard matrix gets a fresh default alphabet; its cells keep the parts' states
            pass
        return m, ref, sa
    if via == "export":
        m0 = from_rows(rt["labels"], rt["rows"])
        m = m0.export_character_indices(rt["indices"])
        keep = sorted(set(rt["indices"]))
        return m, [[l, [r[j] for j in keep if j < len(r)]] for l, r in zip(rt["labels"], rt["rows"])], sa
    if via == "subset":           # namespace larger than the matrix
        tns = dendropy.TaxonNamespace()
        for l in rt["all_labels"]:
            tns.new_taxon(label=l)
        m = cls(taxon_namespace=tns, **mk)
        for l, r in zip(rt["labels"], rt["rows"]):
            m[tns.get_taxon(l)] = m.coerce_values(r) if dt != "continuous" else list(r)
        order = [l for l in rt["all_labels"] if l in rt["labels"]]
        return m, [[l, list(rt["rows"][rt["labels"].index(l)])] for l in order], sa
    if via == "assembled":
        return build_assembled(dendropy, spec, cls, mk, sa)
    if via == "derived":
        return build_derived(dendropy, spec, cls, mk, sa)
    if via in ("nexus", "phylip", "fasta", "nexml"):
        text = rt["text"] if "text" in rt else compose_nexus(rt["params"])
        kw = dict(rt.get("kw", {}))
        kw.update(read_kwargs(dendropy, dt, via, sa))
        m = cls.get(data=text, schema=via, **kw)
        return m, [[l, list(r)] for l, r in rt["ref"]], sa
    raise ValueError(via)


OTHER_TYPE = {"dna": "rna", "rna": "protein", "nucleotide": "dna", "protein": "dna", "standard": "dna", "restriction": "standard",
              "infinite": "restriction", "continuous": "dna"}


def build_assembled(dendropy, spec, cls, mk, sa):
    """a matrix whose rows are put in place one by one, each by another documented way of giving a matrix a row:
    `m[t] = list` / `= str` (discrete symbols through coerce_values) / `= CharacterDataSequence(values)` (the generic base
    class) / `= <sequence object of another matrix type holding the same values>`, `new_sequence(t, values)`, a short row
    completed by `fill(value)`, a missing row created by `fill_taxa()` + `fill(value)` or `pack(value)`, rows taken over
    from a second matrix by `add_sequences` / `update_sequences` / `extend_sequences(is_add_new_sequences=True)`, a prefix
    extended by `extend_sequences`; optionally the result is copy-constructed or cloned.  Reference = the values alone."""
    from dendropy.datamodel import charmatrixmodel as cmm
    dt, rt = spec["dt"], spec["route"]
    cont = dt == "continuous"
    tns = dendropy.TaxonNamespace()
    taxa = [tns.new_taxon(label=l) for l in rt["labels"]]
    m = cls(taxon_namespace=tns, **mk)
    donor = cls(taxon_namespace=tns, **mk)          # second matrix of the same type over the same namespace
    other_cls = matrix_class(dendropy, OTHER_TYPE[dt])

    def vals(r):
        return [float(x) for x in r] if cont else list(m.coerce_values(r))

    nchar = max(len(r) for r in rt["rows"])
    pad = rt.get("pad")
    padv = (float(pad) if cont else m.coerce_values([pad])[0]) if pad is not None else None
    late = []
    for t, r, how in zip(taxa, rt["rows"], rt["how"]):
        if how == "list":
            m[t] = vals(r)
        elif how == "str":
            m[t] = m.coerce_values("".join(r))
        elif how == "generic":
            m[t] = cmm.CharacterDataSequence(vals(r))
        elif how == "other":
            m[t] = other_cls.character_sequence_type(vals(r))
        elif how == "own":
            m[t] = cls.character_sequence_type(vals(r))
        elif how == "new_sequence":
            m.new_sequence(t, vals(r))
        elif how == "fill":              # all but the last k cells given, the rest is the pad value
            k = rt["short"]
            m[t] = vals(r[:len(r) - k])
        elif how == "generic+fill":
            k = rt["short"]
            m[t] = cmm.CharacterDataSequence(vals(r[:len(r) - k]))
        elif how in ("fill_taxa", "pack"):
            pass                         # whole row is the pad value, created below
        elif how in ("add", "update", "extend_new"):
            donor[t] = vals(r)
            late.append(how)
        elif how == "extend":
            h = len(r) // 2
            m[t] = vals(r[:h])
            donor[t] = vals(r[h:])
            late.append("extend")
        else:
            raise ValueError(how)
    if "update" in late:
        m.update_sequences(donor)
    elif "add" in late:
        m.add_sequences(donor)
    elif late:
        m.extend_sequences(donor, is_add_new_sequences=True)
    hows = set(rt["how"])
    if "pack" in hows:
        m.pack(value=padv, size=nchar)
    else:
        if "fill_taxa" in hows:
            m.fill_taxa()
        if hows & {"fill", "generic+fill", "fill_taxa"}:
            m.fill(padv, size=nchar)
    fin = rt.get("finish")
    if fin == "copy":
        m = cls(m)
    elif fin == "clone":
        m = m.clone()
    elif fin == "deepcopy":
        import copy
        m = copy.deepcopy(m)
    return m, [[l, list(r)] for l, r in zip(rt["labels"], rt["rows"])], sa


def build_derived(dendropy, spec, cls, mk, sa):
    """a matrix DERIVED from one with explicit per-column character types (read from a NeXML document that defines its
    <char> columns, or built cell by cell with `character_type=`): export_character_indices / export_character_subset
    (any selection: non-prefix, single column, given out of order or with repeats), concatenate / extend_sequences with a
    second such matrix, columns pruned by `del seq[i]` in every row, clone / copy construction / deepcopy — in sequences
    of one to three steps.  Reference = the selected columns of the input values."""
    import copy
    dt, rt = spec["dt"], spec["route"]
    cont = dt == "continuous"

    def typed(tns, labels, rows, like=None):
        # a second matrix shares the first one's state alphabet (states of a foreign alphabet are the known finding
        # `foreign-states`, not this route's subject)
        kw = dict(mk)
        if like is not None and dt == "standard":
            kw = {"default_state_alphabet": like.default_state_alphabet}
        m = cls(taxon_namespace=tns, **kw)
        ncol = max(len(r) for r in rows)
        cols = []
        for j in range(ncol):
            ct = m.new_character_type()
            if not cont:
                ct.state_alphabet = m.default_state_alphabet
            m.character_types.append(ct)
            cols.append(ct)
        for l, r in zip(labels, rows):
            seq = m.new_sequence(tns.require_taxon(label=l))
            vals = [float(x) for x in r] if cont else list(m.coerce_values(r))
            for v, ct in zip(vals, cols):
                seq.append(v, character_type=ct)
        return m

    if rt["source"] == "nexml":
        m = cls.get(data=compose_nexml(dt, rt["labels"], rt["rows"], spec.get("std")), schema="nexml")
    else:
        m = typed(dendropy.TaxonNamespace(), rt["labels"], rt["rows"])
    cols = [[r[j] for r in rt["rows"]] for j in range(len(rt["rows"][0]))]
    for op in rt["ops"]:
        k = op["op"]
        if k == "export_idx":
            m = m.export_character_indices(list(op["indices"]))
            cols = [cols[j] for j in sorted(set(op["indices"]))]
        elif k == "export_subset":
            cs = m.new_character_subset(label=op["label"], character_indices=list(op["indices"]))
            m = m.export_character_subset(op["label"] if op.get("by_label") else cs)
            cols = [cols[j] for j in sorted(set(op["indices"]))]
        elif k in ("concat", "extend"):
            m2 = typed(m.taxon_namespace, rt["labels"], op["rows"], like=m)
            if k == "concat":
                m = cls.concatenate([m, m2])
            else:
                m.extend_sequences(m2)
            cols = cols + [[r[j] for r in op["rows"]] for j in range(len(op["rows"][0]))]
        elif k == "del":
            for t in m:
                seq = m[t]
                for j in sorted(set(op["indices"]), reverse=True):
                    del seq[j]
            cols = [c for j, c in enumerate(cols) if j not in set(op["indices"])]
        elif k == "clone":
            m = m.clone()
        elif k == "copy":
            m = cls(m)
        elif k == "deepcopy":
            m = copy.deepcopy(m)
        else:
            raise ValueError(k)
    return m, [[l, [c[i] for c in cols]] for i, l in enumerate(rt["labels"])], sa


def gen_derived_route(rng, dt, labels, rows, syms):
    ncol = len(rows[0])
    source = "nexml" if (dt in SUPPORTED["nexml"] and rng.random() < 0.6) else "typed"
    ops = []
    n = ncol
    for _ in range(rng.randint(1, 3)):
        kinds = ["export_idx", "export_idx", "export_subset", "extend", "del", "clone", "copy", "deepcopy"]
        if dt != "standard":
            kinds.append("concat")            # known finding: concatenated standard matrices list a fresh alphabet
        k = rng.choice(kinds)
        if k in ("export_idx", "export_subset"):
            r = rng.random()
            if r < 0.25:
                idx = [rng.randrange(n)]                                   # a single column
            elif r < 0.5 and n >= 2:
                a = rng.randint(1, n - 1)
                idx = list(range(a, n))                                    # a trailing block
            elif r < 0.6:
                idx = list(range(rng.randint(1, n)))                       # a leading block
            else:
                idx = [j for j in range(n) if rng.random() < 0.5] or [n - 1]
            if rng.random() < 0.4:
                idx = idx[::-1]                                            # given in reverse order
            if rng.random() < 0.2:
                idx = idx + idx[:1]
            op = {"op": k, "indices": idx}
            if k == "export_subset":
                op["label"] = "cs%d" % len(ops)
                op["by_label"] = rng.random() < 0.5
            ops.append(op)
            n = len(set(idx))
        elif k in ("concat", "extend"):
            w = rng.randint(1, 3)
            ops.append({"op": k, "rows": gen_rows(rng, dt, len(labels), w, syms)})
            n += w
        elif k == "del":
            # `del seq[i]` cannot renumber the character subsets concatenate() records; export clears them
            if n < 2 or (any(o["op"] == "concat" for o in ops) and not str(ops[-1]["op"]).startswith("export")):
                continue
            idx = sorted(rng.sample(range(n), rng.randint(1, n - 1)))
            ops.append({"op": "del", "indices": idx})
            n -= len(idx)
        else:
            ops.append({"op": k})
    if not ops:
        ops = [{"op": "export_idx", "indices": [ncol - 1]}]
    return {"via": "derived", "source": source, "labels": labels, "rows": rows, "ops": ops}


ASSEMBLE_HOWS = ["list", "str", "generic", "other", "own", "new_sequence", "fill", "generic+fill", "fill_taxa", "pack", "add", "update",
                 "extend_new", "extend"]


def gen_assembled_route(rng, dt, labels, rows, syms):
    """rows: the intended content; rows made by padding are overwritten here with the pad value"""
    nchar = len(rows[0])
    cont = dt == "continuous"
    pad = (rng.choice([0.25, -9.125, 0.0, 3.0]) if cont else rng.choice([c for c in syms if c in "-?N0X"] or [syms[0]]))
    hows = []
    late_kind = rng.choice(["add", "update", "extend_new"])       # one bulk operation per matrix
    use_pack = rng.random() < 0.5
    for i in range(len(rows)):
        h = rng.choice(ASSEMBLE_HOWS)
        if h in ("add", "update", "extend_new"):
            h = late_kind
        if h == "extend" and (late_kind != "extend_new" or nchar < 2):
            h = "list"                    # only extend_sequences appends to a row that is already there
        if h == "str" and cont:
            h = "generic"
        if h in ("fill_taxa", "pack"):
            h = "pack" if use_pack else "fill_taxa"
        if h in ("fill", "generic+fill") and nchar < 2:
            h = "generic"
        hows.append(h)
    if use_pack and any(h in ("fill", "generic+fill") for h in hows) and "pack" not in hows:
        pass                              # fill() alone completes the short rows
    short = rng.randint(1, max(1, nchar - 1))
    rows = [list(r) for r in rows]
    for r, h in zip(rows, hows):
        if h in ("fill_taxa", "pack"):
            r[:] = [pad] * nchar
        elif h in ("fill", "generic+fill"):
            r[nchar - short:] = [pad] * short
    if all(h in ("fill_taxa", "pack") for h in hows):
        hows[0] = "list"                  # at least one row fixes the matrix width
    return {"via": "assembled", "labels": labels, "rows": rows, "how": hows, "pad": pad, "short": short,
            "finish": rng.choice([None, None, "copy", "clone", "deepcopy"])}


# ---------------------------------------------------------------------------------------------- NeXML abstract document
def strip_ns(tag):
    return tag.split("}", 1)[1] if "}" in tag else tag


def nexml_abstract(text):
    """[(char ids in format order, state id -> cell, rows [(otu label, [(char id, state)])])] per <characters>"""
    root = ET.fromstring(text.encode("utf-8") if "encoding=" in text[:60] else text)
    otu_label = {}
    for otus in root:
        if strip_ns(otus.tag) == "otus":
            for otu in otus:
                if strip_ns(otu.tag) == "otu":
                    otu_label[(otus.get("id"), otu.get("id"))] = otu.get("label")
    out = []
    for ch in root:
        if strip_ns(ch.tag) != "characters":
            continue
        chars, states = [], {}
        for fmt in ch:
            if strip_ns(fmt.tag) != "format":
                continue
            for e in fmt:
                tg = strip_ns(e.tag)
                if tg == "char":
                    chars.append(e.get("id"))
                elif tg == "states":
                    for s in e:
                        states[s.get("id")] = s.get("symbol")
        rows = []
        for mx in ch:
            if strip_ns(mx.tag) != "matrix":
                continue
            for row in mx:
                if strip_ns(row.tag) != "row":
                    continue
                cells = [(c.get("char"), c.get("state")) for c in row if strip_ns(c.tag) == "cell"]
                rows.append((otu_label.get((ch.get("otus"), row.get("otu"))), cells))
        out.append((chars, states, rows))
    return out


# ---------------------------------------------------------------------------------------------- one matrix case
def write_opts(rng, fmt, labels, dt):
    """(writer kwargs, reader kwargs, label style required)"""
    if fmt == "phylip":
        r = rng.random()
        if r < 0.3:
            return {"strict": True}, {"strict": True}
        if r < 0.5:
            return {"spaces_to_underscores": True}, {"underscores_to_spaces": True}
        if r < 0.65:
            return {}, {"multispace_delimiter": True}
        return {}, {}
    if fmt == "nexus":
        r = rng.random()
        if r < 0.2:
            return {"simple": True}, {}
        if r < 0.3:
            return {"preserve_spaces": True}, {}
        if r < 0.4:
            return {"unquoted_underscores": True}, {"preserve_underscores": True}
        return {}, {}
    if fmt == "fasta":
        return ({"wrap": False} if rng.random() < 0.2 else {}), {}
    if fmt == "nexml" and rng.random() < 0.4:
        return {"markup_as_sequences": True}, {}      # NeXML <seq> rows instead of <cell> elements
    return {}, {}


def labels_admissible(fmt, w, r, labels):
    if fmt == "phylip":
        if w.get("strict"):
            return all(len(l) <= 10 for l in labels) and len({l[:10].lower() for l in labels}) == len(labels)
        if w.get("spaces_to_underscores"):
            return all("_" not in l and "\t" not in l and "  " not in l for l in labels)
        if r.get("multispace_delimiter"):
            return all("  " not in l and "\t" not in l for l in labels)
        return all(" " not in l and "\t" not in l for l in labels)
    return True


def has_none(got):
    return bool(got) and any(c is None for _, cells in got for c in cells)


def report(ctx, kind, what, spec, got=None):
    """ctx.fail, at most 12 per kind (the rest is only counted) so that one defect cannot crowd out the others"""
    if has_none(got):
        kind = "nexml-columns"            # rows shifted by None padding
    n = ctx.extra.setdefault("_per_kind", {})
    n[kind] = n.get(kind, 0) + 1
    if n[kind] <= 12:
        ctx.fail(kind, what, spec)
    else:
        ctx.count("further_failures:" + kind)


def failure_kind(spec, fmt):
    if spec.get("equate"):
        return "equate:" + fmt
    if spec["dt"] == "standard" and spec["route"]["via"] == "concatenate":
        return "foreign-states:" + fmt      # cells hold states of the parts' alphabets, which the new matrix does not list
    if spec.get("has_multi"):
        return "multistate:" + fmt
    return "roundtrip:" + fmt


def parse_nexus_written(text):
    """DIMENSIONS statement, FORMAT terms (SYMBOLS sorted) and the row sequences of the first character block"""
    dims = fmt = None
    seqs = []
    in_matrix = False
    for line in text.split("\n"):
        s = line.strip()
        if in_matrix:
            if s == ";":
                break
            if s:
                seqs.append(s.rsplit(None, 1)[-1] if " " in s else "")
            continue
        su = s.upper()
        if su.startswith("DIMENSIONS") and "NCHAR" in su:
            dims = " ".join(s.rstrip(";").split())
        elif su.startswith("FORMAT"):
            fmt = " ".join(s[len("FORMAT"):].strip().rstrip(";").split())
            fmt = re.sub(r'SYMBOLS="([^"]*)"', lambda m: 'SYMBOLS="%s"' % "".join(sorted(set(m.group(1)))), fmt)
            terms = fmt.split(" ")
            fmt = " ".join(t for i, t in enumerate(terms) if i == 0 or t != terms[i - 1])   # a repeated term is harmless
        elif su == "MATRIX":
            in_matrix = True
    return dims, fmt, seqs


def canon_phylip(text, strict):
    """what a PHYLIP document says, layout aside: the two header numbers and (label, sequence) per row"""
    lines = [l for l in re.split(r"\r\n|\n|\r", text) if l.strip()]
    out = [" ".join(lines[0].split())] if lines else []
    for l in lines[1:]:
        if strict:
            out.append(l[:10].rstrip() + "|" + "".join(l[10:].split()))
        else:
            parts = l.split(None, 1) if not l[:1].isspace() else ["", l]
            m = re.match(r"^(.*?\S)\s{2,}(\S.*)$", l)
            lab, seq = (m.group(1), m.group(2)) if m else (parts[0], parts[1] if len(parts) > 1 else "")
            out.append(lab + "|" + "".join(seq.split()))
    return "\n".join(out)


def canon_fasta(text):
    """records of a FASTA document: name line and the sequence without line structure"""
    out = []
    for l in text.split("\n"):
        if l.startswith(">"):
            out.append([l[1:].strip(), ""])
        elif l.strip() and out:
            out[-1][1] += "".join(l.split())
    return "\n".join("%s|%s" % (a, b) for a, b in out)


def canon_dec(tok):
    """sign, mantissa without trailing zeros, exponent of a decimal token (Python's decimal module: independent of float())"""
    import decimal
    d = decimal.Decimal(tok)
    sign, digits, exp = d.as_tuple()
    mant = int("".join(str(x) for x in digits))
    if mant == 0:
        return "+0e0"
    while mant % 10 == 0:
        mant //= 10
        exp += 1
    return "%s%de%d" % ("-" if sign else "+", mant, exp)


def continuous_rows(text, fmt, ncols, strict=False):
    """value tokens of each written row of a continuous matrix (the last ncols[i] white-space separated tokens of row i)"""
    lines = text.split("\n")
    if fmt == "nexus":
        k = next(i for i, l in enumerate(lines) if l.strip().upper() == "MATRIX")
        body = []
        for l in lines[k + 1:]:
            if l.strip() == ";":
                break
            if l.strip():
                body.append(l)
    else:
        body = [(l[10:] if strict else l) for l in lines[1:] if l.strip()]
    return [l.split()[len(l.split()) - n:] if n else [] for l, n in zip(body, ncols)]


def check_decimals(ctx, pending):
    """decimal tokens: the model's parser against Python's float() acceptance and decimal value"""
    import decimal
    rng = ctx.rng
    toks = ["0", "-0", "-0.0", "1e5", "1E5", "+2.5", ".5", "5.", "1e", "e5", "--1", "1.2.3", "abc", "1e+", "1e-05", "+", "-", ".", "12a",
            "5e-324", "1.7976931348623157e+308", "123456789.125", "1e+22", "00012", "1e05"]
    for _ in range(40):
        t = rng.choice(["", "-", "+"]) + rng.choice(["", "0", "7", "12", "340"]) + rng.choice(["", ".", ".0", ".25", ".500"])
        t += rng.choice(["", "", "e3", "E-2", "e+10", "e-07", "e"])
        toks.append(t)
    for t in toks:
        if not t or any(c in t for c in "_ \t\n"):
            continue
        try:
            float(t)
            decimal.Decimal(t)
            impl = canon_dec(t)
            impl = "%s %s %s" % (impl[0], impl[1:].split("e")[0], impl.split("e")[1])
        except (ValueError, decimal.InvalidOperation):
            impl = "err"
        ctx.case(["dec", t], False, kind="decimal")
        pending.append(("dec " + hex6(t), {"kind": "dec", "token": t}, impl, "dec"))


def cells_field(cells):
    if not cells:
        return "-"
    out = []
    for c in cells:
        if isinstance(c, str):
            out.append("S" + hex6(c))
        else:
            out.append(("P" if c[0] == "p" else "A") + hex6(c[1]))
    return ",".join(out)


def ascii_ok(labels):
    return all(all(32 <= ord(c) < 127 for c in l) for l in labels)


def rows_field(ref, text=row_text):
    return " ".join("%s:%s" % (hex6(l), hex6(text(c))) for l, c in ref)


def decode_rows(s):
    out = []
    for w in s.split():
        a, b = w.split(":")
        out.append([unhex6(a) or "", unhex6(b) or ""])
    return out


def exec_matrix(ctx, dendropy, spec, pending):
    dt, fmt = spec["dt"], spec["target"]
    cls = matrix_class(dendropy, dt)
    try:
        with time_limit(20):
            m, ref, sa = build(dendropy, spec)
    except Exception as e:
        # building itself (reading a harness-composed document) failed: a reader failure on well-formed input
        if spec["route"]["via"] in ("nexus", "phylip", "fasta", "nexml"):
            ctx.case(["build", spec], True, kind="route:" + spec["route"]["via"])
            ctx.fail("parse:" + spec["route"]["via"], "well-formed %s source of a %s matrix is rejected: %s: %s" % (
                spec["route"]["via"], dt, type(e).__name__, str(e)[:200]), spec)
            return
        raise
    built = content(m)
    via = spec["route"]["via"]
    ctx.case([spec["dt"], spec.get("std"), spec["route"], fmt, spec.get("w"), spec.get("r"), spec.get("chain")],
             nontrivial(ref), sample={"dt": dt, "route": via, "target": fmt, "content": brief(ref)}, kind="%s/%s/%s" % (dt, via, fmt))
    if not same_content(ref, built):
        ctx.fail("build:" + via, "%s matrix built via %s holds %s, the input says %s" % (dt, via, brief(built), brief(ref)), spec)
        return
    if via == "nexus" and dt != "continuous" and ascii_ok([l for l, _ in ref]) and "params" in spec["route"]:
        p = spec["route"]["params"]
        line = "nxread %s %d %d %d %s %s" % (hex6(p["fmt"]), p["nchar"], p["ntax"] if p["simple"] else len(p["taxa"]),
                                            0 if p["simple"] else len(p["taxa"]),
                                            " ".join(hex6(l) for l in ([] if p["simple"] else p["taxa"])),
                                            " ".join("%s:%s" % (hex6(l), hex6(t)) for l, t in p["rows"]))
        pending.append((line, spec, "ok %s %s" % (m.data_type, rows_field(built)), "nxread"))
    if via == "nexus" and dt == "continuous" and ascii_ok([l for l, _ in ref]) and "cparams" in spec["route"]:
        # whole continuous matrix through the model's nxReadC: same taxa, same numbers (decimal value of every token)
        p = spec["route"]["cparams"]
        line = "nxreadc %d %d 0 %d %s %s" % (p["nchar"], p["ntax"] if p["simple"] else len(p["taxa"]), 0 if p["simple"] else len(p["taxa"]),
                                            " ".join(hex6(l) for l in ([] if p["simple"] else p["taxa"])),
                                            " ".join("%s:%s" % (hex6(l), hex6(t)) for l, t in p["rows"]))
        pending.append((" ".join(line.split()), spec, "ok " + " ".join("%s:%s" % (hex6(l), ",".join(canon_dec(repr(float(x))) for x in c))
                                                                        for l, c in built), "nxreadc"))
    if via in ("phylip", "fasta") and dt != "continuous" and ascii_ok([l for l, _ in ref]) and "text" in spec["route"]:
        rt = spec["route"]
        dtf0 = dt_field(dt, spec.get("std"))
        if via == "phylip":
            kw = rt.get("kw", {})
            line = "phread %s %d %d %d %d %s" % (dtf0, 1 if kw.get("strict") else 0, 1 if kw.get("interleaved") else 0,
                                                1 if kw.get("multispace_delimiter") else 0, 1 if kw.get("underscores_to_spaces") else 0,
                                                " ".join(hex6(x) for x in re.split(r"\r\n|\n|\r", rt["text"])))
            pending.append((line, spec, "ok " + rows_field(built), "phread"))
        else:
            pending.append(("faread %s %s" % (dtf0, hex6(rt["text"])), spec, "ok " + rows_field(built), "faread"))
    # ---- write
    w, r = dict(spec.get("w", {})), dict(spec.get("r", {}))
    if fmt == "phylip" and via == "subset":
        w["suppress_missing_taxa"] = True
    try:
        with time_limit(20):
            text = m.as_string(fmt, **w)
    except Exception as e:
        report(ctx, failure_kind(spec, fmt), "writing a %s matrix (built via %s) to %s raises %s: %s" % (
            dt, via, fmt, type(e).__name__, str(e)[:200]), spec)
        return
    # ---- read back as the same type
    rk = dict(r)
    rk.update(read_kwargs(dendropy, dt, fmt, sa))
    read_cls = cls
    as_standard = fmt == "nexus" and dt in ("restriction", "infinite")
    if as_standard:
        read_cls = dendropy.StandardCharacterMatrix      # NEXUS has no restriction type: content must survive as standard
    try:
        with time_limit(20):
            m2 = read_cls.get(data=text, schema=fmt, **rk)
        got = content(m2)
        err = None
    except Exception as e:
        got, err = None, "%s: %s" % (type(e).__name__, str(e)[:200])
    if err is not None:
        report(ctx, failure_kind(spec, fmt), "%s matrix built via %s, written to %s %s, cannot be read back: %s" % (
            dt, via, fmt, w or "", err), spec)
    elif not same_content(ref, got):
        report(ctx, failure_kind(spec, fmt), "%s matrix built via %s, written to %s %s: reads back %s, was %s" % (
            dt, via, fmt, w or "", brief(got), brief(ref)), spec, got)
    elif spec.get("chain"):
        # conversion chain: the re-read matrix goes through a second format
        f2 = spec["chain"]
        try:
            with time_limit(20):
                w2 = {"suppress_missing_taxa": True} if f2 == "phylip" else {}
                t2 = m2.as_string(f2, **w2)
                k2 = read_kwargs(dendropy, dt, f2, sa)
                m3 = (dendropy.StandardCharacterMatrix if as_standard else cls).get(data=t2, schema=f2, **k2)
            got3 = content(m3)
            if not same_content(ref, got3):
                report(ctx, "convert:%s>%s" % (fmt, f2), "%s matrix converted %s -> %s: reads back %s, was %s" % (
                    dt, fmt, f2, brief(got3), brief(ref)), spec, got3)
        except Exception as e:
            report(ctx, "convert:%s>%s" % (fmt, f2), "%s matrix converted %s -> %s fails: %s: %s" % (
                dt, fmt, f2, type(e).__name__, str(e)[:200]), spec)
    # ---- model side
    if dt == "continuous":
        if fmt in ("nexus", "phylip"):
            for (l, cells), toks in zip(ref, continuous_rows(text, fmt, [len(c) for _, c in ref], bool(w.get("strict")))):
                want = [repr(float(x)) for x in cells]
                pending.append(("contwrite %d %s" % (1 if fmt == "nexus" else 0, " ".join(hex6(t) for t in want)), spec,
                                " ".join(toks), "contwrite"))
                pending.append(("contread " + hex6(" ".join(toks) + (" " if fmt == "nexus" else "")), spec,
                                "ok " + " ".join(canon_dec(t) for t in want), "contread"))
        return
    # concatenate gives a standard matrix a fresh default alphabet; a copy (export_character_indices) keeps its source's
    dtf_w = dt_field(dt, None if via == "concatenate" else spec.get("std"))
    dtf = dt_field(dt, spec.get("std"))        # PHYLIP / FASTA are read with the alphabet handed to the reader
    labels = [l for l, _ in ref]
    sym_only = all(isinstance(c, str) for _, cells in ref for c in cells)
    if fmt == "nexus":
        dims, fterms, seqs = parse_nexus_written(text)
        ordered = [[t.label, [cell_of(x, True) for x in m[t]]] for t in m]     # the writer keeps a state's member order
        line = "nxwrite %s %d %s" % (dtf_w, 1 if w.get("simple") else 0, " ".join("%s:%s" % (hex6(l), cells_field(c)) for l, c in ordered))
        pending.append((line, spec, " ".join([hex6(dims or "")] + [hex6(fterms or "")] + [hex6(s) for s in seqs]), "nxwrite"))
    elif fmt == "phylip" and sym_only and ascii_ok(labels) and labels_admissible(fmt, w, r, labels) and via != "subset":
        line = "phwrite %d %d %s" % (1 if w.get("strict") else 0, 1 if w.get("spaces_to_underscores") else 0, rows_field(ref))
        pending.append((line, spec, canon_phylip(text, bool(w.get("strict"))), "phwrite:%d" % (1 if w.get("strict") else 0)))
        lines = re.split(r"\r\n|\n|\r", text)
        line = "phread %s %d %d %d %d %s" % (dtf, 1 if r.get("strict") else 0, 1 if r.get("interleaved") else 0,
                                            1 if r.get("multispace_delimiter") else 0, 1 if r.get("underscores_to_spaces") else 0,
                                            " ".join(hex6(x) for x in lines))
        pending.append((line, spec, "err" if got is None else "ok " + rows_field(got), "phread"))
    elif fmt == "fasta" and sym_only and ascii_ok(labels):
        if w.get("wrap", True):
            pending.append(("fawrite " + rows_field(ref), spec, canon_fasta(text), "fawrite"))
        pending.append(("faread %s %s" % (dtf, hex6(text)), spec, "err" if got is None else "ok " + rows_field(got), "faread"))
    elif fmt == "nexml" and not w.get("markup_as_sequences"):
        try:
            docs = nexml_abstract(text)
        except ET.ParseError:
            docs = []
        if docs:
            chars, states, rows = docs[0]
            idx = {c: i for i, c in enumerate(chars)}
            impl = " ".join([",".join(str(i) for i in range(len(chars))) or "-"] +
                            [",".join(str(idx.get(c, -1)) for c, _ in cells) or "-" for _, cells in rows])
            pending.append(("nexmlwrite " + (",".join(str(len(c)) for _, c in ref) or "-"), spec, impl, "nexmlwrite"))
            if got is not None:
                sids = {}
                for _, cells in rows:
                    for _, s in cells:
                        sids.setdefault(s, len(sids))
                sym_of = {v: states.get(k) for k, v in sids.items()}
                line = "nexmlread %s %s" % (",".join(str(idx[c]) for c in chars) or "-",
                                            " ".join(",".join("%d.%d" % (idx.get(c, 99999), sids[s]) for c, s in cells) or "-" for _, cells in rows))
                pending.append((line, spec, (got, sym_of), "nexmlread"))


def flush(ctx, pending):
    if not pending:
        return
    outs = ctx.ask([p[0] for p in pending])
    for (line, spec, impl, op), mo in zip(pending, outs):
        if mo is None:
            continue
        ctx.compared()
        mo = mo.strip()
        if op == "nexmlstatus":
            st = "err" if "err" in mo.split() else "ok"
            if st != impl:
                ctx.disagree("nexmlread", spec, impl, st)
            continue
        if op == "nexmlread":
            got, sym_of = impl
            rows = []
            if "err" in mo.split():
                ctx.disagree(op, spec, "ok", "err (cell names an undefined <char>)")
                continue
            for w in mo.split():
                rows.append([] if w == "-" else ["_" if x == "_" else (sym_of.get(int(x)) or "multi") for x in w.split(",")])
            a = [[("_" if c is None else (c if isinstance(c, str) else "multi")) for c in cells] for _, cells in got]
            b = [[("multi" if c == "None" else c) for c in r] for r in rows]
            if a != b:
                ctx.disagree(op, spec, str(a)[:300], str(b)[:300])
            continue
        if op == "contwrite":
            mo = " ".join((unhex6(mo) or "").split())
        if op.startswith("phwrite"):
            mo = canon_phylip("\n".join(unhex6(x) or "" for x in mo.split()), op.endswith("1"))
            op = "phwrite"
        elif op == "fawrite":
            mo = canon_fasta(unhex6(mo) or "")
        if op in ("nxread", "nxreadc", "phread", "faread") and mo.startswith("err"):
            mo = "err"
        if op in ("nxread",) and impl.startswith("err"):
            impl = "err"
        if mo != impl.strip():
            def show(s):
                try:
                    return " ".join(":".join((unhex6(y) or "") if re.fullmatch(r"([0-9a-f]{6})+|=|-", y) else y for y in x.split(":")) for x in s.split())
                except Exception:
                    return s
            ctx.disagree(op, spec, show(impl)[:400], show(mo)[:400])
    del pending[:]


# ---------------------------------------------------------------------------------------------- case generation
def gen_matrix_spec(rng, dt=None, via=None, fmt=None, dims=None):
    dt = dt or rng.choice(DTYPES)
    std = std_symbols(rng) if dt == "standard" else None
    syms = SYMS.get(dt)
    if dt == "standard" and std:
        syms = std + "-?"
    routes = ["dict", "dict", "concatenate", "export", "subset", "nexus", "phylip", "fasta", "nexml", "assembled", "assembled", "derived", "derived"]
    if dt == "continuous":
        routes = ["dict", "dict", "concatenate", "export", "nexus", "phylip", "nexml", "assembled", "assembled", "derived", "derived"]
    if dt == "nucleotide":
        routes = [x for x in routes if x != "nexml"]
    if dt in ("restriction", "infinite"):
        routes = [x for x in routes if x != "nexus"] if dt == "infinite" else [x for x in routes if x != "nexus"]
        if dt == "infinite":
            routes = [x for x in routes if x != "nexml"]
    via = via or rng.choice(routes)
    fmt = fmt or rng.choice([f for f in FORMATS if dt in SUPPORTED[f] or (f == "nexus" and dt in ("restriction", "infinite"))])
    ntax, nchar = dims or gen_dims(rng)
    w, r = write_opts(rng, fmt, None, dt)
    # label style: the strictest of what the route's source format and the target format admit
    style = "any"
    if fmt == "phylip" or via == "phylip":
        style = "strict" if (w.get("strict") and via != "phylip") else "nospace"
        if fmt == "phylip" and w.get("spaces_to_underscores") and via != "phylip":
            style = "any"
    if w.get("unquoted_underscores"):
        style = "nospace"
    labels = gen_labels(rng, ntax, style)
    if fmt == "phylip" and not labels_admissible(fmt, w, r, labels):
        labels = gen_labels(rng, ntax, "nospace")
    if (fmt == "nexml" or via in ("nexml", "derived")) and not all(nexml_safe(l) for l in labels):
        labels = gen_labels(rng, ntax, "nospace")
    rows = gen_rows(rng, dt, ntax, nchar, syms)
    spec = {"kind": "matrix", "dt": dt, "std": std, "target": fmt, "w": w, "r": r, "via": via}
    if via == "dict":
        inp = rows
        if dt not in ("continuous",) and rng.random() < 0.3 and dt != "standard":
            inp = [[c.lower() if rng.random() < 0.3 else c for c in row] for row in rows]
        spec["route"] = {"via": "dict", "labels": labels, "rows": rows, "input": inp, "as_str": dt != "continuous" and rng.random() < 0.6}
    elif via == "assembled":
        spec["route"] = gen_assembled_route(rng, dt, labels, rows, syms)
    elif via == "derived":
        spec["route"] = gen_derived_route(rng, dt, labels, rows, syms)
    elif via == "concatenate":
        cut = sorted({0, nchar} | {rng.randint(1, max(1, nchar - 1)) for _ in range(rng.randint(1, 2))}) if nchar > 1 else [0, nchar]
        parts = [[row[a:b] for row in rows] for a, b in zip(cut, cut[1:])]
        spec["route"] = {"via": "concatenate", "labels": labels, "parts": parts}
    elif via == "export":
        idx = [j for j in range(nchar) if rng.random() < 0.6] or [0]
        if rng.random() < 0.3:
            idx = idx + idx[:1]
        spec["route"] = {"via": "export", "labels": labels, "rows": rows, "indices": idx}
    elif via == "subset":
        extra = ["zz%d" % i for i in range(rng.randint(1, 3))]
        allv = labels + extra
        rng.shuffle(allv)
        spec["route"] = {"via": "subset", "labels": labels, "rows": rows, "all_labels": allv}
    elif via == "nexus":
        if dt == "continuous":
            cp = {"simple": rng.random() < 0.5, "taxa": labels, "ntax": ntax, "nchar": nchar,
                  "fmt": "FORMAT DATATYPE=CONTINUOUS;", "rows": [[l, " ".join(repr(x) for x in row)] for l, row in zip(labels, rows)]}
            spec["route"] = {"via": "nexus", "text": compose_nexus(cp), "ref": [[l, row] for l, row in zip(labels, rows)], "cparams": cp}
        else:
            rows2 = [list(row) for row in rows]
            if dt == "standard" and rng.random() < 0.35:
                # symbol-less multistate cells: only for standard matrices (their alphabet is private to the matrix)
                fund = [c for c in syms if c not in "-?"]
                if len(fund) >= 2:
                    spec["has_multi"] = True
                    for row in rows2:
                        for j in range(len(row)):
                            if rng.random() < 0.3:
                                ms = rng.sample(fund, rng.randint(2, min(3, len(fund))))
                                row[j] = [rng.choice("pa"), "".join(sorted(ms))]
            p, ref = gen_nexus_parse(rng, dt, labels, rows2, std)
            spec["route"] = {"via": "nexus", "params": p, "ref": ref}
    elif via == "phylip":
        strict = rng.random() < 0.4
        inter = rng.random() < 0.5
        multi = (not strict) and rng.random() < 0.3
        seqs = [[repr(x) for x in row] for row in rows] if dt == "continuous" else ["".join(row) for row in rows]
        text = compose_phylip(rng, labels, seqs, strict, inter, multi, nchar)
        spec["route"] = {"via": "phylip", "text": text, "kw": {"strict": strict, "interleaved": inter, "multispace_delimiter": multi},
                         "ref": [[l, row] for l, row in zip(labels, rows)]}
    elif via == "fasta":
        text = compose_fasta(rng, labels, ["".join(row) for row in rows])
        spec["route"] = {"via": "fasta", "text": text, "ref": [[l, row] for l, row in zip(labels, rows)]}
    elif via == "nexml":
        text = compose_nexml(dt, labels, rows, std)
        spec["route"] = {"via": "nexml", "text": text, "ref": [[l, row] for l, row in zip(labels, rows)]}
    if rng.random() < 0.3 and not spec.get("has_multi"):
        c = [f for f in FORMATS if dt in SUPPORTED[f] and f != fmt]
        if fmt == "nexus" and dt in ("restriction", "infinite"):
            c = [f for f in c if f != "nexml"]
        if not all(nexml_safe(l) for l in labels):
            c = [f for f in c if f != "nexml"]
        if dt == "standard" and via == "concatenate":
            c = [f for f in c if f not in ("nexml", "nexus")]
        if not labels_admissible("phylip", {}, {}, labels):
            c = [f for f in c if f != "phylip"]
        if c:
            spec["chain"] = rng.choice(c)
    if spec.get("has_multi") and spec["w"].get("markup_as_sequences"):
        spec["w"] = {}                     # documented: symbol-less states cannot be written in NeXML sequence format
    if spec.get("has_multi") and fmt in ("phylip", "fasta"):
        spec["target"] = "nexus"           # formats without multistate tokens cannot hold symbol-less states
        spec["w"], spec["r"] = {}, {}
    return spec


# ---------------------------------------------------------------------------------------------- data sets (clause c)
TITLE_BASES = ["Clade A", "my taxa", "Set B", "T 1", "x y z", "Q"]


def title_family(rng):
    """labels that differ only in blank versus underscore, in letter case, or in quote characters (and the writer's own
    de-duplication suffixes): the block TITLE / LINK tokens must stay distinct after escaping, for every reader setting"""
    b = rng.choice(TITLE_BASES)
    u = b.replace(" ", "_")
    fam = [b, u, b.lower(), b.upper(), u.lower(), u.upper(), "'%s'" % b, b + "'", '"%s"' % b, "`%s`" % u, b.replace(" ", "  "),
           b + ".1", u + ".1", b.lower() + ".2", b, u]
    if b.count(" ") > 1:
        fam.append(b.replace(" ", "_", 1))          # mixed: one underscore, one blank
    return fam


def gen_dataset_spec(rng, schema=None, sbt="?", n=None, fancy=None, family=None):
    schema = schema or rng.choice(["nexus", "nexus", "nexml"])
    n = n or rng.randint(1, 3)
    if sbt == "?":
        sbt = rng.choice(["default", None, False, True])
    fancy = rng.random() < 0.4 if fancy is None else fancy
    family = (schema == "nexus" and rng.random() < 0.45) if family is None else family
    pool = ["Taxa1", "birds", "X", "x", "Set_B", "my taxa", "T.1", "it's", None, "X"] if fancy else ["T0", "T1", "T2", "U", "V", None]
    if family:
        pool = title_family(rng)
    # writer / reader options of the NEXUS schema, every combination; the reader keeps unquoted underscores only when the
    # taxon labels survive that (no blank written as an underscore)
    w, r = {}, {}
    if schema == "nexus" and (family or rng.random() < 0.3):
        if rng.random() < 0.5:
            w["unquoted_underscores"] = True
        if rng.random() < 0.5:
            w["preserve_spaces"] = True
    taxon_blank = rng.random() < 0.3
    taxon_under = rng.random() < 0.3
    if schema == "nexus" and rng.random() < 0.3 and (w.get("preserve_spaces") or not taxon_blank):
        r["preserve_underscores"] = True
    if schema == "nexus" and w.get("unquoted_underscores") and not r.get("preserve_underscores"):
        taxon_under = False               # soft underscores would come back as blanks
    ns = []
    for i in range(n):
        k = rng.randint(1, 4)
        labs = ["%s%d" % (rng.choice("abc") + "qrs"[i], j) for j in range(k)]
        labs = list(dict.fromkeys(labs))
        if rng.random() < 0.2:
            labs = numeric_labels(rng, len(labs))
        elif rng.random() < 0.3:
            labs = labs[:max(1, len(labs) - 1)] + ["shared"]
        if taxon_blank and schema == "nexus":
            labs[0] = "sp " + labs[0]
        if taxon_under and schema == "nexus" and len(labs) > 1:
            labs[-1] = "sp_" + labs[-1]
        ns.append({"label": rng.choice(pool), "taxa": labs})
    mats, trees = [], []
    for b in range(rng.randint(1, 4)):
        i = rng.randrange(n)
        blab = [None, "M%d" % b, ns[i]["label"]] + ([rng.choice(pool), rng.choice(pool)] if family else [])
        if rng.random() < 0.65:
            # any data type the schema supports, in any order; some matrices are concatenations (they carry character
            # subsets, so a SETS block follows them in NEXUS), some are continuous (negative values, exponents)
            dts = ["dna", "protein", "standard", "rna", "continuous", "continuous"] + (["nucleotide"] if schema == "nexus" else [])
            dt = rng.choice(dts)
            nchar = rng.randint(1, 6)
            md = {"ns": i, "dt": dt, "label": rng.choice(blab),
                  "rows": gen_rows(rng, dt, len(ns[i]["taxa"]), nchar, SYMS.get(dt))}
            if dt != "standard" and nchar >= 2 and rng.random() < 0.4:
                md["cut"] = sorted(rng.sample(range(1, nchar), rng.randint(1, min(2, nchar - 1))))
            mats.append(md)
        else:
            td = {"ns": i, "label": rng.choice([None, "TL%d" % b] + ([rng.choice(pool)] if family else [])), "n": rng.randint(1, 2)}
            if rng.random() < 0.6:
                td["lens"] = [[gen_float(rng) for _ in ns[i]["taxa"]] for _ in range(td["n"])]
            trees.append(td)
    spec = {"kind": "dataset", "schema": schema, "sbt": sbt, "ns": ns, "mats": mats, "trees": trees}
    if w or r:
        spec["w"], spec["r"] = w, r
    if family:
        spec["family"] = True
    return spec


def parse_written_links(text):
    """per block of a NEXUS document: (block type, TITLE token or None, LINK TAXA token or None)"""
    out = []
    cur = None
    for line in text.split("\n"):
        s = line.strip()
        m = re.match(r"BEGIN\s+(\w+)\s*;", s, re.I)
        if m:
            cur = [m.group(1).upper(), None, None]
            out.append(cur)
            continue
        if cur is None:
            continue
        m = re.match(r"TITLE\s+(.*?)\s*;$", s, re.I)
        if m and cur[1] is None and cur[2] is None:
            cur[1] = m.group(1)
        m = re.match(r"LINK\s+TAXA\s*=\s*(.*?)\s*;$", s, re.I)
        if m:
            cur[2] = m.group(1)
        if s.upper() in ("MATRIX", "TAXLABELS") or s.upper().startswith("TREE "):
            cur = None
    return out


def exec_dataset(ctx, dendropy, spec, pending):
    ds = dendropy.DataSet()
    nss = []
    for d in spec["ns"]:
        tns = dendropy.TaxonNamespace(label=d["label"])
        for l in d["taxa"]:
            tns.new_taxon(label=l)
        ds.add_taxon_namespace(tns)
        nss.append(tns)
    blocks = []
    for md in spec["mats"]:
        tns = nss[md["ns"]]
        cls = matrix_class(dendropy, md["dt"])

        def mk(rows, label=None):
            m = cls(taxon_namespace=tns, label=label)
            for t, r in zip(tns, rows):
                m[t] = m.coerce_values(r) if md["dt"] != "continuous" else [float(x) for x in r]
            return m
        if md.get("cut"):
            cuts = [0] + list(md["cut"]) + [len(md["rows"][0])]
            m = cls.concatenate([mk([r[a:b] for r in md["rows"]]) for a, b in zip(cuts, cuts[1:])])
            m.label = md["label"]
        else:
            m = mk(md["rows"], md["label"])
        ds.add_char_matrix(m)
        blocks.append(md["ns"])
    for td in spec["trees"]:
        tns = nss[td["ns"]]
        tl = dendropy.TreeList(taxon_namespace=tns, label=td["label"])
        for k in range(td["n"]):
            labs = [t.label for t in tns]
            lens = td.get("lens")
            leaves = [nx_quote(l) + (":" + repr(float(lens[k][j])) if lens else "") for j, l in enumerate(labs)]
            tl.append(dendropy.Tree.get(data="(%s);" % ",".join(leaves if k == 0 else leaves[::-1]),
                                        schema="newick", taxon_namespace=tns))
        ds.add_tree_list(tl)
        blocks.append(td["ns"])
    n = len(nss)
    sbt = spec["sbt"]
    kw = {} if (sbt == "default" or spec["schema"] != "nexus") else {"suppress_block_titles": sbt}
    wopt, ropt = dict(spec.get("w") or {}), dict(spec.get("r") or {})
    kw.update(wopt)
    must_work = not (sbt is True and n > 1 and spec["schema"] == "nexus")   # True is documented to possibly break multi-namespace files
    ctx.case(spec, n >= 2, sample={"schema": spec["schema"], "suppress_block_titles": str(sbt), "namespaces": n,
                                   "blocks": len(blocks), "options": sorted(wopt) + sorted(ropt)},
             kind="dataset/%s/%s/%d" % (spec["schema"], sbt, n))
    if spec["schema"] == "nexus":
        ctx.dist["dataset-options/uu=%d,ps=%d,pu=%d%s" % (bool(wopt.get("unquoted_underscores")), bool(wopt.get("preserve_spaces")),
                                                        bool(ropt.get("preserve_underscores")), ",family" if spec.get("family") else "")] += 1
    kind = "dataset:%s" % spec["schema"]
    if sbt is False and n > 1:
        kind = "title-option:%s" % spec["schema"]
    labs = [d["label"] for d in spec["ns"] if d["label"] is not None]
    if len({l.upper() for l in labs}) < len(set(labs)):
        kind = "title-case:%s" % spec["schema"]          # labels differing only in letter case
    if len({l.upper().replace("_", " ") for l in labs}) < len({l.upper() for l in labs}):
        kind = "title-escape:%s" % spec["schema"]        # labels differing only in blank versus underscore
    try:
        with time_limit(20):
            text = ds.as_string(spec["schema"], **kw)
    except Exception as e:
        report(ctx, kind, "writing a data set with %d namespaces to %s (suppress_block_titles=%s) raises %s: %s" % (
            n, spec["schema"], sbt, type(e).__name__, str(e)[:200]), spec)
        return
    err = None
    try:
        with time_limit(20):
            d2 = dendropy.DataSet.get(data=text, schema=spec["schema"], **ropt)
    except Exception as e:
        d2, err = None, "%s: %s" % (type(e).__name__, str(e)[:200])
    attach = []
    if d2 is None:
        if must_work:
            report(ctx, kind, "data set with %d namespaces written to %s with suppress_block_titles=%s %s cannot be read back%s: %s" % (
                n, spec["schema"], sbt, wopt or "", (" with %s" % ropt) if ropt else "", err), spec)
    else:
        problems = []
        got_ns = [[t.label for t in tns] for tns in d2.taxon_namespaces]
        want_ns = [d["taxa"] for d in spec["ns"]]
        if got_ns != want_ns:
            problems.append("namespaces read back as %s, were %s" % (got_ns, want_ns))
        if len(d2.char_matrices) != len(spec["mats"]) or len(d2.tree_lists) != len(spec["trees"]):
            problems.append("%d matrices / %d tree lists read back, were %d / %d" % (
                len(d2.char_matrices), len(d2.tree_lists), len(spec["mats"]), len(spec["trees"])))
        else:
            for k, (m2, md) in enumerate(zip(d2.char_matrices, spec["mats"])):
                own = spec["ns"][md["ns"]]["taxa"]
                if [t.label for t in m2.taxon_namespace] != own:
                    problems.append("matrix %d is attached to a namespace with labels %s, its own are %s" % (
                        k, [t.label for t in m2.taxon_namespace], own))
                elif m2.data_type != md["dt"]:
                    problems.append("matrix %d reads back as type %s, was %s" % (k, m2.data_type, md["dt"]))
                elif not same_content([[l, [float(x) for x in r] if md["dt"] == "continuous" else list(r)] for l, r in zip(own, md["rows"])],
                                      content(m2)):
                    problems.append("matrix %d content changed: %s" % (k, brief(content(m2))))
                attach.append(next((i for i, t in enumerate(d2.taxon_namespaces) if t is m2.taxon_namespace), -1))
            for k, (tl2, td) in enumerate(zip(d2.tree_lists, spec["trees"])):
                own = spec["ns"][td["ns"]]["taxa"]
                if [t.label for t in tl2.taxon_namespace] != own:
                    problems.append("tree list %d is attached to a namespace with labels %s, its own are %s" % (
                        k, [t.label for t in tl2.taxon_namespace], own))
                for tr in tl2:
                    leaves = sorted(nd.taxon.label for nd in tr.leaf_node_iter() if nd.taxon is not None)
                    if leaves != sorted(own):
                        problems.append("tree in list %d carries taxa %s, expected %s" % (k, leaves, sorted(own)))
                if td.get("lens") and len(tl2) == td["n"]:
                    for j, tr in enumerate(tl2):
                        got_len = {nd.taxon.label: nd.edge.length for nd in tr.leaf_node_iter() if nd.taxon is not None}
                        want_len = dict(zip(own, [float(x) for x in td["lens"][j]]))
                        if got_len != want_len:
                            problems.append("tree %d of list %d has leaf edge lengths %s, were %s" % (j, k, got_len, want_len))
                attach.append(next((i for i, t in enumerate(d2.taxon_namespaces) if t is tl2.taxon_namespace), -1))
        if problems and must_work:
            if any(has_none(content(m2)) for m2 in d2.char_matrices):
                kind = "nexml-columns"
            report(ctx, kind, "data set with %d namespaces via %s (suppress_block_titles=%s): %s" % (n, spec["schema"], sbt, "; ".join(problems[:3])), spec)
    # ---- model: NeXML otus ids and the references of <characters> / <trees> to them
    if spec["schema"] == "nexml":
        try:
            root = ET.fromstring(text.encode("utf-8") if "encoding=" in text[:60] else text)
            ids = [e.get("id") for e in root if strip_ns(e.tag) == "otus"]
            refs = [e.get("otus") for e in root if strip_ns(e.tag) == "characters"] + [e.get("otus") for e in root if strip_ns(e.tag) == "trees"]
        except ET.ParseError:
            ids, refs = None, None
        if ids is not None and all(i for i in ids) and all(r for r in refs) and len(refs) == len(blocks):
            res = [str(a) for a in attach] if d2 is not None and len(attach) == len(blocks) else ["err"] * len(blocks)
            pending.append(("otus %d %s %s" % (len(ids), " ".join(hex6(i) for i in ids), " ".join(hex6(r) for r in refs)), spec,
                            " ".join(res), "otus"))
    # ---- model: TITLE / LINK tokens of the writer (de-duplicated, escaped under the options) and their resolution
    ns_labels = [d["label"] for d in spec["ns"]]
    plain = all(l is not None and l != "" and ascii_ok([l]) for l in ns_labels)
    if spec["schema"] == "nexus" and plain:
        wl = parse_written_links(text)
        titles = [b[1] or "-" for b in wl if b[0] == "TAXA"]
        links = [b[2] or "-" for b in wl if b[0] != "TAXA" and b[0] != "SETS"]
        res = [str(a) for a in attach] if d2 is not None and len(attach) == len(blocks) else ["err"] * len(blocks)
        impl = " ".join([hex6(t) if t != "-" else "-" for t in titles] + ["|"] + [hex6(t) if t != "-" else "-" for t in links] + ["|"] + res)
        flags = "%d %d %d" % (bool(wopt.get("preserve_spaces")),
                              bool(wopt.get("unquoted_underscores")), bool(ropt.get("preserve_underscores")))
        line = "links %s %s %d %s %s" % ({"default": "N", None: "N", False: "F", True: "T"}[sbt], flags, n,
                                        " ".join(hex6(l) for l in ns_labels), " ".join(str(b) for b in blocks))
        pending.append((line, spec, impl, "links"))
        # titles of all labelled blocks, in writing order (namespaces, matrices, tree lists): one pool of used titles
        written = sbt is False or (sbt in ("default", None) and n > 1)
        blabs = [md["label"] for md in spec["mats"]] + [td["label"] for td in spec["trees"]]
        others = [b for b in wl if b[0] not in ("TAXA", "SETS")]
        if written and len(others) == len(blabs) and all(l is None or (l != "" and ascii_ok([l])) for l in blabs):
            got_titles = titles + [b[1] or "-" for b, l in zip(others, blabs) if l is not None]
            line = "titles %d %d %d %s" % (bool(wopt.get("preserve_spaces")), bool(wopt.get("unquoted_underscores")), n,
                                          " ".join(hex6(l) for l in ns_labels + [l for l in blabs if l is not None]))
            pending.append((line, spec, " ".join(hex6(t) if t != "-" else "-" for t in got_titles), "titles"))


def check_tokens(ctx, dendropy, pending):
    """`escape_nexus_token` and the NexusTokenizer's reading of one token against the model's escToken / readToken"""
    from dendropy.dataio import nexusprocessing as nxp
    rng = ctx.rng
    labels = ["a b", "a_b", "it's", "x\ty", "A  B", "q", "a'b_c d", "'", "''", "_", " ", "a-b", "a.b", "[c]", "semi;colon", "A__B", " lead", "trail ",
              "Clade A", "Clade_A", "'Clade A'", "a\nb", "{x}", "p+q", "1", "a`b", "a/b", "a\\b", "<t>", "e=mc2", "s*", 'd"q']
    for _ in range(ctx.pick(60, 600)):
        labels.append("".join(rng.choice("ab_ ' .Z9-\t(") for _ in range(rng.randint(1, 6))))
    for lab in labels:
        for ps in (False, True):
            for qu in (False, True):
                e = nxp.escape_nexus_token(lab, preserve_spaces=ps, quote_underscores=qu)
                ctx.case(["esc", lab, ps, qu], False, kind="token")
                pending.append(("esc %d %d %s" % (ps, qu, hex6(lab)), {"kind": "tok", "label": lab, "ps": ps, "qu": qu}, hex6(e) if e else "=", "esc"))
                if not e.strip():
                    continue
                for pu in (False, True):
                    tk = nxp.NexusTokenizer(io.StringIO(e + " ;"), preserve_unquoted_underscores=pu)
                    try:
                        t = tk.require_next_token()
                    except Exception as ex:
                        t = None
                    if t is None or (not e.startswith("'") and any(c in e for c in " \t\n")):
                        continue       # an unquoted token with leading / trailing blanks is not one token
                    pending.append(("tok %d %s" % (pu, hex6(e)), {"kind": "tok", "label": lab, "ps": ps, "qu": qu, "pu": pu},
                                    hex6(t) if t else "=", "tok"))
                    # oracle (statement: labels obey the quoting rule): hard underscores + default reader give the label back
                    if qu and not pu and t != lab and lab == lab.strip() and "\n" not in lab:
                        ctx.fail("token", "label %r written as %r reads back as %r" % (lab, e, t), {"kind": "tok", "label": lab, "ps": ps, "qu": qu, "pu": pu})


# ---------------------------------------------------------------------------------------------- alphabets vs the generated tables
def check_alphabets(ctx, dendropy, pending):
    rng = ctx.rng
    from dendropy.datamodel import charstatemodel as csm
    alphas = [("dna", csm.DNA_STATE_ALPHABET), ("rna", csm.RNA_STATE_ALPHABET), ("nucleotide", csm.NUCLEOTIDE_STATE_ALPHABET),
              ("protein", csm.PROTEIN_STATE_ALPHABET), ("restriction", csm.RESTRICTION_SITES_STATE_ALPHABET),
              ("infinite", csm.INFINITE_SITES_STATE_ALPHABET), ("standard", csm.new_standard_state_alphabet()),
              ("std:" + hex6("01"), csm.new_standard_state_alphabet("01")), ("std:" + hex6("ABc"), csm.new_standard_state_alphabet("ABc"))]
    for name, al in alphas:
        for code in range(33, 127):
            c = chr(code)
            try:
                s = al[c].symbol
                impl = hex6(s)
            except KeyError:
                impl = "KeyError"
            pending.append(("sym %s %s" % (name, hex6(c)), {"kind": "sym", "alphabet": name, "char": c}, impl, "sym"))
            ctx.case(["sym", name, c], False, kind="alphabet")
        # oracle: every canonical symbol of the independently written table denotes itself; lower case denotes the same state
        base = name if name in SYMS else ("standard" if name == "standard" else None)
        if base:
            for c in SYMS[base]:
                for v in (c, c.lower()):
                    try:
                        s = al[v].symbol
                    except KeyError:
                        s = None
                    if s != c:
                        ctx.fail("alphabet", "symbol %r of the %s alphabet denotes %r" % (v, name, s), {"kind": "sym", "alphabet": name, "char": v})
        syms = [s for s in al.canonical_symbol_state_map]
        for _ in range(40):
            ms = "".join(rng.choice(syms) for _ in range(rng.randint(1, 4)))
            if rng.random() < 0.1:
                ms += rng.choice(",;z")
            for k, denom in (("a", al.AMBIGUOUS_STATE), ("p", al.POLYMORPHIC_STATE)):
                try:
                    al.get_fundamental_states_for_symbols(ms)
                    try:
                        st = al.match_state(ms, denom)
                        impl = hex6(st.symbol) if st.symbol else "new"
                    except KeyError:
                        impl = "new"
                except KeyError:
                    impl = "KeyError"
                pending.append(("match %s %s %s" % (name, k, hex6(ms)), {"kind": "match", "alphabet": name, "members": ms}, impl, "match"))
    flush_match(ctx, pending)


def flush_match(ctx, pending):
    outs = ctx.ask([p[0] for p in pending])
    for (line, spec, impl, op), mo in zip(pending, outs):
        if mo is None:
            continue
        ctx.compared()
        mo = mo.strip()
        if op == "match" and mo != "KeyError":
            t = unhex6(mo) or ""
            mo = "new" if t[:1] in "({" else mo
        if mo != impl:
            ctx.disagree(op, spec, impl, mo)
    del pending[:]


EQUATE_SPEC = {"kind": "equate", "target": "nexus"}
FIXED_SPECS = [
    # namespaces titled X and x (reader resolves titles case-insensitively)
    {"kind": "dataset", "schema": "nexus", "sbt": "default",
     "ns": [{"label": "X", "taxa": ["a1", "a2"]}, {"label": "x", "taxa": ["b1", "b2", "b3"]}],
     "mats": [{"ns": 1, "dt": "dna", "label": None, "rows": [["A", "C"], ["G", "T"], ["-", "?"]]},
              {"ns": 0, "dt": "dna", "label": None, "rows": [["A", "N"], ["R", "T"]]}],
     "trees": [{"ns": 1, "label": None, "n": 1}]},
    # symbol-less polymorphic / ambiguous cells read from NEXUS and written again
    {"kind": "matrix", "dt": "standard", "std": "012", "target": "nexus", "w": {}, "r": {}, "via": "nexus", "has_multi": True,
     "route": {"via": "nexus", "params": {"simple": False, "taxa": ["t1", "t2"], "ntax": 2, "nchar": 4,
                                          "fmt": "FORMAT DATATYPE=STANDARD SYMBOLS=\"012\" MISSING=? GAP=-;",
                                          "rows": [["t1", "0(12)1{02}"], ["t2", "{0 1}2-?"]]},
               "ref": [["t1", ["0", ["p", "12"], "1", ["a", "02"]]], ["t2", [["a", "01"], "2", "-", "?"]]]}},
]


def exec_equate(ctx, dendropy, spec):
    """standard matrix whose alphabet carries ambiguity/polymorphism symbols of its own (EQUATE)"""
    sa = dendropy.StateAlphabet(fundamental_states="01", ambiguous_states=[("X", "01")], polymorphic_states=[("P", "01")],
                                no_data_symbol="?", gap_symbol="-", case_sensitive=False)
    m = dendropy.StandardCharacterMatrix(default_state_alphabet=sa)
    rows = [["A", "01X-?P"], ["B", "10?XP-"]]
    for l, s in rows:
        m[m.taxon_namespace.require_taxon(l)] = m.coerce_values(s)
    ref = [[l, list(s)] for l, s in rows]
    fmt = spec["target"]
    ctx.case(["equate", fmt], True, kind="equate/" + fmt)
    try:
        text = m.as_string(fmt)
        kw = {"default_state_alphabet": sa} if fmt in ("phylip", "fasta") else {}
        got = content(dendropy.StandardCharacterMatrix.get(data=text, schema=fmt, **kw))
    except Exception as e:
        ctx.fail("equate:" + fmt, "standard matrix with symbol-carrying ambiguous/polymorphic states written to %s cannot be read back: %s: %s" % (
            fmt, type(e).__name__, str(e)[:160]), dict(spec, equate=True))
        return
    if not same_content(ref, got):
        report(ctx, "equate:" + fmt, "standard matrix with symbol-carrying ambiguous/polymorphic states via %s: reads back %s, was %s" % (
            fmt, brief(got), brief(ref)), dict(spec, equate=True), got)


# ---------------------------------------------------------------------------------------------- refusals (model rejects what the code rejects)
def gen_reject_spec(rng):
    """a well-formed source of a small discrete matrix with one defect planted; model and code must both refuse it
    (or both accept it and agree on the content)"""
    dt = rng.choice(["dna", "rna", "protein", "standard"])
    syms = SYMS[dt]
    ntax, nchar = rng.randint(2, 4), rng.randint(2, 6)
    labels = gen_labels(rng, ntax, "simple")
    rows = [[gen_symbol(rng, syms) for _ in range(nchar)] for _ in range(ntax)]
    seqs = ["".join(r) for r in rows]
    bad = "J" if dt != "protein" else "J"
    i, j = rng.randrange(ntax), rng.randrange(nchar)
    fmt = rng.choice(["nexus", "phylip", "fasta", "nexml"])
    spec = {"kind": "reject", "dt": dt, "fmt": fmt}
    if fmt == "nexus":
        defect = rng.choice(["symbol", "toomany", "comma", "none"])
        txt = list(seqs)
        if defect == "symbol":
            txt[i] = txt[i][:j] + bad + txt[i][j + 1:]
        elif defect == "toomany":
            txt[i] = txt[i] + syms[0]
        elif defect == "comma":
            txt[i] = txt[i][:j] + "(%s,%s)" % (syms[0], syms[1]) + txt[i][j + 1:]
        simple = rng.random() < 0.5
        spec.update(defect=defect, params={"simple": simple, "taxa": labels, "ntax": ntax, "nchar": nchar,
                                           "fmt": "FORMAT DATATYPE=%s GAP=- MISSING=?;" % {"dna": "DNA", "rna": "RNA", "protein": "PROTEIN", "standard": "STANDARD"}[dt],
                                           "rows": [[l, t] for l, t in zip(labels, txt)]})
    elif fmt == "phylip":
        defect = rng.choice(["symbol", "ntax+", "ntax-", "none"])
        txt = list(seqs)
        if defect == "symbol":
            txt[i] = txt[i][:j] + bad + txt[i][j + 1:]
        n = ntax + (1 if defect == "ntax+" else -1 if defect == "ntax-" else 0)
        strict = rng.random() < 0.5
        lines = ["%d %d" % (n, nchar)] + [(l.ljust(10) if strict else l + "  ") + t for l, t in zip(labels, txt)]
        spec.update(defect=defect, text="\n".join(lines) + "\n", kw={"strict": strict})
    elif fmt == "fasta":
        defect = rng.choice(["symbol", "dupname", "noheader", "none"])
        txt = list(seqs)
        labs = list(labels)
        if defect == "symbol":
            txt[i] = txt[i][:j] + bad + txt[i][j + 1:]
        elif defect == "dupname":
            labs[-1] = labs[0].upper()
        body = "".join(">%s\n%s\n" % (l, t) for l, t in zip(labs, txt))
        spec.update(defect=defect, text=(txt[0] + "\n" + body) if defect == "noheader" else body)
    else:
        defect = rng.choice(["badchar", "none"])
        text = compose_nexml(dt, labels, rows, None)
        if defect == "badchar":
            text = text.replace('<cell char="c%d" state=' % j, '<cell char="nosuchchar" state=', 1)
        spec.update(defect=defect, text=text)
    return spec


def exec_reject(ctx, dendropy, spec, pending):
    dt, fmt = spec["dt"], spec["fmt"]
    cls = matrix_class(dendropy, dt)
    text = compose_nexus(spec["params"]) if fmt == "nexus" else spec["text"]
    ctx.case(["reject", spec], spec["defect"] != "none", kind="reject/%s/%s" % (fmt, spec["defect"]))
    try:
        with time_limit(20):
            m = cls.get(data=text, schema=fmt, **spec.get("kw", {}))
        got = content(m)
        impl = "ok"
    except (TypeError, AttributeError, IndexError, KeyError, AssertionError, RecursionError, UnboundLocalError) as e:
        # not a refusal: an accident inside the reader.  The model says "err" (refused); this is reported as a disagreement
        got, impl = None, "crash"
        ctx.count("reject_crash:%s/%s/%s" % (fmt, spec["defect"], type(e).__name__))
    except Exception:
        got, impl = None, "err"
    if spec["defect"] == "none" and impl != "ok":
        ctx.fail("parse:" + fmt, "well-formed %s source of a %s matrix is rejected" % (fmt, dt), spec)
    if fmt == "nexus":
        p = spec["params"]
        line = "nxread %s %d %d %d %s %s" % (hex6(p["fmt"]), p["nchar"], p["ntax"] if p["simple"] else len(p["taxa"]),
                                            0 if p["simple"] else len(p["taxa"]),
                                            " ".join(hex6(l) for l in ([] if p["simple"] else p["taxa"])),
                                            " ".join("%s:%s" % (hex6(l), hex6(t)) for l, t in p["rows"]))
        pending.append((line, spec, impl if got is None else "ok %s %s" % (dt, rows_field(got)), "nxread"))
    elif fmt == "phylip":
        line = "phread %s %d 0 0 0 %s" % (dt, 1 if spec["kw"].get("strict") else 0,
                                          " ".join(hex6(x) for x in re.split(r"\r\n|\n|\r", text)))
        pending.append((line, spec, impl if got is None else "ok " + rows_field(got), "phread"))
    elif fmt == "fasta":
        pending.append(("faread %s %s" % (dt, hex6(text)), spec, impl if got is None else "ok " + rows_field(got), "faread"))
    else:
        chars, states, rows = nexml_abstract(text)[0]
        idx = {c: i for i, c in enumerate(chars)}
        sids = {}
        for _, cells in rows:
            for _, st in cells:
                sids.setdefault(st, len(sids))
        line = "nexmlread %s %s" % (",".join(str(idx[c]) for c in chars) or "-",
                                    " ".join(",".join("%d.%d" % (idx.get(c, 99999), sids[st]) for c, st in cells) or "-" for _, cells in rows))
        pending.append((line, spec, impl, "nexmlstatus"))


# ---------------------------------------------------------------------------------------------- write - edit - write on one matrix object
def gen_history_spec(rng, dt=None):
    """ONE matrix object: observed once (a first conversion to some format, str(seq), symbols_as_list, values()), then edited
    in place by every way a sequence / the matrix offers, then written to every format; the second document must show the
    live cells.  Length-changing edits are applied to every row (the matrix stays rectangular)."""
    dt = dt or rng.choice(DTYPES)
    syms = SYMS.get(dt)
    ntax, nchar = rng.randint(1, 4), rng.randint(2, 8)
    labels = ["t%d" % (i + 1) for i in range(ntax)]
    rows = gen_rows(rng, dt, ntax, nchar, syms)

    def val():
        return gen_float(rng) if dt == "continuous" else gen_symbol(rng, syms)
    edits, n = [], nchar
    for _ in range(rng.randint(1, 5)):
        k = rng.choice(["set_at", "set_at", "setitem", "slice", "append", "extend", "insert", "del", "matrix_set", "fill", "pack"])
        if k in ("set_at", "setitem"):
            edits.append({"op": k, "row": rng.randrange(ntax), "i": rng.randrange(n), "v": val()})
        elif k == "slice":
            a = rng.randrange(n)
            b = rng.randint(a + 1, n)
            edits.append({"op": k, "row": rng.randrange(ntax), "a": a, "b": b, "vs": [val() for _ in range(b - a)]})
        elif k == "append":
            edits.append({"op": k, "vs": [val() for _ in range(ntax)]})
            n += 1
        elif k == "extend":
            w = rng.randint(1, 3)
            edits.append({"op": k, "vss": [[val() for _ in range(w)] for _ in range(ntax)]})
            n += w
        elif k == "insert":
            edits.append({"op": k, "i": rng.randint(0, n), "vs": [val() for _ in range(ntax)]})
            n += 1
        elif k == "del":
            if n < 2:
                continue
            edits.append({"op": k, "i": rng.randrange(n)})
            n -= 1
        elif k == "matrix_set":
            edits.append({"op": k, "row": rng.randrange(ntax), "vs": [val() for _ in range(n)]})
        else:                                   # one row loses its last cell, fill()/pack() restores the width
            edits.append({"op": k, "row": rng.randrange(ntax), "v": val()})
    first = rng.choice([f for f in FORMATS if dt in SUPPORTED[f]] + ["str", "symbols_as_list", "values", "symbols_as_string"])
    return {"kind": "history", "dt": dt, "labels": labels, "rows": rows, "first": first, "edits": edits,
            "strict": rng.random() < 0.4}


def exec_history(ctx, dendropy, spec):
    dt = spec["dt"]
    cls = matrix_class(dendropy, dt)
    cont = dt == "continuous"
    tns = dendropy.TaxonNamespace()
    taxa = [tns.new_taxon(label=l) for l in spec["labels"]]
    m = cls(taxon_namespace=tns)

    def conv(vs):
        return [float(x) for x in vs] if cont else list(m.coerce_values(vs))
    live = [list(r) for r in spec["rows"]]
    for t, r in zip(taxa, live):
        m[t] = conv(r)
    ctx.case(["history", spec], True, kind="history/%s/%s" % (dt, spec["first"]),
             sample={"dt": dt, "first": spec["first"], "edits": [e["op"] for e in spec["edits"]]})
    wk = {"strict": True} if spec.get("strict") else {}
    try:
        f0 = spec["first"]
        if f0 in FORMATS:
            m.as_string(f0, **(wk if f0 == "phylip" else {}))
        else:
            for t in taxa:
                seq = m[t]
                if f0 == "str":
                    str(seq)
                elif f0 == "symbols_as_list":
                    seq.symbols_as_list()
                elif f0 == "symbols_as_string":
                    seq.symbols_as_string()
                    seq.symbols_as_string(sep=" ")
                else:
                    list(seq.values())
        for e in spec["edits"]:
            k = e["op"]
            if k == "set_at":
                m[taxa[e["row"]]].set_at(e["i"], conv([e["v"]])[0])
                live[e["row"]][e["i"]] = e["v"]
            elif k == "setitem":
                m[taxa[e["row"]]][e["i"]] = conv([e["v"]])[0]
                live[e["row"]][e["i"]] = e["v"]
            elif k == "slice":
                m[taxa[e["row"]]][e["a"]:e["b"]] = conv(e["vs"])
                live[e["row"]][e["a"]:e["b"]] = e["vs"]
            elif k == "append":
                for t, L, v in zip(taxa, live, e["vs"]):
                    m[t].append(conv([v])[0])
                    L.append(v)
            elif k == "extend":
                for t, L, vs in zip(taxa, live, e["vss"]):
                    m[t].extend(conv(vs))
                    L.extend(vs)
            elif k == "insert":
                for t, L, v in zip(taxa, live, e["vs"]):
                    m[t].insert(e["i"], conv([v])[0])
                    L.insert(e["i"], v)
            elif k == "del":
                for t, L in zip(taxa, live):
                    del m[t][e["i"]]
                    del L[e["i"]]
            elif k == "matrix_set":
                m[taxa[e["row"]]] = conv(e["vs"])
                live[e["row"]] = list(e["vs"])
            else:
                del m[taxa[e["row"]]][len(live[e["row"]]) - 1]
                pv = conv([e["v"]])[0]
                if k == "fill":
                    m.fill(pv, size=len(live[e["row"]]))
                else:
                    m.pack(pv, size=len(live[e["row"]]))
                live[e["row"]][-1] = e["v"]
    except Exception as ex:
        if is_library_exception_safe(ex):
            ctx.fail("history:edit", "%s matrix: observing (%s) then editing in place raises %s: %s" % (
                dt, spec["first"], type(ex).__name__, str(ex)[:160]), spec)
            return
        raise
    ref = [[l, list(L)] for l, L in zip(spec["labels"], live)]
    if not same_content(ref, content(m)):
        ctx.fail("history:matrix", "%s matrix after in-place edits holds %s, the edits say %s" % (dt, brief(content(m)), brief(ref)), spec)
        return
    for f in FORMATS:
        if dt not in SUPPORTED[f]:
            continue
        try:
            text = m.as_string(f, **(wk if f == "phylip" else {}))
            got = content(cls.get(data=text, schema=f, **(wk if f == "phylip" else {})))
        except Exception as ex:
            report(ctx, "history:" + f, "%s matrix observed (%s), edited in place (%s), written to %s: cannot be read back: %s: %s" % (
                dt, spec["first"], ",".join(e["op"] for e in spec["edits"]), f, type(ex).__name__, str(ex)[:160]), spec)
            continue
        if not same_content(ref, got):
            report(ctx, "history:" + f, "%s matrix observed (%s), edited in place (%s), written to %s: the document says %s, the matrix holds %s" % (
                dt, spec["first"], ",".join(e["op"] for e in spec["edits"]), f, brief(got), brief(ref)), spec, got)


def is_library_exception_safe(ex):
    import common
    try:
        return common.is_library_exception(ex)
    except Exception:
        return False


# ---------------------------------------------------------------------------------------------- entry points
def exec_spec(ctx, dendropy, spec, pending):
    k = spec.get("kind")
    if k == "matrix":
        exec_matrix(ctx, dendropy, spec, pending)
    elif k == "dataset":
        exec_dataset(ctx, dendropy, spec, pending)
    elif k == "equate":
        exec_equate(ctx, dendropy, spec)
    elif k == "reject":
        exec_reject(ctx, dendropy, spec, pending)
    elif k in ("sym", "match"):
        check_alphabets(ctx, dendropy, pending)
    elif k == "tok":
        check_tokens(ctx, dendropy, pending)
    elif k == "history":
        exec_history(ctx, dendropy, spec)
    elif k == "dec":
        check_decimals(ctx, pending)
    else:
        raise ValueError("unknown case kind %r" % (k,))


def alphabet_sizes(dendropy):
    from dendropy.datamodel import charstatemodel as csm
    return [len(a) for a in (csm.DNA_STATE_ALPHABET, csm.RNA_STATE_ALPHABET, csm.PROTEIN_STATE_ALPHABET,
                             csm.RESTRICTION_SITES_STATE_ALPHABET, csm.INFINITE_SITES_STATE_ALPHABET)]


def run(ctx):
    dendropy = __import__("dendropy")
    rng = ctx.rng
    ctx.set_budget(35, 700)
    pending = []
    sizes0 = alphabet_sizes(dendropy)
    check_alphabets(ctx, dendropy, pending)
    check_decimals(ctx, pending)
    check_tokens(ctx, dendropy, pending)
    flush(ctx, pending)
    for f in FORMATS:
        exec_equate(ctx, dendropy, dict(EQUATE_SPEC, target=f))
    for spec in FIXED_SPECS:
        exec_spec(ctx, dendropy, json.loads(json.dumps(spec)), pending)
    # fixed grid first: every type x route x format once (small), every title option x namespace count
    for sbt in ("default", None, False, True):
        for n in (1, 2, 3):
            for schema in ("nexus", "nexml"):
                if schema == "nexml" and sbt != "default":
                    continue
                exec_spec(ctx, dendropy, gen_dataset_spec(rng, schema=schema, sbt=sbt, n=n, fancy=False), pending)
    for dt in DTYPES:
        for _ in range(3):
            exec_spec(ctx, dendropy, gen_history_spec(rng, dt=dt), pending)
        for f in FORMATS:
            if dt in SUPPORTED[f] or (f == "nexus" and dt in ("restriction", "infinite")):
                exec_spec(ctx, dendropy, gen_matrix_spec(rng, dt=dt, via="dict", fmt=f), pending)
                for _ in range(2):
                    exec_spec(ctx, dendropy, gen_matrix_spec(rng, dt=dt, via="assembled", fmt=f), pending)
                for _ in range(3 if f == "nexml" else 1):
                    exec_spec(ctx, dendropy, gen_matrix_spec(rng, dt=dt, via="derived", fmt=f), pending)
    flush(ctx, pending)
    ncases = ctx.pick(7000, 120000)
    for k in range(ncases):
        if ctx.out_of_time():
            break
        r0 = rng.random()
        if r0 > 0.93:
            spec = gen_history_spec(rng)
        elif r0 < 0.06:
            spec = gen_reject_spec(rng)
        elif r0 < 0.22:
            spec = gen_dataset_spec(rng)
        else:
            spec = gen_matrix_spec(rng)
        exec_spec(ctx, dendropy, spec, pending)
        if len(pending) >= 300:
            flush(ctx, pending)
    flush(ctx, pending)
    if ctx.tier == "thorough":
        count = 0
        ctx.budget_s = 840
        # exhaustive small scope: every data type x route x target format x every dimension pair <= 3x3 (+ 1x71, 3x141)
        for dt in DTYPES:
            for via in ("dict", "concatenate", "export", "subset", "nexus", "phylip", "fasta", "nexml", "assembled", "assembled", "derived", "derived"):
                for f in FORMATS:
                    if not (dt in SUPPORTED[f] or (f == "nexus" and dt in ("restriction", "infinite"))):
                        continue
                    if via in FORMATS and dt not in SUPPORTED[via]:
                        continue
                    if via == "subset" and dt == "continuous":
                        continue
                    for dims in [(a, b) for a in (1, 2, 3) for b in (1, 2, 3)] + [(1, 71), (3, 141)]:
                        if ctx.out_of_time():
                            break
                        exec_spec(ctx, dendropy, gen_matrix_spec(rng, dt=dt, via=via, fmt=f, dims=dims), pending)
                        count += 1
                    flush(ctx, pending)
        # every symbol of every alphabet in first / middle / last position of first / last row, every format
        for dt in [d for d in DTYPES if d != "continuous"]:
            for f in FORMATS:
                if dt not in SUPPORTED[f]:
                    continue
                for c in SYMS[dt]:
                    for (ri, ci) in ((0, 0), (0, 2), (1, 1), (2, 0), (2, 2)):
                        rows = [[SYMS[dt][0]] * 3 for _ in range(3)]
                        rows[ri][ci] = c
                        labels = ["t1", "t2", "t3"]
                        spec = {"kind": "matrix", "dt": dt, "std": None, "target": f, "w": {}, "r": {},
                                "route": {"via": "dict", "labels": labels, "rows": rows, "input": rows, "as_str": True}}
                        exec_spec(ctx, dendropy, spec, pending)
                        count += 1
                flush(ctx, pending)
        for sbt in ("default", None, False, True):
            for n in (1, 2, 3):
                for schema in ("nexus", "nexml"):
                    for rep in range(6):
                        exec_spec(ctx, dendropy, gen_dataset_spec(rng, schema=schema, sbt=sbt, n=n, fancy=bool(rep % 2)), pending)
                        count += 1
        flush(ctx, pending)
        ctx.extra["exhaustive_small_scope"] = ("%d grid cases: type x route x format x dims<=3x3(+1x71,3x141); every symbol of every "
                                               "alphabet x 5 positions x format; title option x namespaces x schema" % count)
    if alphabet_sizes(dendropy) != sizes0:
        ctx.note("a fixed (global) state alphabet grew during the run: %s -> %s" % (sizes0, alphabet_sizes(dendropy)))


def search(ctx, broken):
    """obligations (a regenerated kernel, a bridge theorem) or the correspondence broke: look for a concrete failing
    input on the real code, aimed at the kernels of Gen/C09Consts / Gen/Tables / Gen/Alphabets — strict PHYLIP labels
    around the label width, FASTA sequences around the wrap column, every DATATYPE keyword through the NEXUS reader,
    every symbol of every alphabet, multi-namespace data sets whose titles differ only by escaping"""
    dendropy = __import__("dendropy")
    rng = ctx.rng
    pending = []
    t_end = __import__("time").time() + ctx.pick(20, 120)

    def more():
        return __import__("time").time() < t_end and not ctx.failures

    # strict PHYLIP: label lengths 1..10 (admissible), sequence lengths around the columns
    for ln in range(1, 11):
        if not more():
            break
        labels = [("%c" % (97 + i)) * ln for i in range(3)]
        for nchar in (1, 9, 10, 11):
            rows = [[rng.choice("ACGT") for _ in range(nchar)] for _ in labels]
            spec = {"kind": "matrix", "dt": "dna", "std": None, "target": "phylip", "w": {"strict": True}, "r": {"strict": True},
                    "route": {"via": "dict", "labels": labels, "rows": rows, "input": rows, "as_str": True}}
            exec_spec(ctx, dendropy, spec, pending)
            text = "3 %d\n" % nchar + "".join(l.ljust(10) + "".join(r) + "\n" for l, r in zip(labels, rows))
            spec = {"kind": "matrix", "dt": "dna", "std": None, "target": "fasta", "w": {}, "r": {},
                    "route": {"via": "phylip", "text": text, "kw": {"strict": True}, "ref": [[l, r] for l, r in zip(labels, rows)]}}
            exec_spec(ctx, dendropy, spec, pending)
    # FASTA around the wrap column and its multiples
    for nchar in (1, 59, 60, 61, 69, 70, 71, 139, 140, 141, 211):
        if not more():
            break
        rows = [[rng.choice("ACGT-?N") for _ in range(nchar)] for _ in range(2)]
        spec = {"kind": "matrix", "dt": "dna", "std": None, "target": "fasta", "w": {}, "r": {},
                "route": {"via": "dict", "labels": ["s1", "s2"], "rows": rows, "input": rows, "as_str": True}}
        exec_spec(ctx, dendropy, spec, pending)
    # every DATATYPE keyword, each with its full symbol set
    for dt, kws in (("dna", ["DNA", "NUCLEOTIDES"]), ("rna", ["RNA"]), ("nucleotide", ["NUCLEOTIDE"]), ("protein", ["PROTEIN"]),
                    ("standard", ["STANDARD"])):
        for kw in kws:
            if not more():
                break
            syms = SYMS[dt]
            rows = [list(syms), list(syms[::-1])]
            p = {"simple": False, "taxa": ["t1", "t2"], "ntax": 2, "nchar": len(syms), "fmt": "FORMAT DATATYPE=%s GAP=- MISSING=?;" % kw,
                 "rows": [["t1", "".join(rows[0])], ["t2", "".join(rows[1])]]}
            spec = {"kind": "matrix", "dt": dt, "std": None, "target": "nexus", "w": {}, "r": {},
                    "route": {"via": "nexus", "params": p, "ref": [["t1", rows[0]], ["t2", rows[1]]]}}
            exec_spec(ctx, dendropy, spec, pending)
    flush(ctx, pending)
    # titles that differ only by escaping, every option combination
    while more():
        exec_spec(ctx, dendropy, gen_dataset_spec(rng, schema="nexus", n=rng.randint(2, 3), family=True), pending)
        exec_spec(ctx, dendropy, gen_matrix_spec(rng, fmt=rng.choice(["phylip", "fasta", "nexus"])), pending)
        if len(pending) >= 200:
            flush(ctx, pending)
    flush(ctx, pending)


def replay(ctx, rec):
    dendropy = __import__("dendropy")
    pending = []
    exec_spec(ctx, dendropy, rec["replay"], pending)
    if rec["replay"].get("kind") not in ("sym", "match"):
        flush(ctx, pending)
