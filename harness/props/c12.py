"""C12 - copies are equal to their source and independent of it at the documented depth.

Per case: build an object (Tree / TreeList / CharacterMatrix / TaxonNamespace, decorated with annotations incl. bound
ones, comments, encoded bipartitions, extra attributes), copy it along one route, then
  (oracle, literal)  id()-sets of the mutable objects reachable from source and copy intersect exactly in the class the
                     route allows; fingerprints (structure, labels, lengths, rooting, annotations, sequences) are equal;
                     >= 20 random mutations of one side leave the fingerprint of the other side unchanged; bound
                     annotations of the copy are owned by the copy's objects and follow the copy's attributes;
  (correspondence)   the real object graph reachable from the source is exported as a heap (ids renumbered), the Lean model
                     of the memo-driven copy is run on it with the route's memo pre-seeding, and the canonical graph of the
                     model's copy is compared with the canonical graph of the real copy.
"""
import copy
import json
import random
import sys
import types

import treeutil as tu
from common import time_limit, Timeout, hex6

ID = "C12"
GEN_DEPENDS = ["C12Copy", "C08Kernels"]
RULE = ("random Tree / TreeList / CharacterMatrix (DNA, RNA, protein, standard, continuous) / TaxonNamespace objects with "
        "annotations (plain, list/dict valued, nested, attribute-bound incl. foreign owners), comments, encoded bipartitions, "
        "extra attributes and cross references x copy route (copy.deepcopy, clone(0|1|2), copy constructor, copy.copy, "
        "taxon_namespace_scoped_copy, constructor with another namespace, extract_tree) x >= 20 later mutations of one side; "
        "every route incl. the shallow ones (copy.copy / clone(0) of TreeList and CharacterMatrix, TaxonNamespace(ns)) is also run "
        "on the Lean model and the canonical graphs are compared; "
        "thorough adds every tree shape <= 5 leaves x every tree route x decoration on/off; "
        "non-trivial = the source graph has >= 10 mutable objects")
MODELLED_NOT_VERIFIED = [
    "C12: copy.deepcopy's dispatch for built-in containers (list, dict, set, tuple and objects copied through __reduce_ex__) is "
    "modelled as 'allocate, register in the memo, copy the fields in order'; dict/set hashing is not modelled (the `_item_set` twin "
    "of an annotation set's item list is compared as a set); the per-case comparison sorts attributes by name (a changed `__dict__` "
    "order is a harmless refactoring), so the attribute ORDER proved in copy_iso is a statement about the model only",
    "C12: the heap handed to the Lean model is exported from the real objects by harness/props/c12.py (every __dict__ attribute, "
    "list, dict, set, tuple; StateAlphabet/StateIdentity singletons, classes and functions are atoms)",
    "C12: Node.extract_subtree is modelled on the shared rose-tree type without a node filter (filters belong to C08); "
    "the constructor with another namespace receives the label-matched taxon mapping from the harness (require_taxon belongs to C10/C11)",
    "C12: the shallow routes (shallowMembers: TreeList.__copy__ / CharacterMatrix.__copy__; shallowNs: TaxonNamespace(ns)) are modelled "
    "and compared per case; only shallowMembers has a (partial) frame theorem, nothing is proved about shallowNs; the instance the route "
    "constructs (`cls(label=self.label, taxon_namespace=self.taxon_namespace)`) is built by the harness with the same constructor call "
    "and handed to the model; the constructor's own `__dict__` order is not modelled",
    "C12: the interpreter recursion limit (deep caterpillars raise RecursionError: known finding) is not modelled",
]
EXPLANATION = ("Theorems about the fuelled heap model of Annotable.__deepcopy__ / Taxon / TaxonNamespace / AnnotationSet copying "
               "with deep_copy_annotations_from and its re-targeting, for every heap (cycles allowed) and every pre-seeded memo: "
               "copy_total / route_total (on a well-formed exported heap the copy and the driver's copyRoute return ok; the harness "
               "checks well-formedness of every exported heap and reports a heap outside the hypotheses), copy_iso / route_iso / "
               "copy_root_corresponds (equality at object level, FULL: every memo entry that was not pre-seeded pairs a source object "
               "with a completed copy of the same class and kind whose attributes are IN __dict__ ORDER the memo-images of the source's "
               "planned attributes, the rebuilt _annotations link last; an annotation set with a fresh three-attribute AnnotationSet "
               "whose item list holds IN ORDER the memo-images of the source's items and whose target is the image of the source's "
               "target or the owner's copy; the memo is functional), copy_memo_functional, copy_shares_preseeded (POSITIVE sharing: an "
               "attribute whose source value is a pre-seeded object holds that object's seeded image itself - the namespace and taxa of "
               "a namespace-scoped copy are the very objects of the source), copy_fresh, copy_memo_injective, copy_no_write (+ _deep, "
               "_scoped), copy_disjoint / copy_shares_only_preseeded / deep_copy_shares_nothing, frame_interleaved_history (any "
               "interleaving of later source-side and copy-side overwrites and allocations: each side ends as if the other side's "
               "writes had not happened), bound_annotation_follows (in the FINAL state the copy of an attribute-bound annotation is "
               "bound to a memo-image of the source's owner and to the same attribute), bound_annotation_follows_owner (… to THE copy of "
               "the owner, whether the traversal visits the owner before or after the annotation: forward- and backward-bound "
               "owners alike), route_memo_functional (the memo preseed builds from a route that lists each source object once is a "
               "function and holds every .existing entry), route_shares_existing (positive sharing for the driver's copyRoute), "
               "shallow_members_frame_partial (TreeList / CharacterMatrix __copy__: the result is a new object, no old object other "
               "than a bound annotation is written - members, namespace, source untouched - memo targets are old objects mapped to "
               "themselves or new objects, new objects refer to old or new ones), frame_source_history, frame_source_write / "
               "frame_copy_write, fuel_mono / fuel_result_unique, route_spec / route_no_write / route_shares_only_preseeded, "
               "extract_leaves, extract_suppresses, extract_nosup_attrs, extract_sup_labels, extract_sup_pathsums. Tie A (regenerated "
               "from the source on every run): planFields_bridge (which attributes the three __deepcopy__ loops skip, _taxa first, "
               "annotations last), cloneDepth_bridge (clone(0|1|2) dispatch, TypeError otherwise), retarget_bridge (the re-targeting "
               "test and the memo registration of deep_copy_annotations_from, the self-seeding of the scoped routes), absorb_bridge "
               "(the length merge of extract_subtree and the default of suppress_unifurcations). PARTIAL: retarget_step_partial "
               "(single step; the final-state form is bound_annotation_follows), copy_independent_partial (bundle), "
               "shallow_members_frame_partial (missing: that an OLD bound annotation is not re-targeted, and the final content of the "
               "new member container). NOT PROVED (correspondence and oracle only): shallowNs (TaxonNamespace(ns)) and the equality "
               "half of the shallow routes; the label match of the other-namespace pre-seeding (computed by the harness). "
               "frame_copy_history and the one-step corollaries carry no content beyond copy_no_write*.")

# ---------------------------------------------------------------------------------------------------------------------
# object graph export (the REAL graph: every __dict__ attribute, list, dict, set, tuple), ids renumbered
# ---------------------------------------------------------------------------------------------------------------------
ATOM_TYPES = (type(None), bool, int, float, str, bytes, complex)


def _opaque_classes(dendropy):
    from dendropy.datamodel import charstatemodel
    return (charstatemodel.StateAlphabet, charstatemodel.StateIdentity)


def atom_text(o, opaque):
    if o is None or isinstance(o, bool):
        return repr(o)
    if isinstance(o, (int, float, complex)):
        return "%s:%r" % (type(o).__name__, o)
    if isinstance(o, str):
        return "str:" + o
    if isinstance(o, bytes):
        return "bytes:%r" % (o,)
    if isinstance(o, type):
        return "class:" + o.__name__
    if isinstance(o, opaque):
        # documented singletons shared by every copy (their __deepcopy__ returns self): atoms named by class + symbol
        return "state:%s:%s" % (type(o).__name__, getattr(o, "_symbol", getattr(o, "label", "")))
    if isinstance(o, (types.FunctionType, types.BuiltinFunctionType, types.MethodType)):
        return "fn:" + getattr(o, "__name__", "?")
    return None


def kind_of(o, dendropy):
    """copy discipline of the object's class (which __deepcopy__ the interpreter dispatches to)"""
    from dendropy.datamodel import basemodel, taxonmodel
    if isinstance(o, tuple):
        return "T"
    if isinstance(o, taxonmodel.TaxonNamespace):
        return "N"
    if isinstance(o, taxonmodel.Taxon):
        return "X"
    if isinstance(o, basemodel.AnnotationSet):
        return "S"
    if isinstance(o, basemodel.Annotable):
        return "A"
    return "P"


class Graph(object):
    """objs[i] = (kind, cls, [(field, val)]), val = ('r', index) | ('a', text).  index_of: id(obj) -> index"""

    def __init__(self):
        self.objs = []
        self.index_of = {}
        self.keep = []

    def mutable_ids(self, dendropy):
        return set(okey(o) for o in self.keep if not isinstance(o, tuple))


def fields_of(o):
    """ordered (name, python value) pairs: container items first, then __dict__ attributes (in __dict__ order)"""
    out = []
    if isinstance(o, (list, tuple)):
        out.extend(("#%d" % i, x) for i, x in enumerate(o))
    elif isinstance(o, dict):
        for i, (k, v) in enumerate(list(o.items())):
            out.append(("k%d" % i, k))
            out.append(("v%d" % i, v))
    elif isinstance(o, (set, frozenset)):
        out.extend(("e%d" % i, x) for i, x in enumerate(list(o)))
    d = getattr(o, "__dict__", None)
    if isinstance(d, dict):
        out.extend((str(k), v) for k, v in list(d.items()))
    return out


def okey(o):
    """identity of an object in the exported graph.  A plain instance is identified by its __dict__: the copy constructors
    do `self.__dict__ = deepcopy(src).__dict__`, after which the deep-copied twin (still the owner named inside bound
    annotations and AnnotationSet.target) and the new object are one object for every attribute read or write."""
    if isinstance(o, (list, tuple, dict, set, frozenset)):
        return id(o)
    d = getattr(o, "__dict__", None)
    return id(d) if isinstance(d, dict) else id(o)


def is_container_or_instance(o):
    return isinstance(o, (list, tuple, dict, set, frozenset)) or isinstance(getattr(o, "__dict__", None), dict)


def export(dendropy, roots, graph=None, skip_attr=None):
    """extend `graph` with everything reachable from roots (iterative pre-order, fields in order).
    skip_attr: attribute name whose edges are not followed (extraction_source back references)"""
    g = graph or Graph()
    opaque = _opaque_classes(dendropy)
    rootvals = []

    def val_of(x, stack):
        a = atom_text(x, opaque)
        if a is not None:
            return ("a", a)
        if not is_container_or_instance(x):
            return ("a", "opaque:" + type(x).__name__)
        i = g.index_of.get(okey(x))
        if i is None:
            i = len(g.objs)
            g.index_of[okey(x)] = i
            g.objs.append(None)
            g.keep.append(x)
            stack.append(x)
        return ("r", i)

    for r in roots:
        stack = []
        rootvals.append(val_of(r, stack))
        while stack:
            o = stack.pop()
            i = g.index_of[okey(o)]
            if g.objs[i] is not None:
                continue
            fs = []
            pend = []
            for name, x in fields_of(o):
                if skip_attr is not None and name == skip_attr:
                    continue
                fs.append((name, val_of(x, pend)))
            g.objs[i] = (kind_of(o, dendropy), type(o).__name__, fs)
            stack.extend(reversed(pend))
    return g, rootvals


CANON_DROP = frozenset(["_lower_cased_label"])   # a pure cache (str(label).lower()), filled by label look-ups


def canon(objs, rootval, n_old):
    """canonical text of the graph reachable from rootval.  Objects with index < n_old are the source's ('s<i>', not
    entered); the others are numbered in first-visit order (fields sorted by name); tuples are inlined (immutable, their
    identity is unobservable); set elements are printed sorted and never drive the numbering."""
    number = {}
    order = []
    deferred = []

    def visit(v):
        stack = [v]
        while stack:
            v = stack.pop()
            if v[0] != "r" or v[1] < n_old or v[1] in number:
                continue
            kind, cls, fs = objs[v[1]]
            if kind == "T":
                # inline; numbering continues through its elements
                stack.extend(reversed([x for _, x in fs]))
                continue
            number[v[1]] = len(order)
            order.append(v[1])
            if cls in ("set", "frozenset"):
                deferred.append(v[1])
                continue
            stack.extend(reversed([x for name, x in sorted(fs) if name not in CANON_DROP]))

    def skey(v, depth=3):
        # structural key of a set element (never its position in the set, which is hash order): class, atom fields and,
        # three levels deep, the keys of the referenced objects - ties remain only between structurally equal elements
        if v[0] == "a":
            return ("a", v[1], ())
        kind, cls, fs = objs[v[1]]
        if depth == 0:
            return ("r", cls, ())
        return ("r", cls, tuple(sorted((n, skey(x, depth - 1)) for n, x in fs)))

    visit(rootval)
    k = 0
    while k < len(deferred):
        for name, x in sorted(objs[deferred[k]][2], key=lambda nv: skey(nv[1])):
            visit(x)
        k += 1

    def show(v, depth=0):
        if v[0] == "a":
            return "a" + hex6(v[1])
        i = v[1]
        kind, cls, fs = objs[i]
        if i < n_old and kind != "T":
            return "s%d" % i
        if kind == "T":
            if depth > 50:
                return "t(...)"
            return "t(" + ",".join(show(x, depth + 1) for _, x in fs) + ")"
        return "n%d" % number[i]

    lines = ["root=" + show(rootval)]
    for i in order:
        kind, cls, fs = objs[i]
        if cls in ("set", "frozenset"):
            body = ",".join(sorted(show(x) for _, x in fs))
            lines.append("n%d:%s{%s}" % (number[i], cls, body))
        else:
            body = ",".join("%s=%s" % (name, show(x)) for name, x in sorted(fs) if name not in CANON_DROP)
            lines.append("n%d:%s[%s]" % (number[i], cls, body))
    return lines


def enc_val(v):
    return ("r%d" % v[1]) if v[0] == "r" else ("a" + (hex6(v[1]) if v[1] != "" else "="))


def enc_objs(objs):
    toks = [str(len(objs))]
    for kind, cls, fs in objs:
        toks += [kind, cls, str(len(fs))]
        for name, v in fs:
            toks += [hex6(name), enc_val(v)]
    return toks


def dec_model(line, n_old, src_objs):
    """parse the driver's answer `ok <rootval> <n_new> <obj>*` into (objs incl. the old ones, rootval)"""
    from common import unhex6
    ws = line.split()
    if not ws or ws[0] != "ok":
        return None, line.strip()

    def dv(t):
        if t[0] == "r":
            return ("r", int(t[1:]))
        return ("a", "" if t[1:] == "=" else unhex6(t[1:]))
    root = dv(ws[1])
    n = int(ws[2])
    pos = 3
    objs = list(src_objs)
    for _ in range(n):
        kind, cls, nf = ws[pos], ws[pos + 1], int(ws[pos + 2])
        pos += 3
        fs = []
        for _ in range(nf):
            fs.append((unhex6(ws[pos]), dv(ws[pos + 1])))
            pos += 2
        objs.append((kind, cls, fs))
    extra = {"changed": None, "memo": None}
    if pos < len(ws) and ws[pos] == "changed":
        k = int(ws[pos + 1])
        extra["changed"] = [int(x) for x in ws[pos + 2:pos + 2 + k]]
        pos += 2 + k
    if pos < len(ws) and ws[pos] == "memo":
        k = int(ws[pos + 1])
        flat = [int(x) for x in ws[pos + 2:pos + 2 + 2 * k]]
        extra["memo"] = list(zip(flat[0::2], flat[1::2]))
    dec_model.last_extra = extra
    return objs, root


# ---------------------------------------------------------------------------------------------------------------------
# fingerprints: the statement's notion of equality, computed by plain walks (never by the copy machinery)
# ---------------------------------------------------------------------------------------------------------------------
def roles_of(dendropy, root):
    """id(obj) -> role name relative to the root object (owner names for bound annotations)"""
    roles = {}

    def reg(o, name):
        if o is not None and okey(o) not in roles:
            roles[okey(o)] = name

    def tree_roles(t, pre):
        reg(t, pre + "tree")
        seed = t._seed_node
        if seed is None:
            return
        for i, nd in enumerate(tu.walk(seed)):
            reg(nd, "%snode%d" % (pre, i))
            reg(nd._edge, "%sedge%d" % (pre, i))

    def ns_roles(ns):
        if ns is None:
            return
        reg(ns, "ns")
        for i, t in enumerate(ns._taxa):
            reg(t, "taxon:%s" % t._label)

    if isinstance(root, dendropy.Tree):
        tree_roles(root, "")
        ns_roles(root.taxon_namespace)
    elif isinstance(root, dendropy.TreeList):
        reg(root, "treelist")
        for k, t in enumerate(root._trees):
            tree_roles(t, "t%d." % k)
        ns_roles(root.taxon_namespace)
    elif isinstance(root, dendropy.TaxonNamespace):
        ns_roles(root)
    else:
        reg(root, "matrix")
        ns_roles(root.taxon_namespace)
        for k, (tx, seq) in enumerate(root._taxon_sequence_map.items()):
            reg(seq, "seq%d" % k)
        for k, ct in enumerate(root.character_types):
            reg(ct, "ctype%d" % k)
    return roles


def fp_value(v, roles, depth=0):
    if depth > 12:
        return "..."
    if isinstance(v, ATOM_TYPES):
        return "%s:%r" % (type(v).__name__, v)
    if isinstance(v, (list, tuple)):
        return [type(v).__name__] + [fp_value(x, roles, depth + 1) for x in v]
    if isinstance(v, dict):
        return ["dict"] + [[fp_value(k, roles, depth + 1), fp_value(x, roles, depth + 1)] for k, x in v.items()]
    if isinstance(v, (set, frozenset)):
        return ["set"] + sorted(json.dumps(fp_value(x, roles, depth + 1)) for x in v)
    r = roles.get(okey(v))
    if r is not None:
        return "obj:" + r
    if isinstance(v, type):
        return "class:" + v.__name__
    lab = getattr(v, "_symbol", None)
    return "foreign:%s:%s" % (type(v).__name__, lab)


def fp_annotations(o, roles, depth=0):
    aset = o.__dict__.get("_annotations") if hasattr(o, "__dict__") else None
    if aset is None:
        return []
    out = []
    for a in aset._item_list:
        d = a.__dict__
        if d.get("is_attribute"):
            owner, attr = d["_value"]
            try:
                cur = fp_value(getattr(owner, attr), roles)
            except Exception as e:
                cur = "raises:" + type(e).__name__
            val = ["bound", roles.get(okey(owner), "foreign:" + type(owner).__name__), attr, cur]
        else:
            val = fp_value(d.get("_value"), roles)
        out.append([d.get("name"), val, fp_value(d.get("datatype_hint"), roles), d.get("_name_prefix"), d.get("_namespace"),
                    d.get("annotate_as_reference"), d.get("is_hidden"), d.get("real_value_format_specifier"),
                    fp_annotations(a, roles, depth + 1) if depth < 4 else "..."])
    return out


def fp_extra(o, standard, roles):
    return sorted([k, fp_value(v, roles)] for k, v in o.__dict__.items() if k not in standard and k != "_annotations")


TREE_STD = frozenset(["_label", "_taxon_namespace", "automigrate_taxon_namespace_on_assignment", "comments", "_is_rooted", "weight",
                      "length_type", "_seed_node", "bipartition_encoding", "_split_bitmask_edge_map", "_bipartition_edge_map"])
NODE_STD = frozenset(["_label", "taxon", "age", "_edge", "_child_nodes", "_parent_node", "comments"])
EDGE_STD = frozenset(["_label", "_head_node", "rootedge", "length", "_bipartition", "comments"])


def fp_bip(b):
    if b is None:
        return None
    return [b._split_bitmask, b._leafset_bitmask, b._tree_leafset_bitmask, b._is_rooted, b.__dict__.get("is_mutable")]


def fp_tree(t, roles, thin=False):
    """thin: only what extract_tree is documented to copy (structure, lengths, labels, taxa [+ rooting, weight, label])"""
    nodes = tu.walk(t._seed_node) if t._seed_node is not None else []
    index = {id(nd): i for i, nd in enumerate(nodes)}
    rows = []
    for nd in nodes:
        e = nd._edge
        row = [nd._label, None if nd.taxon is None else nd.taxon._label, None if e is None else e.length,
               None if e is None else e._label, [index.get(id(c)) for c in nd._child_nodes],
               None if nd._parent_node is None else index.get(id(nd._parent_node), "outside")]
        if not thin:
            row += [nd.age, list(nd.comments), fp_annotations(nd, roles), fp_extra(nd, NODE_STD, roles),
                    None if e is None else [e.rootedge, list(e.comments), fp_annotations(e, roles), fp_bip(e._bipartition),
                                            fp_extra(e, EDGE_STD, roles), index.get(id(e._head_node), "outside")]]
        rows.append(row)
    head = [t._label, t._is_rooted, t.weight, t.length_type]
    if not thin:
        enc = t.bipartition_encoding
        head += [list(t.comments), fp_annotations(t, roles), fp_extra(t, TREE_STD, roles),
                 None if enc is None else [fp_bip(b) for b in enc],
                 None if t._split_bitmask_edge_map is None else sorted(
                     [k, index.get(id(e._head_node), "outside")] for k, e in t._split_bitmask_edge_map.items()),
                 None if t._bipartition_edge_map is None else sorted(
                     [b._split_bitmask, index.get(id(e._head_node), "outside")] for b, e in t._bipartition_edge_map.items())]
    return [head, rows]


NS_STD = frozenset(["comments", "is_mutable", "is_case_sensitive", "_accession_index_taxon_map", "_taxa", "_taxon_accession_index_map",
                    "_taxon_bitmask_map", "_current_accession_count", "_label"])
TAXON_STD = frozenset(["_label", "_lower_cased_label", "comments"])


def fp_ns(ns, roles):
    if ns is None:
        return None
    pos = {id(t): i for i, t in enumerate(ns._taxa)}
    return [ns._label, ns.is_mutable, ns.is_case_sensitive, ns._current_accession_count, list(ns.comments), fp_annotations(ns, roles),
            fp_extra(ns, NS_STD, roles),
            [[t._label, list(t.comments), fp_annotations(t, roles), fp_extra(t, TAXON_STD, roles)] for t in ns._taxa],
            sorted([k, pos.get(id(t), "outside")] for k, t in ns._accession_index_taxon_map.items()),
            sorted([pos.get(id(t), "outside"), k] for t, k in ns._taxon_accession_index_map.items())]
    # (_taxon_bitmask_map is a cache filled on demand by any tree of the namespace: not part of the value)


TL_STD = frozenset(["_label", "_taxon_namespace", "automigrate_taxon_namespace_on_assignment", "tree_type", "_trees", "comments"])
CM_STD = frozenset(["_label", "_taxon_namespace", "automigrate_taxon_namespace_on_assignment", "_taxon_sequence_map", "character_types",
                    "comments", "character_subsets", "_default_state_alphabet", "markup_as_sequences"])


def fp_cell(v, roles):
    if isinstance(v, ATOM_TYPES):
        return "%s:%r" % (type(v).__name__, v)
    return fp_value(v, roles)


def fp_matrix(m, roles):
    ctypes = {id(ct): i for i, ct in enumerate(m.character_types)}
    rows = []
    for tx, seq in m._taxon_sequence_map.items():
        cells_ann = []
        for aset in seq._character_annotations:
            if aset is None:
                cells_ann.append(None)
            else:
                holder = types.SimpleNamespace(_annotations=aset)
                cells_ann.append([fp_annotations(holder, roles), roles.get(okey(aset.target), None if aset.target is None else "foreign")])
        rows.append([tx._label, [fp_cell(v, roles) for v in seq._character_values],
                     [None if ct is None else ctypes.get(id(ct), "foreign") for ct in seq._character_types], cells_ann,
                     fp_annotations(seq, roles), list(getattr(seq, "comments", []))])
    subsets = [[k, cs._label, sorted(cs.character_indices), fp_annotations(cs, roles)] for k, cs in m.character_subsets.items()]
    return [type(m).__name__, m._label, list(m.comments), fp_annotations(m, roles), fp_extra(m, CM_STD, roles), rows,
            [[ct._label, fp_value(ct._state_alphabet, roles), fp_annotations(ct, roles)] for ct in m.character_types], subsets,
            fp_value(m.__dict__.get("_default_state_alphabet"), roles)]


def fingerprint(dendropy, o, thin=False, with_ns=True):
    roles = roles_of(dendropy, o)
    if isinstance(o, dendropy.Tree):
        return ["tree", fp_tree(o, roles, thin), fp_ns(o.taxon_namespace, roles) if with_ns else None]
    if isinstance(o, dendropy.TreeList):
        return ["treelist", o._label, list(o.comments), fp_annotations(o, roles), fp_extra(o, TL_STD, roles),
                getattr(o.tree_type, "__name__", None), [fp_tree(t, roles) for t in o._trees],
                [roles.get(okey(t.taxon_namespace)) for t in o._trees], fp_ns(o.taxon_namespace, roles) if with_ns else None]
    if isinstance(o, dendropy.TaxonNamespace):
        return ["ns", fp_ns(o, roles)]
    return ["matrix", fp_matrix(o, roles), fp_ns(o.taxon_namespace, roles) if with_ns else None]


def J(x):
    return json.dumps(x, sort_keys=True, default=str)


# ---------------------------------------------------------------------------------------------------------------------
# generators
# ---------------------------------------------------------------------------------------------------------------------
def rand_value(rng, depth=0):
    r = rng.random()
    if r < 0.25 or depth > 2:
        return rng.choice([0, 1, -7, 3.5, 0.25, "x", "a b", "", True, None])
    if r < 0.5:
        return [rand_value(rng, depth + 1) for _ in range(rng.randint(0, 3))]
    if r < 0.7:
        return {("k%d" % i): rand_value(rng, depth + 1) for i in range(rng.randint(0, 3))}
    if r < 0.8:
        return (rand_value(rng, depth + 1), [rng.randint(0, 9)])
    if r < 0.9:
        return set(rng.sample(range(20), rng.randint(0, 4)))
    return rng.choice(["lbl", 12, 2.0 ** -3])


def decorate_annotations(rng, o, bound_attrs, foreign=None, rich=True):
    """annotations on o: plain values, container values, attribute-bound (own attribute; sometimes a foreign owner), nested"""
    n = rng.choice([0, 1, 1, 2, 3]) if rich else rng.choice([0, 0, 1])
    for k in range(n):
        r = rng.random()
        if r < 0.35 and bound_attrs:
            attr = rng.choice(bound_attrs)
            a = o.annotations.add_bound_attribute(attr, annotation_name="b_%s_%d" % (attr, k))
        elif r < 0.45 and foreign is not None:
            owner, attr = foreign
            a = o.annotations.add_bound_attribute(attr, annotation_name="f_%s_%d" % (attr, k), owner_instance=owner)
        else:
            a = o.annotations.add_new("n%d" % k, rand_value(rng), datatype_hint=rng.choice([None, "xsd:string"]),
                                      is_hidden=rng.random() < 0.2)
        if rng.random() < 0.2:
            a.annotations.add_new("sub", rand_value(rng))
            if rng.random() < 0.3:
                a.annotations.add_bound_attribute("name", annotation_name="subbound")


def make_ns(dendropy, rng, n, rich):
    extra = rng.randint(0, 2)
    labels = ["t%d" % i for i in range(n + extra)]
    if rng.random() < 0.2:
        labels = ["Taxon %d_x" % i for i in range(n + extra)]
    ns = dendropy.TaxonNamespace(labels, label=rng.choice([None, "ns", "taxa A"]))
    if rng.random() < 0.25 and len(ns) > n:
        ns.remove_taxon(ns[rng.randrange(len(ns))])   # hole in the accession sequence
    if rich:
        if rng.random() < 0.4:
            decorate_annotations(rng, ns, ["label", "is_mutable"], rich=False)
        for t in ns:
            if rng.random() < 0.25:
                decorate_annotations(rng, t, ["label"], rich=False)
            if rng.random() < 0.1:
                t.comments.append("tc")
        if rng.random() < 0.2:
            ns.comments.append("c ns")
        if rng.random() < 0.15:
            ns.extra_ns_attr = [1, {"q": [2]}]
    if rng.random() < 0.3 and len(ns) > 0:
        ns.taxon_bitmask(ns[rng.randrange(len(ns))])   # fills the bitmask cache partly
    return ns


def make_tree(dendropy, rng, ns, shape=None, rich=True, max_leaves=8):
    members = list(ns)
    if shape is None:
        n = rng.randint(1, max(1, min(max_leaves, len(members))))
        r = rng.random()
        if r < 0.12:
            shape = rng.choice(tu.shape_families(n))
        else:
            shape = tu.rand_shape(rng, n, p_poly=rng.choice([0.1, 0.3, 0.6]), p_unary=rng.choice([0.0, 0.0, 0.15]))
    n = tu.count_leaves(shape)
    taxa = rng.sample(members, n) if n <= len(members) else [members[i % len(members)] for i in range(n)]
    none_rate = rng.choice([0.0, 0.3, 1.0])
    tree = tu.build_tree(dendropy, shape, ns, taxa, lambda: tu.dyadic(rng, none_rate), rng.choice([True, False, None]),
                         labels=(lambda: rng.choice([None, "in", "node x", "n%d" % rng.randint(0, 9)])))
    tree.label = rng.choice([None, "tr", "tree one"])
    if rng.random() < 0.3:
        tree.weight = rng.choice([1.0, 0.5, 2])
    if not rich:
        return tree
    nodes = tu.walk(tree.seed_node)
    if rng.random() < 0.6:
        decorate_annotations(rng, tree, ["weight", "label", "length_type", "is_rooted"],
                             foreign=(rng.choice(nodes), "label") if rng.random() < 0.5 else (rng.choice(nodes).edge, "length"))
    for nd in nodes:
        if rng.random() < 0.3:
            decorate_annotations(rng, nd, ["label", "age"], foreign=(nd.edge, "length") if rng.random() < 0.5 else (tree, "weight"), rich=False)
        if rng.random() < 0.25:
            decorate_annotations(rng, nd.edge, ["length", "label"], foreign=(nd, "label"), rich=False)
        if rng.random() < 0.15:
            nd.comments.append("c%d" % rng.randint(0, 9))
        if rng.random() < 0.1:
            nd.edge.comments.append("ec")
        if rng.random() < 0.15:
            nd.edge.label = "e%d" % rng.randint(0, 9)
        if rng.random() < 0.1:
            nd.mark = rand_value(rng)
        if rng.random() < 0.05:
            nd.buddy = rng.choice(nodes)          # cross reference inside the tree
        if rng.random() < 0.05:
            nd.age = rng.choice([0.0, 1.5])
    if rng.random() < 0.3:
        tree.comments.append("tree comment")
    if rng.random() < 0.4:
        with_unif = any(len(nd._child_nodes) == 1 for nd in nodes)
        tree.encode_bipartitions(suppress_unifurcations=False if with_unif else rng.random() < 0.5,
                                 collapse_unrooted_basal_bifurcation=False)
    if rng.random() < 0.3:
        tree.extra = rand_value(rng)
    if rng.random() < 0.15:
        tree.fav_node = rng.choice(nodes)
        tree.fav_taxon = rng.choice(members)
    # attribute-bound annotations with the documented `owner_instance` argument whose owner is ANOTHER part of the structure, which
    # the copy traversal reaches EARLIER or LATER than the holder (a node / edge bound to a sister's, an ancestor's or a descendant's
    # label / edge length / edge label), the tree bound to a node, and an owner the namespace-scoped routes share (the node's taxon)
    if len(nodes) >= 2 and rng.random() < 0.4:
        for k in range(rng.randint(1, 3)):
            a, b = rng.sample(nodes, 2)
            holder = rng.choice([a, a, a.edge, tree])
            owner, attr = rng.choice([(b, "label"), (b.edge, "length"), (b.edge, "length"), (b.edge, "label"), (b, "age")])
            holder.annotations.add_bound_attribute(attr, annotation_name="x%d_%s" % (k, attr), owner_instance=owner)
    if rng.random() < 0.08:
        tx = [nd for nd in nodes if nd.taxon is not None]
        if tx:
            nd = rng.choice(tx)
            nd.annotations.add_bound_attribute("label", annotation_name="taxon_label", owner_instance=nd.taxon)
    return tree


def make_treelist(dendropy, rng, ns, rich=True):
    tl = dendropy.TreeList(taxon_namespace=ns, label=rng.choice([None, "tl", "list 1"]))
    for _ in range(rng.randint(0, 3)):
        tl.append(make_tree(dendropy, rng, ns, rich=rich, max_leaves=5))
    if rich:
        # a tree of the list bound to an attribute of ANOTHER tree of the list (copied later or earlier), or to a node of it
        if len(tl) >= 2 and rng.random() < 0.5:
            for k in range(rng.randint(1, 2)):
                i, j = rng.sample(range(len(tl)), 2)
                holder = rng.choice([tl[i], tl[i].seed_node])
                owner, attr = rng.choice([(tl[j], "weight"), (tl[j], "label"), (tl[j].seed_node, "label"), (tl[j].seed_node.edge, "length")])
                holder.annotations.add_bound_attribute(attr, annotation_name="xt%d_%s" % (k, attr), owner_instance=owner)
        if rng.random() < 0.5:
            decorate_annotations(rng, tl, ["label"], foreign=(rng.choice(list(tl)), "weight") if len(tl) else None)
        if rng.random() < 0.3:
            tl.comments.append("tl comment")
        if rng.random() < 0.2:
            tl.extra = rand_value(rng)
    return tl


MATRIX_TYPES = ["DnaCharacterMatrix", "RnaCharacterMatrix", "ProteinCharacterMatrix", "StandardCharacterMatrix",
                "ContinuousCharacterMatrix", "NucleotideCharacterMatrix", "RestrictionSitesCharacterMatrix", "InfiniteSitesCharacterMatrix"]
SYMBOLS = {"DnaCharacterMatrix": "ACGT-?NRY", "RnaCharacterMatrix": "ACGU-?N", "ProteinCharacterMatrix": "ACDEFGHIKLMNPQRSTVWY-?X",
           "StandardCharacterMatrix": "0123-?", "NucleotideCharacterMatrix": "ACGTU-?N", "RestrictionSitesCharacterMatrix": "01",
           "InfiniteSitesCharacterMatrix": "01"}


def make_matrix(dendropy, rng, ns, rich=True, mtype=None):
    from dendropy.datamodel.charmatrixmodel import CharacterType
    mtype = mtype or rng.choice(MATRIX_TYPES)
    cls = getattr(dendropy, mtype)
    nchar = rng.randint(0, 6)
    taxa = [t for t in ns if rng.random() < 0.8]
    d = {}
    for t in taxa:
        k = nchar if rng.random() < 0.8 else rng.randint(0, nchar + 2)
        if mtype == "ContinuousCharacterMatrix":
            d[t] = [rng.choice([0.5, 1.25, -2.0, 3.0, 0.0]) for _ in range(k)]
        else:
            d[t] = "".join(rng.choice(SYMBOLS[mtype]) for _ in range(k))
    m = cls.from_dict(d, taxon_namespace=ns, label=rng.choice([None, "mat", "matrix 1"]))
    if not rich:
        return m
    if rng.random() < 0.5:
        decorate_annotations(rng, m, ["label"])
    if rng.random() < 0.3:
        m.comments.append("matrix comment")
    seqs = list(m._taxon_sequence_map.values())
    if rng.random() < 0.4:
        # character types (column definitions) shared between rows
        for k in range(rng.randint(1, 3)):
            ct = CharacterType(label="col%d" % k, state_alphabet=getattr(m, "default_state_alphabet", None))
            if rng.random() < 0.3:
                decorate_annotations(rng, ct, ["label"], rich=False)
            m.character_types.append(ct)
        for s in seqs:
            for i in range(len(s)):
                if rng.random() < 0.5:
                    s.set_character_type_at(i, rng.choice(m.character_types))
    for s in seqs:
        if rng.random() < 0.3:
            decorate_annotations(rng, s, [], rich=False)
        for i in range(len(s)):
            if rng.random() < 0.12:
                s.annotations_at(i).add_new("cell", rand_value(rng))    # per-cell annotation set (target = the cell's character type)
    if rng.random() < 0.4 and nchar:
        m.new_character_subset("cs1", sorted(rng.sample(range(nchar), rng.randint(0, nchar))))
        if rng.random() < 0.4:
            cs = m.new_character_subset("Codon Pos", [0])
            decorate_annotations(rng, cs, ["label"], rich=False)
    if rng.random() < 0.2:
        m.extra = rand_value(rng)
    return m


def make_object(dendropy, rng, spec):
    rich = spec.get("rich", True)
    kind = spec["obj"]
    shape = spec.get("shape")
    nleaf = tu.count_leaves(shape) if shape is not None else rng.randint(1, spec.get("max_leaves", 8))
    ns = make_ns(dendropy, rng, nleaf, rich)
    if kind == "tree":
        return make_tree(dendropy, rng, ns, shape=shape, rich=rich, max_leaves=nleaf)
    if kind == "treelist":
        return make_treelist(dendropy, rng, ns, rich=rich)
    if kind == "matrix":
        return make_matrix(dendropy, rng, ns, rich=rich, mtype=spec.get("mtype"))
    if kind == "ns":
        return ns
    if kind == "caterpillar":
        depth = spec["depth"]
        ns = dendropy.TaxonNamespace(["t%d" % i for i in range(depth + 1)])
        nd = dendropy.Node(taxon=ns[0])
        for i in range(depth):
            p = dendropy.Node()
            p.add_child(nd)
            p.add_child(dendropy.Node(taxon=ns[i + 1]))
            nd = p
        return dendropy.Tree(taxon_namespace=ns, seed_node=nd)
    raise ValueError(kind)


# ---------------------------------------------------------------------------------------------------------------------
# routes.  class of a route: deep | scoped | migrate | shallow | extract
# ---------------------------------------------------------------------------------------------------------------------
ROUTES = {
    "tree": ["deepcopy", "clone2", "clone1", "ctor", "copy", "clone0", "nsscoped", "migrate", "extract", "extract_nosup"],
    "treelist": ["deepcopy", "clone2", "clone1", "ctor", "nsscoped", "migrate", "copy", "clone0"],
    "matrix": ["deepcopy", "clone2", "clone1", "ctor", "nsscoped", "migrate", "copy", "clone0"],
    "ns": ["deepcopy", "clone2", "ctor", "copy", "clone0"],
}


def route_class(objkind, route):
    if route in ("deepcopy", "clone2"):
        return "deep"
    if route in ("extract", "extract_nosup"):
        return "extract"
    if route == "migrate":
        return "migrate"
    if objkind == "tree":
        return "scoped"                      # Tree.__copy__ is the namespace-scoped copy
    if objkind == "ns":
        return "shallow"                     # TaxonNamespace(ns) / copy.copy(ns): documented shallow copy (same Taxon objects)
    if route in ("copy", "clone0"):
        return "shallow"                     # TreeList / CharacterMatrix: documented shallow copy (members are references)
    return "scoped"


def do_copy(dendropy, src, route, ns2):
    if route == "deepcopy":
        return copy.deepcopy(src)
    if route == "clone2":
        return src.clone(2)
    if route == "clone1":
        return src.clone(1)
    if route == "clone0":
        return src.clone(0)
    if route == "copy":
        return copy.copy(src)
    if route == "ctor":
        return type(src)(src)
    if route == "nsscoped":
        return src.taxon_namespace_scoped_copy()
    if route == "migrate":
        return type(src)(src, taxon_namespace=ns2)
    if route == "extract":
        return src.extract_tree()
    if route == "extract_nosup":
        return src.extract_tree(suppress_unifurcations=False)
    raise ValueError(route)


def exc_name(e):
    return type(e).__name__


# ---------------------------------------------------------------------------------------------------------------------
# mutations (one side only); every mutation stays outside the parts the route documents as shared
# ---------------------------------------------------------------------------------------------------------------------
def tree_nodes(t):
    return tu.walk(t._seed_node)


def mut_tree(dendropy, rng, t, deep, fresh):
    """apply one random mutation to tree t; returns its name.  deep: taxa/namespace are private to this side"""
    nodes = tree_nodes(t)
    ops = ["length", "label", "prune", "graft", "swap", "collapse", "annot_add", "annot_value", "annot_inplace", "annot_drop",
           "comment", "encode", "rooting", "weight", "tree_label", "extra", "edge_label", "reroot", "node_attr", "bip_mutate",
           "node_comment", "sub_annot"]
    if deep:
        ops += ["taxon_label", "ns_add", "taxon_annot", "ns_label", "retaxon"]
    op = rng.choice(ops)
    nd = rng.choice(nodes)
    if op == "length":
        nd.edge.length = rng.choice([None, 0.0, 7.5, 11.0, 0.125]) if nd.edge.length != 7.5 else 9.25
    elif op == "label":
        nd.label = "mut%d" % fresh()
    elif op == "edge_label":
        nd.edge.label = "emut%d" % fresh()
    elif op == "prune":
        if nd._parent_node is not None:
            nd._parent_node.remove_child(nd)
        else:
            op = "prune-skip"
    elif op == "graft":
        new = dendropy.Node(label="graft%d" % fresh(), edge_length=0.5)
        nd.add_child(new)
    elif op == "swap":
        if len(nd._child_nodes) >= 2:
            nd._child_nodes.reverse()
        else:
            op = "swap-skip"
    elif op == "collapse":
        if nd._parent_node is not None and nd._child_nodes:
            nd.edge.collapse()
        else:
            op = "collapse-skip"
    elif op == "reroot":
        if nd._child_nodes and nd._parent_node is not None:
            t.reseed_at(nd, update_bipartitions=False, suppress_unifurcations=False, collapse_unrooted_basal_bifurcation=False)
        else:
            op = "reroot-skip"
    elif op == "annot_add":
        target = rng.choice([t, nd, nd.edge])
        target.annotations.add_new("added%d" % fresh(), rand_value(rng))
    elif op in ("annot_value", "annot_inplace", "annot_drop", "sub_annot"):
        holders = [x for x in [t] + nodes + [n.edge for n in nodes] if "_annotations" in x.__dict__ and len(x._annotations)]
        if not holders:
            return op + "-skip"
        h = rng.choice(holders)
        a = rng.choice(list(h._annotations))
        if op == "annot_drop":
            h._annotations.remove(a)
        elif op == "sub_annot":
            a.annotations.add_new("subadded%d" % fresh(), 1)
        elif a.is_attribute:
            owner, attr = a._value
            if not deep and isinstance(owner, (dendropy.Taxon, dendropy.TaxonNamespace)):
                return op + "-skip"          # the owner is a part the route documents as shared
            if attr in ("label", "weight", "length", "age", "length_type", "name"):
                setattr(owner, attr, "bound%d" % fresh() if attr in ("label", "name") else 3.0 + fresh())
            else:
                return op + "-skip"
        elif op == "annot_inplace" and isinstance(a._value, list):
            a._value.append("inplace%d" % fresh())
        elif op == "annot_inplace" and isinstance(a._value, dict):
            a._value["inplace"] = fresh()
        elif op == "annot_inplace" and isinstance(a._value, set):
            a._value.add(1000 + fresh())
        elif op == "annot_inplace" and isinstance(a._value, tuple) and len(a._value) == 2 and isinstance(a._value[1], list):
            a._value[1].append(fresh())
        else:
            a.value = "changed%d" % fresh()
            if rng.random() < 0.3:
                a.name = "renamed%d" % fresh()
    elif op == "comment":
        t.comments.append("cm%d" % fresh())
    elif op == "node_comment":
        rng.choice([nd, nd.edge]).comments.append("ncm%d" % fresh())
    elif op == "encode":
        t.encode_bipartitions(suppress_unifurcations=False, collapse_unrooted_basal_bifurcation=False)
    elif op == "bip_mutate":
        b = nd.edge._bipartition
        if b is None:
            return op + "-skip"
        b.__dict__["is_mutable"] = True
        b._split_bitmask = (b._split_bitmask or 0) + 1024 + fresh()
        b._leafset_bitmask = (b._leafset_bitmask or 0) + 2048
    elif op == "rooting":
        t.is_rooted = {True: False, False: None, None: True}[t._is_rooted]
    elif op == "weight":
        t.weight = 10.0 + fresh()
    elif op == "tree_label":
        t.label = "tl%d" % fresh()
    elif op == "extra":
        cur = t.__dict__.get("extra")
        if isinstance(cur, list):
            cur.append(fresh())
        elif isinstance(cur, dict):
            cur["z%d" % fresh()] = [1]
        elif isinstance(cur, set):
            cur.add(500 + fresh())
        else:
            t.extra = ["new", fresh()]
    elif op == "node_attr":
        cur = nd.__dict__.get("mark")
        if isinstance(cur, list):
            cur.append(fresh())
        else:
            nd.mark = [fresh()]
    elif op == "taxon_label":
        taxa = [n.taxon for n in nodes if n.taxon is not None]
        if not taxa:
            return op + "-skip"
        rng.choice(taxa).label = "TX%d" % fresh()
    elif op == "taxon_annot":
        if len(t.taxon_namespace) == 0:
            return op + "-skip"
        rng.choice(list(t.taxon_namespace)).annotations.add_new("txa%d" % fresh(), 1)
    elif op == "ns_add":
        t.taxon_namespace.new_taxon("added taxon %d" % fresh())
    elif op == "ns_label":
        t.taxon_namespace.label = "nsl%d" % fresh()
    elif op == "retaxon":
        if len(t.taxon_namespace) == 0:
            return op + "-skip"
        nd.taxon = rng.choice(list(t.taxon_namespace))
    return op


def mut_ns(dendropy, rng, ns, deep, fresh):
    ops = ["add", "remove", "ns_label", "annot", "sort", "reverse", "mutable", "comment", "bitmask"]
    if deep:
        ops += ["taxon_label", "taxon_annot", "taxon_comment", "taxon_annot_value"]
    op = rng.choice(ops)
    taxa = list(ns._taxa)
    if op == "add":
        was = ns.is_mutable
        ns.is_mutable = True
        ns.new_taxon("new%d" % fresh())
        ns.is_mutable = was
    elif op == "remove":
        if not taxa:
            return op + "-skip"
        ns.remove_taxon(rng.choice(taxa))
    elif op == "ns_label":
        ns.label = "L%d" % fresh()
    elif op == "annot":
        ns.annotations.add_new("nsa%d" % fresh(), rand_value(rng))
    elif op == "sort":
        ns.sort(key=lambda t: str(t.label), reverse=rng.random() < 0.5)
    elif op == "reverse":
        ns.reverse()
    elif op == "mutable":
        ns.is_mutable = not ns.is_mutable
    elif op == "comment":
        ns.comments.append("nc%d" % fresh())
    elif op == "bitmask":
        if not taxa:
            return op + "-skip"
        ns.taxon_bitmask(rng.choice(taxa))
    elif op == "taxon_label":
        if not taxa:
            return op + "-skip"
        rng.choice(taxa).label = "TL%d" % fresh()
    elif op == "taxon_annot":
        if not taxa:
            return op + "-skip"
        rng.choice(taxa).annotations.add_new("ta%d" % fresh(), [1])
    elif op == "taxon_comment":
        if not taxa:
            return op + "-skip"
        rng.choice(taxa).comments.append("tc%d" % fresh())
    elif op == "taxon_annot_value":
        hs = [t for t in taxa if "_annotations" in t.__dict__ and len(t._annotations)]
        if not hs:
            return op + "-skip"
        a = rng.choice(list(rng.choice(hs)._annotations))
        if a.is_attribute:
            a._value[0].label = "TB%d" % fresh()
        elif isinstance(a._value, list):
            a._value.append(fresh())
        else:
            a.value = "tv%d" % fresh()
    return op


def mut_treelist(dendropy, rng, tl, deep, fresh, shallow=False):
    ops = ["append", "remove", "insert", "label", "annot", "comment", "reverse", "extra", "annot_value"]
    if not shallow:
        ops += ["tree"] * 12
    op = rng.choice(ops)
    if op == "tree":
        if not len(tl._trees):
            return "tree-skip"
        return "tree." + mut_tree(dendropy, rng, rng.choice(tl._trees), deep, fresh)
    if op in ("append", "insert"):
        nd = dendropy.Node(label="r%d" % fresh())
        t = dendropy.Tree(taxon_namespace=tl.taxon_namespace, seed_node=nd)
        if op == "append":
            tl.append(t)
        else:
            tl.insert(0, t)
    elif op == "remove":
        if not len(tl._trees):
            return op + "-skip"
        del tl[rng.randrange(len(tl._trees))]
    elif op == "label":
        tl.label = "TLL%d" % fresh()
    elif op == "annot":
        tl.annotations.add_new("tla%d" % fresh(), rand_value(rng))
    elif op == "annot_value":
        if "_annotations" not in tl.__dict__ or not len(tl._annotations):
            return op + "-skip"
        a = rng.choice(list(tl._annotations))
        if a.is_attribute:
            if shallow and a._value[0] is not tl:
                return op + "-skip"
            setattr(a._value[0], a._value[1], "bnd%d" % fresh() if a._value[1] == "label" else 4.0 + fresh())
        elif isinstance(a._value, list) and not shallow:
            a._value.append(fresh())
        else:
            a.value = "v%d" % fresh()
    elif op == "comment":
        tl.comments.append("tlc%d" % fresh())
    elif op == "reverse":
        tl._trees.reverse()
    elif op == "extra":
        tl.extra2 = [fresh()]
    return op


def mut_matrix(dendropy, rng, m, deep, fresh, shallow=False):
    from dendropy.datamodel.charmatrixmodel import CharacterType
    ops = ["del_seq", "label", "annot", "comment", "subset_add", "annot_value", "new_seq_existing"]
    if not shallow:
        ops += ["cell"] * 6 + ["append_cell", "del_cell", "cell_annot", "seq_annot", "subset_mut", "ctype_label", "ctype_add", "cell_ctype",
                               "cell_annot_value"]
    if deep:
        ops += ["taxon_label", "new_seq_new_taxon"]
    op = rng.choice(ops)
    seqs = list(m._taxon_sequence_map.items())
    cont = type(m).__name__ == "ContinuousCharacterMatrix"

    def newval():
        if cont:
            return 100.0 + fresh()
        sa = m.default_state_alphabet
        return sa[SYMBOLS[type(m).__name__][fresh() % len(SYMBOLS[type(m).__name__])]]
    if op in ("cell", "append_cell", "del_cell", "cell_annot", "seq_annot", "cell_ctype", "cell_annot_value"):
        if not seqs:
            return op + "-skip"
        tx, s = rng.choice(seqs)
        if op == "append_cell":
            s.append(newval())
        elif op == "seq_annot":
            s.annotations.add_new("sa%d" % fresh(), 2)
        elif len(s) == 0:
            return op + "-skip"
        else:
            i = rng.randrange(len(s))
            if op == "cell":
                old = s[i]
                v = newval()
                if v is old:
                    v = newval()
                s[i] = v
            elif op == "del_cell":
                del s[i]
            elif op == "cell_annot":
                s.annotations_at(i).add_new("ca%d" % fresh(), [fresh()])
            elif op == "cell_annot_value":
                cands = [a for a in s._character_annotations if a is not None and len(a)]
                if not cands:
                    return op + "-skip"
                a = rng.choice(list(rng.choice(cands)))
                if isinstance(a._value, list):
                    a._value.append(fresh())
                else:
                    a.value = "cv%d" % fresh()
            elif op == "cell_ctype":
                if not m.character_types:
                    return op + "-skip"
                s.set_character_type_at(i, rng.choice(m.character_types))
    elif op == "del_seq":
        if not seqs:
            return op + "-skip"
        del m._taxon_sequence_map[rng.choice(seqs)[0]]
    elif op == "new_seq_existing":
        free = [t for t in m.taxon_namespace if t not in m._taxon_sequence_map]
        if not free:
            return op + "-skip"
        m.new_sequence(rng.choice(free), [newval() for _ in range(2)])
    elif op == "new_seq_new_taxon":
        t = m.taxon_namespace.new_taxon("mx%d" % fresh())
        m.new_sequence(t, [newval()])
    elif op == "label":
        m.label = "ML%d" % fresh()
    elif op == "annot":
        m.annotations.add_new("ma%d" % fresh(), rand_value(rng))
    elif op == "annot_value":
        if "_annotations" not in m.__dict__ or not len(m._annotations):
            return op + "-skip"
        a = rng.choice(list(m._annotations))
        if a.is_attribute:
            if a._value[0] is not m:
                return op + "-skip"
            m.label = "bndm%d" % fresh()
        elif isinstance(a._value, list) and not shallow:
            a._value.append(fresh())
        else:
            a.value = "mv%d" % fresh()
    elif op == "comment":
        m.comments.append("mc%d" % fresh())
    elif op == "subset_add":
        m.new_character_subset("sub%d" % fresh(), [0, 1])
    elif op == "subset_mut":
        if not len(m.character_subsets):
            return op + "-skip"
        cs = rng.choice(list(m.character_subsets.values()))
        cs.character_indices.add(50 + fresh())
    elif op == "ctype_label":
        if not m.character_types:
            return op + "-skip"
        rng.choice(m.character_types).label = "ctl%d" % fresh()
    elif op == "ctype_add":
        m.character_types.append(CharacterType(label="newct%d" % fresh()))
    elif op == "taxon_label":
        if not len(m.taxon_namespace):
            return op + "-skip"
        rng.choice(list(m.taxon_namespace)).label = "MT%d" % fresh()
    return op


def mutate(dendropy, rng, o, deep, fresh, shallow=False):
    if isinstance(o, dendropy.Tree):
        return mut_tree(dendropy, rng, o, deep, fresh)
    if isinstance(o, dendropy.TreeList):
        return mut_treelist(dendropy, rng, o, deep, fresh, shallow)
    if isinstance(o, dendropy.TaxonNamespace):
        return mut_ns(dendropy, rng, o, deep, fresh)
    return mut_matrix(dendropy, rng, o, deep, fresh, shallow)


# ---------------------------------------------------------------------------------------------------------------------
# the oracle
# ---------------------------------------------------------------------------------------------------------------------
def describe_obj(o):
    return "%s" % type(o).__name__


def thin_only_problems(dendropy, src, cp):
    """extract_tree: 'structure, lengths, labels and taxa only'"""
    probs = []
    for nd in tu.walk(cp._seed_node):
        if "_annotations" in nd.__dict__ and len(nd._annotations):
            probs.append("extracted node carries annotations")
        if "_annotations" in nd._edge.__dict__ and len(nd._edge._annotations):
            probs.append("extracted edge carries annotations")
        if nd.comments or nd._edge.comments:
            probs.append("extracted node/edge carries comments")
        extra = set(nd.__dict__) - NODE_STD - {"_annotations", "extraction_source"}
        if extra:
            probs.append("extracted node carries extra attributes %s" % sorted(extra))
    if "_annotations" in cp.__dict__ and len(cp._annotations):
        probs.append("extracted tree carries annotations")
    if cp.comments:
        probs.append("extracted tree carries comments")
    if set(cp.__dict__) - TREE_STD - {"_annotations"}:
        probs.append("extracted tree carries extra attributes")
    return sorted(set(probs))


def suppressed_extract_problems(src, cp):
    probs = []

    def leaf_paths_in_order(tree):
        out, stack = [], [(tree._seed_node, tu.F(tree._seed_node._edge.length))]
        while stack:
            nd, acc = stack.pop()
            if not nd._child_nodes:
                out.append((None if nd.taxon is None else nd.taxon._label, acc))
            for c in reversed(nd._child_nodes):
                stack.append((c, acc + tu.F(c._edge.length)))
        return out
    a, b = leaf_paths_in_order(src), leaf_paths_in_order(cp)
    if [x[0] for x in a] != [x[0] for x in b]:
        probs.append("extracted tree has other leaf taxa (or another order) than its source")
    elif a != b:
        probs.append("extracted tree changes a root-to-leaf length sum: %s" % ([(x, str(p), str(q)) for (x, p), (_, q) in zip(a, b) if p != q][:2],))
    if any(len(nd._child_nodes) == 1 for nd in tu.walk(cp._seed_node)):
        probs.append("extracted tree still has a unifurcation although suppress_unifurcations is set")
    keep = [(None if nd.taxon is None else nd.taxon._label, nd._label, nd._edge._label) for nd in tu.walk(src._seed_node)
            if len(nd._child_nodes) != 1]
    got = [(None if nd.taxon is None else nd.taxon._label, nd._label, nd._edge._label) for nd in tu.walk(cp._seed_node)]
    if keep != got:
        probs.append("extracted nodes are not the source's non-unifurcation nodes with their taxon, label and edge label")
    for nd in tu.walk(cp._seed_node):
        if nd.taxon is not None and not any(nd.taxon is t for t in src.taxon_namespace._taxa):
            probs.append("extracted node references a Taxon object that is not in the source's namespace")
            break
    return probs


def bound_owner_problems(dendropy, src, cp):
    """attribute-bound annotations: the owner of a copied bound annotation must not be a (non-shared) object of the source"""
    probs = []
    rs, rc = roles_of(dendropy, src), roles_of(dendropy, cp)
    g, _ = export(dendropy, [cp])
    for o in g.keep:
        d = getattr(o, "__dict__", None)
        if isinstance(d, dict) and d.get("is_attribute") is True and isinstance(d.get("_value"), tuple):
            owner = d["_value"][0]
            k = okey(owner)
            if k in rs and rs[k] != "ns" and not rs[k].startswith("taxon") and k not in rc:
                probs.append("a bound annotation of the copy (%s) is bound to the source's %s" % (d.get("name"), rs[k]))
    return probs


def shallow_view(dendropy, o):
    """what a documented depth-0 copy must preserve and keep private: the container's own membership, label, and the
    names/values of its own annotations (members themselves are references)"""
    roles = roles_of(dendropy, o)
    anns = []
    if "_annotations" in o.__dict__:
        for a in o._annotations._item_list:
            anns.append([a.name, "bound:" + str(a._value[1]) if a.is_attribute else fp_value(a._value, {})])
    if isinstance(o, dendropy.TreeList):
        return ["treelist", o._label, [id(t) for t in o._trees], anns]
    if isinstance(o, dendropy.TaxonNamespace):
        return ["ns", fp_ns(o, roles)]
    return ["matrix", o._label, [[t._label, id(sq)] for t, sq in o._taxon_sequence_map.items()], anns]


def run_case(ctx, dendropy, spec, pending=None, report=True):
    """one case, completely determined by spec (JSON-able). returns list of failures (also sent to ctx.fail)"""
    rng = random.Random(spec["seed"])
    objkind = spec["obj"]
    route = spec["route"]
    rclass = route_class("tree" if objkind == "caterpillar" else objkind, route)
    fails = []

    def fail(kind, what, **extra):
        rep = dict(spec)
        rep.update(extra)
        fails.append((kind, what))
        if report:
            ctx.fail(kind, "%s via %s: %s" % (objkind, route, what), rep)

    src = make_object(dendropy, rng, spec)
    ns_src = src if isinstance(src, dendropy.TaxonNamespace) else src.taxon_namespace
    ns2 = None
    if rclass == "migrate":
        # the other namespace: some of the labels present already (in another order), some missing, one unrelated
        labs = [t.label for t in ns_src if rng.random() < 0.5]
        rng.shuffle(labs)
        ns2 = dendropy.TaxonNamespace(labs + ["other"], label="ns2")
    deep_graph = objkind == "caterpillar"
    skip = "extraction_source" if rclass == "extract" else None
    thin = rclass == "extract"
    shallow = rclass == "shallow"
    view = (lambda o, **kw: shallow_view(dendropy, o)) if (shallow and objkind != "ns") else (
        lambda o, with_ns=True: fingerprint(dendropy, o, thin=thin, with_ns=with_ns))
    pre = []
    if not deep_graph:
        g, rootvals = export(dendropy, [src])
        src_mut = g.mutable_ids(dendropy)
        src_mut_objs = list(g.objs)        # the source graph proper (the other namespace, if any, is appended after it)
        names = {okey(o): type(o).__name__ for o in g.keep}
        if ns2 is not None:
            g, _ = export(dendropy, [ns2], graph=g)
        n_src = len(g.objs)
        src_objs = list(g.objs)
        wfp = wellformed_problem(src_objs)
        if wfp is not None:
            # the theorems (copy_total, copy_iso_partial, ...) do not speak about this input: the property is not shown for it
            ctx.count("exported_heap_not_wellformed")
            ctx.disagree("wellformed", spec, "exported heap outside the hypotheses of the theorems: %s" % wfp, "-")
        else:
            ctx.count("exported_heap_wellformed")
        g_ns, _ = export(dendropy, [ns_src])
        ns_ids = g_ns.mutable_ids(dendropy)
        fp_src = J(view(src))
        nontrivial = len(src_mut) >= 10
        ix = lambda o: g.index_of[okey(o)]
        # memo pre-seeding of the route.  Other namespace: the label-matched mapping (first match, case-insensitive, else a new taxon)
        if rclass == "migrate":
            pre.append((ix(ns_src), "r%d" % ix(ns2)))
            known = [("r%d" % ix(t), str(t.label).lower()) for t in ns2._taxa]
            for t1 in ns_src._taxa:
                low = str(t1.label).lower()
                hit = [tag for tag, l in known if l == low]
                if hit:
                    pre.append((ix(t1), hit[0]))
                else:
                    pre.append((ix(t1), "+"))
                    known.append(("=%d" % ix(t1), low))    # a later duplicate label maps to the taxon created for the first
        elif rclass == "scoped":
            pre.append((ix(ns_src), "r%d" % ix(ns_src)))
            for t1 in ns_src._taxa:
                pre.append((ix(t1), "r%d" % ix(t1)))
    else:
        nontrivial = True
    ctx.case([spec], nontrivial, sample=spec, kind="%s/%s" % (objkind, rclass))

    # ---- the copy
    limit = sys.getrecursionlimit()
    try:
        with time_limit(30):
            cp = do_copy(dendropy, src, route, ns2)
    except Timeout:
        fail("copy-hangs", "copy did not finish in 30 s")
        return fails
    except RecursionError:
        depth = max_depth(src) if isinstance(src, dendropy.Tree) else 0
        fail("copy-raises", "RecursionError (tree depth %d, recursion limit %d)" % (depth, limit),
             exception="RecursionError", depth_class="deep" if depth * 6 >= limit else "shallow")
        return fails
    except Exception as e:
        fail("copy-raises", "%s: %s" % (exc_name(e), str(e)[:200]), exception=exc_name(e), depth_class="shallow")
        if pending is not None and not deep_graph and rclass in ("deep", "scoped", "migrate"):
            pending.append((model_line(rclass, rootvals[0], pre, src_objs), spec, "err", None))
        return fails
    if deep_graph:
        return fails
    if cp is None:
        fail("copy-none", "the copy route returned None")
        return fails

    # ---- copying does not change the source (statement level: its fingerprint; graph level: for the correspondence)
    try:
        fp_after = J(view(src))
    except Exception as e:
        fp_after = "unwalkable:" + exc_name(e)
    if fp_after != fp_src:
        fail("source-changed", "the copy route changed its source: %s" % (
            first_diff(json.loads(fp_src), json.loads(fp_after)) if not fp_after.startswith("unwalkable") else fp_after))
    g_after, _ = export(dendropy, [src])
    n_own = len(src_mut_objs)
    strip = lambda o: (o[0], o[1], [f for f in o[2] if f[0] not in CANON_DROP])
    if len(g_after.objs) != n_own:
        real_changed = "graph-size %d->%d" % (n_own, len(g_after.objs))
    else:
        real_changed = [i for i in range(n_own) if strip(g_after.objs[i]) != strip(src_objs[i])]

    # ---- (a)/(b)/(c) sharing: literal identity-set intersection
    gc, cvals = export(dendropy, [cp], skip_attr=skip)
    cp_mut = gc.mutable_ids(dendropy)
    shared = src_mut & cp_mut
    roles = roles_of(dendropy, src)

    def show(ids):
        out = sorted(set("%s%s" % (names.get(i, "?"), ("(" + roles[i] + ")") if i in roles else "") for i in ids))
        return ", ".join(out[:8])
    if cp is src:
        fail("copy-is-source", "the copy is the source object itself")
        return fails
    if rclass == "deep":
        if shared:
            fail("deep-shares", "deep copy shares mutable objects with its source: %s" % show(shared))
    elif rclass in ("scoped", "extract"):
        bad = shared - ns_ids
        if bad:
            fail("scoped-shares", "copy shares more than the namespace and its taxa: %s" % show(bad))
        if cp.taxon_namespace is not ns_src:
            fail("scoped-namespace", "copy does not reference the source's namespace")
        elif ns_ids - shared:
            fail("scoped-namespace", "namespace parts not shared: %s" % show(ns_ids - shared))
    elif rclass == "migrate":
        if shared:
            fail("migrate-shares", "copy into another namespace shares mutable objects with its source: %s" % show(shared))
        if cp.taxon_namespace is not ns2:
            fail("migrate-namespace", "copy does not reference the namespace given")
        else:
            members = set(id(t) for t in ns2._taxa)
            for o in gc.keep:
                if isinstance(o, dendropy.Taxon) and id(o) not in members:
                    fail("migrate-namespace", "copy references a Taxon (%r) that is not in its namespace" % o.label)
                    break
    elif rclass == "shallow":
        # documented depth 0: members are references; the container itself, its annotation set and Annotation objects are private
        top = [okey(src)]
        for attr in ("_trees", "_taxon_sequence_map", "_taxa", "_annotations", "_accession_index_taxon_map",
                     "_taxon_accession_index_map", "_taxon_bitmask_map", "comments"):
            if attr in src.__dict__:
                top.append(okey(src.__dict__[attr]))
        if "_annotations" in src.__dict__:
            top.append(okey(src._annotations._item_list))
            top += [okey(a) for a in src._annotations._item_list]
        bad = [i for i in top if i in cp_mut]
        if bad:
            fail("shallow-shares", "shallow copy shares its container / annotation objects with the source: %s" % show(bad))
        if objkind != "ns" and cp.taxon_namespace is not ns_src:
            fail("scoped-namespace", "shallow copy does not reference the source's namespace")
        if objkind == "ns" and [id(t) for t in cp._taxa] != [id(t) for t in src._taxa]:
            fail("shallow-members", "TaxonNamespace copy does not hold the same Taxon objects in the same order")

    # ---- state objects of discrete matrices are the alphabet's own StateIdentity objects (exported as atoms by symbol):
    #      the copy must hold the very same objects cell by cell, not look-alikes
    if objkind == "matrix" and type(src).__name__ != "ContinuousCharacterMatrix":
        for (t1, s1), (t2, s2) in zip(src._taxon_sequence_map.items(), cp._taxon_sequence_map.items()):
            if len(s1._character_values) == len(s2._character_values) and any(
                    a is not b for a, b in zip(s1._character_values, s2._character_values)):
                fail("state-identity", "a cell of the copy holds another state object than the source's cell (row %r)" % t1._label)
                break
        if not shallow and getattr(src, "default_state_alphabet", None) is not getattr(cp, "default_state_alphabet", None):
            fail("state-identity", "the copy refers to another state alphabet object than its source (its cells hold the "
                                   "source alphabet's states)", matrix_type=type(src).__name__)

    # ---- equality of structure, labels, lengths, rooting, annotations, sequences
    try:
        fp_cp = J(view(cp, with_ns=(rclass != "migrate")))
    except Exception as e:
        fail("copy-malformed", "the copy cannot be walked: %s %s" % (exc_name(e), str(e)[:200]))
        return fails
    fp_src_cmp = fp_src if rclass != "migrate" else J(view(src, with_ns=False))
    src_unary = thin and any(len(nd._child_nodes) == 1 for nd in tu.walk(src._seed_node))
    if route == "extract" and src_unary:
        # default extract_tree suppresses unifurcations: judged by the definition of suppression (plain walks):
        # same leaf taxa in order, same root-to-leaf length sums (None counts 0), no outdegree-1 node left,
        # the surviving nodes are exactly the source's non-unifurcation nodes with their taxon / label / edge label
        for p in suppressed_extract_problems(src, cp):
            fail("extract-suppressed", p)
    elif fp_cp != fp_src_cmp:
        fail("not-equal", "copy differs from its source: %s" % first_diff(json.loads(fp_src_cmp), json.loads(fp_cp)))
    if thin:
        for p in thin_only_problems(dendropy, src, cp):
            fail("extract-not-thin", p)
        if not (route == "extract" and src_unary):
            for a, b in zip(tu.walk(src._seed_node), tu.walk(cp._seed_node)):
                if b.__dict__.get("extraction_source") is not a:
                    fail("extract-source-ref", "extraction_source of a cloned node is not its source node")
                    break
    elif not shallow:
        for p in bound_owner_problems(dendropy, src, cp):
            fail("bound-annotation", p)

    # ---- correspondence with the model
    if pending is not None:
        if rclass in ("deep", "scoped", "migrate"):
            gm = Graph()
            gm.objs, gm.index_of, gm.keep = list(g.objs), dict(g.index_of), list(g.keep)
            gm, cv = export(dendropy, [cp], graph=gm)
            got = canon(gm.objs, cv[0], n_src)
            pending.append((model_line(rclass, rootvals[0], pre, src_objs), spec, got, (n_src, src_objs, n_own, real_changed, n_src)))
        elif rclass == "shallow":
            # the shallow routes of the model (shallowMembers / shallowNs).  Both graphs are canonicalised relative to the source
            # graph proper (n_own): the instance the route constructs (`cls(label=..., taxon_namespace=...)`, built here by the same
            # constructor call and exported after the source) lends its attribute values to the model's copy
            gm = Graph()
            gm.objs, gm.index_of, gm.keep = list(src_mut_objs), dict(g.index_of), list(g.keep)
            gm, cv = export(dendropy, [cp], graph=gm)
            got = canon(gm.objs, cv[0], n_own)
            if objkind == "ns":
                all_objs = list(src_mut_objs)
                line = " ".join(["shallow", "N", str(rootvals[0][1]), "-", "-"] + enc_objs(all_objs))
            else:
                blank = type(src)(label=src.label, taxon_namespace=ns_src)
                gb = Graph()
                gb.objs, gb.index_of, gb.keep = list(src_mut_objs), dict(g.index_of), list(g.keep)
                gb, bv = export(dendropy, [blank], graph=gb)
                all_objs = list(gb.objs)
                mem = "_trees" if objkind == "treelist" else "_taxon_sequence_map"
                line = " ".join(["shallow", "M", str(rootvals[0][1]), str(bv[0][1]), hex6(mem)] + enc_objs(all_objs))
            ctx.count("shallow_routes_sent_to_model")
            pending.append((line, spec, got, (len(all_objs), all_objs, n_own, real_changed, n_own)))
        elif rclass == "extract":
            toks, ids = tu.encode_tree(src)
            etoks = [hex6(ids.node(i)._edge._label) for i in range(len(ids))]
            taxl = [("-" if ids.node(i).taxon is None else hex6(ids.node(i).taxon._label)) for i in range(len(ids))]
            got = render_thin(cp)
            pending.append(("extract %d %s %s %s" % (0 if route == "extract_nosup" else 1, " ".join(toks), " ".join(etoks),
                                                   " ".join(taxl)), spec, got, None))

    # ---- (d) independence under later mutations of either side
    counter = [0]

    def fresh():
        counter[0] += 1
        return counter[0]
    if fails:
        return fails
    # bound annotations, judged directly before anything is mutated (every owner position: self, earlier, later, shared)
    if not thin:
        for p in bound_direct(dendropy, src, cp, ns_ids if rclass == "scoped" else set(), fresh, own_only=shallow):
            fail("bound-annotation", p)
        ctx.count("bound_direct_checked")
        if fails:
            return fails
    deep = rclass in ("deep", "migrate")
    nmut = spec.get("mutations", 24)
    sides = {"source": src, "copy": cp}
    fps = {k: J(view(v)) for k, v in sides.items()}
    applied = []
    for k in range(nmut):
        side = rng.choice(["source", "copy"])
        other = "copy" if side == "source" else "source"
        target = sides[side]
        try:
            if thin:
                op = mut_tree(dendropy, rng, target, False, fresh)
            else:
                op = mutate(dendropy, rng, target, deep, fresh, shallow)
        except Exception as e:
            op = "raised:%s" % exc_name(e)     # the mutator itself failing is some other property's business
        applied.append("%s:%s" % (side, op))
        try:
            now = J(view(sides[other]))
        except Exception as e:
            fail("not-independent", "after %s on the %s the %s can no longer be walked (%s)" % (op, side, other, exc_name(e)),
                 ops=applied[-6:])
            break
        if now != fps[other]:
            fail("not-independent", "%s on the %s is visible through the %s: %s" % (
                op, side, other, first_diff(json.loads(fps[other]), json.loads(now))), ops=applied[-6:])
            break
        try:
            fps[side] = J(view(sides[side]))
        except Exception:
            break
    ctx.count("mutations", len(applied))
    # bound annotations of the copy follow the copy's attributes: set every bound attribute of the copy to a fresh value
    if not thin and not fails:
        for p in bound_direct(dendropy, src, cp, ns_ids if rclass == "scoped" else set(), fresh, own_only=shallow):
            fail("bound-annotation", p, stage="after-mutations")
    return fails


SETTABLE = ("label", "weight", "length", "age", "length_type", "name")


def bound_direct(dendropy, src, cp, allowed, fresh, own_only=False):
    """the independence clause judged directly on EVERY attribute-bound annotation reachable from the copy, whoever its owner is (the
    holder itself, an object the traversal visits earlier or later, the tree, a taxon):
      (1) its owner is not an object of the source, unless the route documents that object as shared (`allowed`: namespace + taxa);
      (2) changing the attribute on the copy's owner changes the value of the copy's annotation and moves no bound annotation of the source;
      (3) changing the attribute on a source owner moves no bound annotation of the copy.
    Every attribute is restored afterwards.  own_only (shallow routes): only the container's own annotations whose owner is the
    container (the members, and whatever else they own, are references by documentation)."""
    probs = []

    def is_bound(o):
        d = getattr(o, "__dict__", None)
        return type(o).__name__ == "Annotation" and isinstance(d, dict) and d.get("is_attribute") is True \
            and isinstance(d.get("_value"), tuple) and len(d["_value"]) == 2
    gs, _ = export(dendropy, [src])
    src_ids = set(okey(o) for o in gs.keep)
    if own_only:
        own = lambda o, me: [a for a in (o._annotations._item_list if "_annotations" in o.__dict__ else [])
                             if is_bound(a) and (a._value[0] is src or a._value[0] is cp)]
        cp_anns, src_anns = own(cp, cp), own(src, src)
    else:
        g, _ = export(dendropy, [cp])
        cp_anns = [o for o in g.keep if is_bound(o) and okey(o) not in src_ids]
        src_anns = [o for o in gs.keep if is_bound(o)]

    def val(a):
        try:
            return J(fp_value(a.value, {}))
        except Exception as e:
            return "raises:" + exc_name(e)
    for a in cp_anns:
        owner, attr = a._value
        if okey(owner) in src_ids and okey(owner) not in allowed:
            probs.append("the copy's bound annotation %r (attribute %r) is still bound to the SOURCE's %s: it does not follow the copy"
                         % (a.name, attr, type(owner).__name__))
    if probs:
        return sorted(set(probs))[:4]

    def fresh_value(attr):
        return ("follow%d" % fresh()) if attr in ("label", "name") else 1000.0 + fresh()
    for a in cp_anns[:80]:
        owner, attr = a._value
        if okey(owner) in allowed or attr not in SETTABLE:
            continue
        try:
            old = getattr(owner, attr)
        except Exception:
            continue
        before = [val(x) for x in src_anns]
        newv = fresh_value(attr)
        try:
            setattr(owner, attr, newv)
        except Exception:
            continue
        if val(a) != J(fp_value(newv, {})):
            probs.append("bound annotation %r of the copy does not follow the copy's attribute %r" % (a.name, attr))
        if [val(x) for x in src_anns] != before:
            probs.append("setting attribute %r on the copy changed the value of a bound annotation of the source" % attr)
        setattr(owner, attr, old)
    for a in src_anns[:80]:
        owner, attr = a._value
        if okey(owner) in allowed or attr not in SETTABLE:
            continue
        try:
            old = getattr(owner, attr)
        except Exception:
            continue
        before = [val(x) for x in cp_anns]
        try:
            setattr(owner, attr, fresh_value(attr))
        except Exception:
            continue
        if [val(x) for x in cp_anns] != before:
            probs.append("setting attribute %r on the source (owner of its bound annotation %r) changed the value of a bound "
                         "annotation of the copy" % (attr, a.name))
        setattr(owner, attr, old)
    return sorted(set(probs))[:4]


def max_depth(tree):
    best, stack = 0, [(tree._seed_node, 1)]
    while stack:
        nd, d = stack.pop()
        best = max(best, d)
        for c in nd._child_nodes:
            stack.append((c, d + 1))
    return best


def first_diff(a, b, path="$"):
    if type(a) != type(b):
        return "%s: %s vs %s" % (path, str(a)[:80], str(b)[:80])
    if isinstance(a, list):
        for i, (x, y) in enumerate(zip(a, b)):
            if x != y:
                return first_diff(x, y, "%s[%d]" % (path, i))
        if len(a) != len(b):
            return "%s: length %d vs %d" % (path, len(a), len(b))
        return "%s: equal?" % path
    if a != b:
        return "%s: %s vs %s" % (path, str(a)[:80], str(b)[:80])
    return "%s: equal?" % path


def render_thin(tree):
    """(taxonlabel|- len label edgelabel child ...) of the extracted tree, order revealing; + rooting/weight/label"""
    out = []
    stack = [(tree._seed_node, 0)]
    while stack:
        nd, st = stack.pop()
        if st:
            out.append(")")
            continue
        out.append("(%s %s %s %s" % ("-" if nd.taxon is None else hex6(nd.taxon._label), tu.frac(nd._edge.length),
                                     hex6(nd._label), hex6(nd._edge._label)))
        stack.append((nd, 1))
        for c in reversed(nd._child_nodes):
            stack.append((c, 0))
    return "".join(out)


def wellformed_problem(objs):
    """hypotheses `WellFormed` + `hann` of the Lean theorems, on the exported heap: references stay inside, annotation sets have
    a target and an item list, no annotation set is the target of another, `_annotations` of an annotation-aware object refers
    to an annotation set"""
    n = len(objs)

    def items_ok(k):
        d = dict(objs[k][2])
        v = d.get("_item_list")
        return v is not None and v[0] == "r" and v[1] < n
    for i, (kind, cls, fs) in enumerate(objs):
        d = dict(fs)
        for name, v in fs:
            if v[0] == "r" and not (0 <= v[1] < n):
                return "dangling reference in object %d" % i
        if kind == "S":
            if "target" not in d or not items_ok(i):
                return "annotation set %d without target or item list" % i
            t = d["target"]
            if t[0] == "r" and objs[t[1]][0] == "S":
                return "annotation set %d has an annotation set as target" % i
        if len(d) != len(fs):
            return "object %d has a repeated attribute name" % i
        if d.get("is_attribute") == ("a", "True"):
            # hypotheses of bound_annotation_follows: not an annotation set, `_value` a two-element tuple (ref owner, atom name)
            v = d.get("_value")
            ok = kind != "S" and v is not None and v[0] == "r"
            if ok:
                tk, tc, tfs = objs[v[1]]
                ok = tk == "T" and [n for n, _ in tfs] == ["#0", "#1"] and tfs[0][1][0] == "r" and tfs[1][1][0] == "a"
            if not ok:
                return "bound annotation %d whose _value is not an (owner, attribute name) tuple" % i
        if kind in ("A", "X", "N"):
            a = d.get("_annotations")
            if a is not None and a[0] == "r":
                if objs[a[1]][0] != "S" or not items_ok(a[1]):
                    return "_annotations of object %d is not an annotation set with an item list" % i
    return None


def model_line(rclass, rootval, pre, src_objs):
    toks = ["copy", enc_val(rootval), str(len(pre))]
    for i, tgt in pre:
        toks += [str(i), tgt]
    return " ".join(toks + enc_objs(src_objs))


def flush(ctx, pending):
    if not pending:
        return
    outs = ctx.ask([p[0] for p in pending])
    for (line, spec, got, aux), m in zip(pending, outs):
        if m is None:
            continue
        ctx.compared()
        if line.startswith("extract"):
            if m.strip() != got:
                ctx.disagree("extract", spec, got, m.strip())
            continue
        if got == "err":
            if not m.startswith("err"):
                ctx.disagree("copy", spec, "raises", m[:200])
            continue
        n_src, src_objs, n_own, real_changed, canon_base = aux
        objs, root = dec_model(m, n_src, src_objs)
        if objs is None:
            ctx.disagree("copy", spec, "\n".join(got)[:300], m[:200])
            continue
        want = canon(objs, root, canon_base)
        if want != got:
            d = [(a, b) for a, b in zip(got, want) if a != b][:2]
            ctx.disagree("copy", spec, str(d and d[0][0] or len(got))[:300], str(d and d[0][1] or len(want))[:300])
        # what copy_no_write* / copy_fresh / copy_memo_injective are about: the old objects and the memo of the model's run
        extra = dec_model.last_extra
        if extra["changed"] is None or extra["memo"] is None:
            ctx.disagree("copy-old", spec, "driver answer without changed/memo section", m[-80:])
            continue
        model_changed = [i for i in extra["changed"] if i < n_own]
        if model_changed != real_changed:
            ctx.disagree("copy-old", spec, "source objects changed by the real copy: %s" % (real_changed,),
                         "changed by the model: %s" % (model_changed,))
        tg = [j for i, j in extra["memo"] if j >= n_src]
        if len(set(tg)) != len(tg) or any(j >= len(objs) for i, j in extra["memo"]):
            ctx.disagree("copy-memo", spec, "-", "memo of the model's run is not injective on fresh targets or points outside the heap")
    del pending[:]


# ---------------------------------------------------------------------------------------------------------------------
def gen_spec(rng, quick):
    objkind = rng.choice(["tree"] * 5 + ["treelist"] * 2 + ["matrix"] * 3 + ["ns"])
    spec = {"obj": objkind, "route": rng.choice(ROUTES[objkind]), "seed": rng.getrandbits(40), "rich": rng.random() < 0.85,
            "max_leaves": rng.choice([1, 2, 3, 5, 8] if quick else [1, 2, 4, 8, 14, 25])}
    return spec


def clone_dispatch(ctx, dendropy):
    """which copy `clone(depth)` dispatches to, observed on the real `DataObject.clone` through a subclass that records the hook called,
    compared with the model's `cloneDepth` (tie A bridges it to the source as well)"""
    calls = []

    class Spy(dendropy.Tree):
        def __copy__(self):
            calls.append("shallow")
            return self

        def taxon_namespace_scoped_copy(self, memo=None):
            calls.append("scoped")
            return self

        def __deepcopy__(self, memo=None):
            calls.append("deep")
            return self
    sp = Spy()
    depths = [0, 1, 2, 3, 4, 11]
    real = []
    for d in depths:
        del calls[:]
        try:
            sp.clone(d)
            real.append(calls[0] if len(calls) == 1 else "calls:%s" % ",".join(calls))
        except TypeError:
            real.append("TypeError")
    outs = ctx.ask(["clone-depth %d" % d for d in depths])
    for d, r, m in zip(depths, real, outs):
        if m is None:
            continue
        ctx.compared()
        ctx.case(["clone-depth", d], False, kind="clone-depth")
        if m.strip() != r:
            ctx.disagree("clone-depth", {"obj": "clone-depth", "depth": d}, r, m.strip())
        want = {0: "shallow", 1: "scoped", 2: "deep"}.get(d)
        if want is not None and r != want:
            ctx.fail("clone-depth", "clone(%d) dispatches to %s, documented: %s" % (d, r, want), {"obj": "clone-depth", "depth": d, "documented": want})


def run(ctx):
    dendropy = __import__("dendropy")
    rng = ctx.rng
    ctx.set_budget(30, 600)
    pending = []
    clone_dispatch(ctx, dendropy)
    quick = ctx.tier != "thorough"
    # the recursion-depth probe (known-finding candidate): a caterpillar deeper than the interpreter can deep-copy
    depth = sys.getrecursionlimit() // 2
    run_case(ctx, dendropy, {"obj": "caterpillar", "route": "deepcopy", "seed": 1, "depth": depth, "depth_rule": "limit//2"})
    n = 0
    while not ctx.out_of_time() and n < ctx.pick(100000, 1000000):
        if ctx.tier == "thorough" and ctx.time_left() < 120:
            break
        run_case(ctx, dendropy, gen_spec(rng, quick), pending)
        n += 1
        if len(pending) >= 100:
            flush(ctx, pending)
    flush(ctx, pending)
    if ctx.tier == "thorough":
        count = 0
        for nl in range(1, 6):
            for shape in tu.all_shapes(nl):
                for route in ROUTES["tree"]:
                    for rich in (False, True):
                        if ctx.out_of_time():
                            break
                        run_case(ctx, dendropy, {"obj": "tree", "route": route, "seed": rng.getrandbits(40), "rich": rich,
                                                 "shape": shape, "mutations": 20}, pending)
                        count += 1
                if len(pending) >= 100:
                    flush(ctx, pending)
        flush(ctx, pending)
        ctx.extra["exhaustive_small_scope"] = ("every tree shape <= 5 leaves x every tree copy route x plain/decorated: %d cases, "
                                               "each with 20 later mutations" % count)


def search(ctx, broken):
    """obligations broke (generation of Gen/C12Copy.lean or Gen/C08Kernels.lean, a bridge theorem, a disagreement): look for an input
    on which the real code contradicts the statement, aimed at what the bridges cover - the attribute loops (objects with extra
    attributes and annotations on every level, deep routes), the depth dispatch of clone, re-targeting (bound annotations), the
    scoped seeding, and extraction through unifurcations"""
    dendropy = __import__("dendropy")
    rng = ctx.rng
    pending = []
    t_end = ctx.time_left() if hasattr(ctx, "time_left") else 30
    n = 0
    for objkind in ("tree", "treelist", "matrix", "ns"):
        for route in ROUTES[objkind]:
            for k in range(ctx.pick(6, 30)):
                if ctx.out_of_time() and n > 40:
                    break
                run_case(ctx, dendropy, {"obj": objkind, "route": route, "seed": rng.getrandbits(40), "rich": True,
                                         "max_leaves": rng.choice([2, 4, 6])}, pending)
                n += 1
            if len(pending) >= 100:
                flush(ctx, pending)
    # unifurcation chains through extract (the merge arithmetic) 
    for k in range(ctx.pick(20, 100)):
        shape = tu.rand_shape(rng, rng.randint(1, 5), p_poly=0.2, p_unary=0.5)
        run_case(ctx, dendropy, {"obj": "tree", "route": "extract", "seed": rng.getrandbits(40), "rich": False, "shape": shape}, pending)
    flush(ctx, pending)
    # clone depths outside 0..2 must be refused
    t = dendropy.Tree(taxon_namespace=dendropy.TaxonNamespace(["a"]))
    for d in (3, -1, 7):
        try:
            t.clone(d)
        except TypeError:
            continue
        except Exception as e:
            if not __import__("common").is_library_exception(e):
                raise
        ctx.fail("clone-depth", "clone(%d) is not refused with TypeError" % d, {"obj": "clone-depth", "depth": d})
    ctx.count("search_cases", n)


def replay(ctx, rec):
    dendropy = __import__("dendropy")
    spec = dict(rec["replay"])
    if spec.get("obj") == "clone-depth" and "documented" in spec:
        clone_dispatch(ctx, dendropy)
        return
    if spec.get("obj") == "clone-depth":
        t = dendropy.Tree(taxon_namespace=dendropy.TaxonNamespace(["a"]))
        try:
            t.clone(spec["depth"])
        except TypeError:
            return
        except Exception:
            pass
        ctx.fail("clone-depth", "clone(%d) is not refused with TypeError" % spec["depth"], spec)
        return
    for k in ("exception", "depth_class", "ops", "matrix_type", "stage"):
        spec.pop(k, None)
    if spec.get("obj") == "caterpillar" and spec.get("depth_rule") == "limit//2":
        spec["depth"] = sys.getrecursionlimit() // 2
    pending = []
    run_case(ctx, dendropy, spec, pending)
    flush(ctx, pending)
