"""C01 - bipartition encoding is exact, canonical and sufficient to rebuild the topology."""
import itertools

import treeutil as tu

ID = "C01"
GEN_DEPENDS = ["PyBits", "C01Kernels"]
RULE = ("random rose trees 1-12 leaves (40 in thorough) built through the Node API over namespaces with extra members, removed "
        "members (holes, incl. bit 0) and shuffled taxon->bit assignment, unary nodes and polytomies, occasionally taxon-less leaves, "
        "in 30% of the tree/build/nsmask cases the namespace is a COPY (TaxonNamespace(other), copy.copy, clone(0/1/2), deepcopy, "
        "taxon_namespace_scoped_copy, pickle round trip; + new taxa added to the copy) of a namespace that was beforehand sorted / reversed / "
        "shuffled / shrunk / had members re-added / had bitmasks cached by taxon_bitmask, taxa_bitmask or an encoding of a tree on a subset, "
        "trees built in the copy or migrated through the source; every copy's taxon->bit assignment is read once per member through "
        "taxon_bitmask and must be distinct single bits agreeing with accession_index / all_taxa_bitmask / bitmask_taxa_list (else a "
        "clause-(a) failure replayed from the recipe), then all judges run as before; "
        "three rooting states x encode flags x entry points (encode_/update_bipartitions, encode_/update_splits, mutable, "
        "suppress_storage); pairs (re-drawn: children shuffled, unifurcations inserted, unrooted re-seeded by an independent graph "
        "re-rooting; one leaf regrafted; different shape) each encoded under independent flags; rebuilds from shuffled encodings "
        "and from arbitrary split lists; predicate triples on raw integers (negative and > 2^64 included) and on Bipartition objects "
        "compiled in both rooting states and taken from real encodings; Bipartition objects compiled from RAW leafsets reaching outside "
        "the tree leafset (op bip: stored leafset, split, is_nested_within x2, normalize x2, compatible, trivial, leafset-nested) and "
        "mutable bipartitions changed and recompiled (compile_bipartition); indexes_of_set_bits x flags; namespace masks up to 70 "
        "accessions with holes; query-edit-query histories; HISTORIES of explicit encodings (any flags), node-API edits and "
        "compatibility queries with both values of is_bipartitions_updated, answer and tree compared after every step (op hist); "
        "MAINTAINED encodings (op maintained): encode under any flags incl. mutable, optionally touch the edge maps, then 1-4 operations "
        "that offer update_bipartitions=True (suppress_unifurcations, prune/retain taxa (objects, labels), prune_subtree, "
        "prune_leaves_without_taxa, reseed_at, reroot_at_node/_edge/_midpoint, to_outgroup_position, collapse_unweighted_edges, "
        "collapse_basal_bifurcation, resolve_polytomies, randomly_reorient, node/edge edits + update_bipartitions) on trees with "
        "frequent unifurcations; after EVERY operation the stored encoding (same objects as the edges', one per edge, no leftovers), "
        "per-edge leafset/split/leafset_taxa and both edge maps are judged by a from-scratch walk and the model is asked for `encode` of "
        "the tree as it stands; finally the tree rebuilt from the stored encoding (shuffled) must have the topology. Every case is a "
        "self-contained description (tokens, namespace bits, flags, steps) that the judge re-reads, so every failure replays from its "
        "own record. Non-trivial = tree with >= 4 leaves and >= 1 internal edge (encode/pairs/rebuild/hist/maintained with >= 1 applied "
        "operation) or masks that are neither 0 nor full (predicates)")
MODELLED_NOT_VERIFIED = [
    "C01: encode_bipartitions / from_split_bitmasks are hand-modelled (lean/DendroModel/Model/{TreeOps,C01,C01Ext,Hier}.lean) and tied "
    "to the code by the correspondence on generated trees; the four integer functions are regenerated from source (Gen/PyBits.lean) and "
    "so are the closed-form kernels inside the anchored methods (Gen/C01Kernels.lean: nesting tests, normalize conventions, "
    "compile_split dispatch, collapse/suppress conditions, OR accumulation, head filter and the four insertion tests of "
    "from_split_bitmasks, re-encode condition, namespace masks, the set_bit_index_iter loop) - each proved equal to the model's "
    "hand-written definition (theorems kernel_*); the control flow AROUND the kernels (loops over edges/children, object plumbing) is "
    "hand-modelled",
    "C01: the mutable Bipartition object protocol (is_mutable assertions, hashing by split mask) is exercised by the oracle only; the "
    "restructuring operations of op `maintained` other than suppress_unifurcations(update_bipartitions=True) are not modelled (the model is asked for `encode` of the "
    "tree each of them leaves behind); of the edge-map caches only the content rebuilt on access is modelled (edgeMap), not the cache state; `ordination_in_mask` of set_bit_index_iter is modelled and compared, not proved",
]
EXPLANATION = ("Theorems over all masks/trees, about the driver's own definitions. (a,b) encode_pairs_spec: every pair of `encode` is a node's "
               "leafset mask and its rooted / LSB-normalised split; encode_one_pair_per_node: as a multiset, exactly one pair per node of the "
               "tree the encoder leaves (multiplicity); indexes_of_set_bits_spec/_mem: the set-bit enumeration behind leafset_taxa (a while "
               "loop, modelled with fuel) returns exactly the set bits, increasing. (c) rooted: encode_rooted_iff_topology (equal split sets <-> same topology up "
               "to child order and unifurcations, any flags). (c) unrooted, every seed position: encode_unrooted_iff_topology (equal split sets "
               "of `encode` <-> Iso of the canonical re-seedings `canonU` at the lowest leaf, >= 3 taxa; canonU is executable, printed by the driver "
               "and compared with the oracle's graph canonical form), backed by Bridge.canonU_spec (every well-formed tree reaches the canonical "
               "seed position by edge inversions + suppression, each keeping the normalised split set), encode_unrooted_invariant_under_inversion, "
               "encode_unrooted_invariant / _flags_invariant, encode_unrooted_eq_usplits, encode_none_eq_unrooted; ucanon_uses_lowest_taxon ties the "
               "driver's lowIdx to that k; ucanonT_eq_iff_iso / ucanonT_eq_iff_same_splits(_all): the canonical TREE the driver prints for op "
               "ucanon2 (re-seeded at the lowest leaf, children in mask order) is equal for two trees iff their re-seedings are Iso iff "
               "their split sets are equal - for any number of taxa (encode_unrooted_iff_topology_all: < 3 taxa via Bridge.small_shape); "
               "ucanon_eq_of_iso: the order-free string of op ucanon is invariant too (its injectivity, and that of Hier.render, stay trusted). (d) rebuild_rooted_topology and "
               "rebuild_unrooted_topology (the tree `build` makes of `encode`'s split masks in any order/multiplicity is the encoded topology, has "
               "no unifurcation; both ASSUME members = the tree's taxa, all-bits mask may be larger; the unrooted head filter's complement-on-bit-0 "
               "path provably never fires on an encoding), rebuild_unrooted_small (< 3 taxa: every split is dropped by the head filter, the result is "
               "the star over ANY member list, Iso to the tree when members = taxa), rebuild_rooted_extras (rooted, namespace with extra members: Iso to the encoded tree "
               "plus the absent members under a new root), rebuild_unrooted_extras (unrooted, any member list containing the taxa, extras or not: Iso to the reference tree "
               "(lowest leaf k, absent members, ONE child = canonU k of the encoded tree with leaf k taken out of its seed) - the absent members sit on the lowest "
               "leaf's edge; the former _partial is now rebuild_unrooted_extras_clades: Good, NoUnif, exact clade set), "
               "build_rooted_clades. (e) is_trivial_sets, is_compatible_sets, "
               "is_compatible_four_quadrants, is_compatible_unrooted_raw (two raw unrooted leafsets, normalised then tested <-> four-quadrant), "
               "is_nested_sets, tree_compatible_rooted_sets / _unrooted_sets (Tree.is_compatible_with_bipartition with default flags = "
               "compatibility with the bipartition of EVERY edge). Histories (hstep/hrun, the driver's op hist): history_default_query_is_fresh "
               "(after ANY history of encodings, edits and queries a default query re-encodes and answers for the tree as it stands), "
               "history_default_query_rooted_sets / _unrooted_sets (that answer as the set condition over every edge), "
               "history_updated_query_uses_stored (is_bipartitions_updated=True answers from the stored pairs, whatever the tree is now), "
               "history_edit_and_encode; encode_twice_same_splits (a second encoding, any flags, of the tree a first one leaves has the same split SET - the tree may change again) and "
               "history_updated_query_after_encode_is_fresh (encode, then is_bipartitions_updated=True: the answer of a fresh default query; Good preserved by the encoder: Aux.encodeTree_good). "
               "Maintained encoding with edge identity (recsPost/encodeIds/suppressMaint/edgeMap, driver op maint): suppress_maintained (encode without suppression, then "
               "suppress_unifurcations(update_bipartitions=True): the stored list is exactly the id-tagged encoding of the edited tree - pruning is by identity; no Good hypothesis, "
               "taxon-less leaves included), edgeMap_keys (keys of the rebuilt split_bitmask_edge_map = the stored splits). Clauses that need no Good (hold with taxon-less leaves): mask_spec, "
               "split_spec, encode_pairs_spec, encode_one_pair_per_node, suppress_maintained, kernel_*, history_default_query_is_fresh; (c), (d) and the set form of (e) need Good. Tie A, second part: kernel_* (13 theorems) prove every kernel regenerated from inside the anchored "
               "methods equal to the model's definition. Underneath: refinement of the generated integer functions, mask_spec, "
               "split_spec, norm_sets, ins_spec/build_spec. Not proved: clauses (c),(d) for trees with taxon-less leaves (not Good); the restructuring operations other than "
               "suppress_unifurcations that maintain an encoding (prune/reseed/reroot...: oracle judges the stored encoding after every operation); the edge-map "
               "cache as STATE (only its rebuilt content is modelled); ordination_in_mask - correspondence + oracle only.")


# ------------------------------------------------------------------ independent oracles
def graph(tree):
    """undirected adjacency over node objects + leaf taxon bits"""
    tns = tree.taxon_namespace
    adj, bit = {}, {}
    for nd in tu.walk(tree.seed_node):
        adj.setdefault(id(nd), [])
        for c in nd._child_nodes:
            adj[id(nd)].append(id(c))
            adj.setdefault(id(c), []).append(id(nd))
        if not nd._child_nodes and nd.taxon is not None:
            bit[id(nd)] = tu.bit_of(tns, nd.taxon)
    return adj, bit


def canon_from(adj, bit, v, parent, extra_at=None, extras=()):
    """sorted nested form of the component hanging below v (coming from parent); degree-2 vertices suppressed;
    taxon-less dead ends dropped; `extras` (bits) are attached as leaves at vertex `extra_at`"""
    kids = [w for w in adj[v] if w != parent]
    forms = []
    if v in bit:
        forms.append("t%d" % bit[v])
    for w in kids:
        f = canon_from(adj, bit, w, v, extra_at, extras)
        if f is not None:
            forms.append(f)
    if v == extra_at:
        forms.extend("t%d" % e for e in extras)
    if not forms:
        return None
    if len(forms) == 1:
        return forms[0]
    return "(" + ",".join(sorted(forms)) + ")"


def with_extras(tree, extras, unrooted, at_node=False):
    """graph of the tree the rebuild is expected to produce: absent namespace members hang from a new root vertex;
    rooted: together with the old seed; unrooted: together with the lowest leaf and the rest of the tree (the lowest
    leaf's own split, normalised, is the clade 'everything else on the tree', so the rest stays together).
    The statement does not dictate where absent members go on an unrooted tree beyond "no split that the encoding does
    not induce": `at_node=True` is the other placement with that property - directly at the node the lowest leaf hangs
    from (what a rebuild that does not insert the lowest leaf's own split would give); the judge accepts either."""
    adj, bit = graph(tree)
    adj = {v: list(ws) for v, ws in adj.items()}
    root = id(tree.seed_node)
    if not extras:
        return adj, bit, root
    R = -1
    adj[R] = []
    for k, e in enumerate(extras):
        v = -2 - k
        adj[v] = [R]
        adj[R].append(v)
        bit[v] = e
    if unrooted and bit and at_node:
        tree_leaves = [v for v in bit if v >= 0]
        low = min(tree_leaves, key=lambda v: bit[v])
        prev, cur = low, (adj[low][0] if adj[low] else low)
        while cur != low and len(adj[cur]) == 2:      # through unifurcations to the first real node
            nxt = [w for w in adj[cur] if w != prev][0]
            prev, cur = cur, nxt
        for v in list(adj[R]):
            adj[v] = [cur]
            adj[cur].append(v)
        del adj[R]
        R = cur
    elif unrooted and bit:
        tree_leaves = [v for v in bit if v >= 0]
        low = min(tree_leaves, key=lambda v: bit[v])
        if adj[low]:
            nb = adj[low][0]
            adj[low].remove(nb)
            adj[nb].remove(low)
            adj[nb].append(R)
            adj[R].append(nb)
        adj[low].append(R)
        adj[R].append(low)
    else:
        adj[root].append(R)
        adj[R].append(root)
    return adj, bit, R


def canon_rooted_g(adj, bit, root):
    return canon_from(adj, bit, root, None)


def canon_unrooted_g(adj, bit):
    """canonical form of the unrooted tree: rooted AT the leaf with the lowest taxon bit, degree-2 vertices suppressed"""
    if not bit:
        return None
    low = min(bit, key=lambda v: bit[v])
    parts = ["t%d" % bit[low]]
    for w in adj[low]:
        f = canon_from(adj, bit, w, low)
        if f is not None:
            parts.append(f)
    if len(parts) == 1:
        return parts[0]
    return "(" + ",".join(sorted(parts)) + ")"


def canon_rooted(tree, extras=()):
    adj, bit, root = with_extras(tree, extras, False)
    return canon_rooted_g(adj, bit, root)


def canon_unrooted(tree, extras=(), at_node=False):
    adj, bit, _ = with_extras(tree, extras, True, at_node)
    return canon_unrooted_g(adj, bit)


def ucanon_py(tree):
    """the unrooted topology as the model prints it (driver op `ucanon`): seeded at the node the lowest leaf hangs from,
    degree-2 vertices suppressed, children sorted as strings - computed on the adjacency graph, rooted AT the lowest leaf"""
    adj, bit = graph(tree)
    if not bit:
        return None
    low = min(bit, key=lambda v: bit[v])

    def form(v, parent):
        forms = [str(bit[v])] if v in bit else []
        for w in adj[v]:
            if w != parent:
                f = form(w, v)
                if f is not None:
                    forms.append(f)
        if not forms:
            return None
        return forms[0] if len(forms) == 1 else "(" + ",".join(sorted(forms)) + ")"
    rest = [f for f in (form(w, low) for w in adj[low]) if f is not None]
    k = str(bit[low])
    if not rest:
        return k
    parts = split_top(rest[0]) if rest[0].startswith("(") else [rest[0]]
    return "(" + ",".join(sorted(parts + [k])) + ")"


def ucanon2_py(tree):
    """the model's `ucanonT` (driver op `ucanon2`) from the adjacency graph: rooted at the node the lowest leaf hangs from,
    degree-2 vertices suppressed, children in increasing order of leafset mask, printed structurally"""
    adj, bit = graph(tree)
    if not bit:
        return None
    low = min(bit, key=lambda v: bit[v])

    def form(v, parent):
        """(mask, text, children) of the component below v"""
        kids = [(1 << bit[v], str(bit[v]), None)] if v in bit else []
        for w in adj[v]:
            if w != parent:
                f = form(w, v)
                if f is not None:
                    kids.append(f)
        if not kids:
            return None
        if len(kids) == 1:
            return kids[0]
        kids.sort(key=lambda f: f[0])
        return (sum(f[0] for f in kids), "(" + ",".join(f[1] for f in kids) + ")", kids)
    rest = [f for f in (form(w, low) for w in adj[low]) if f is not None]
    me = (1 << bit[low], str(bit[low]), None)
    if not rest:
        return me[1]
    parts = (rest[0][2] if rest[0][2] is not None else [rest[0]]) + [me]
    parts.sort(key=lambda f: f[0])
    return "(" + ",".join(f[1] for f in parts) + ")"


def split_top(s):
    """top-level comma split of '(a,b,(c,d))'"""
    assert s[0] == "(" and s[-1] == ")"
    out, depth, cur = [], 0, ""
    for ch in s[1:-1]:
        if ch == "," and depth == 0:
            out.append(cur)
            cur = ""
            continue
        depth += ch == "("
        depth -= ch == ")"
        cur += ch
    out.append(cur)
    return out


def bits_of(m):
    return {i for i in range(m.bit_length()) if (m >> i) & 1}


def quadrants_empty(A, B, F):
    return (not (A & B)) or (not (A - B)) or (not (B - A)) or (not (F - (A | B)))


# ------------------------------------------------------------------ generators
P_COPY = 0.3


def make_ns(dendropy, rng, total, holes, p_copy=None):
    """the namespace of a case: made directly, or (p_copy) a COPY - by any copy route - of a namespace that was sorted, reversed,
    shrunk, re-grown and had bitmasks cached beforehand (`gen_recipe`); a copy with a broken bit assignment raises NamespaceBroken"""
    if rng.random() < (P_COPY if p_copy is None else p_copy):
        return checked_copy(dendropy, gen_recipe(rng, total, holes))
    return tu.make_namespace(dendropy, 0, labels=["t%d" % i for i in range(total)], holes=holes)


def gen_tree(dendropy, rng, max_leaves, hole_rate=0.3):
    n = rng.randint(1, max_leaves)
    extra = rng.randint(0, 3)
    nholes = rng.randint(0, 2) if rng.random() < hole_rate else 0
    total = n + extra + nholes
    holes = sorted(rng.sample(range(total), nholes))
    if nholes and rng.random() < 0.5:
        holes[0] = 0
        holes = sorted(set(holes))
    tns = make_ns(dendropy, rng, total, holes)
    members = list(tns)
    n = min(n, len(members))
    r = rng.random()
    if r < 0.1:
        shape = rng.choice(tu.shape_families(n))
    else:
        shape = tu.rand_shape(rng, n, p_poly=rng.choice([0.0, 0.25, 0.5]), p_unary=rng.choice([0.0, 0.1, 0.25]))
    taxa = rng.sample(members, n)
    copied = getattr(tns, "_verif_recipe", None) is not None
    if rng.random() < 0.15 and not copied:
        rng.shuffle(tns._taxa)   # membership order is independent of bits
    lens = (lambda: tu.dyadic(rng, none_rate=0.2)) if rng.random() < 0.7 else None
    rooted = rng.choice([True, False, None])
    tree = tu.build_tree(dendropy, shape, tns, taxa, lens, rooted)
    tree._verif_migrate = copied and rng.random() < 0.3
    return tree


def redraw(dendropy, rng, tree, unrooted):
    """an independently constructed tree with the same (un)rooted topology: shuffled children, inserted unifurcations,
    and (unrooted) a different seed position, built from the adjacency graph - never through reseed_at"""
    adj, bit = graph(tree)
    tns = tree.taxon_namespace
    by_bit = {tns.accession_index(t): t for t in tns}
    verts = list(adj)
    root = id(tree.seed_node)
    if unrooted and len(verts) > 1:
        internal = [v for v in verts if v not in bit]
        root = rng.choice(internal or verts)

    def go(v, parent):
        nd = dendropy.Node()
        if v in bit:
            nd.taxon = by_bit[bit[v]]
        kids = [w for w in adj[v] if w != parent]
        rng.shuffle(kids)
        for w in kids:
            c = go(w, v)
            if rng.random() < 0.15:
                u = dendropy.Node()
                u.add_child(c)
                c = u
            nd.add_child(c)
        return nd
    if root in bit and adj[root]:
        # a leaf cannot be the seed of a tree that keeps its taxon on a leaf: hang it under a fresh seed
        seed = dendropy.Node()
        leaf = dendropy.Node()
        leaf.taxon = by_bit[bit[root]]
        seed.add_child(leaf)
        for w in adj[root]:
            seed.add_child(go(w, root))
    else:
        seed = go(root, None)
    t = dendropy.Tree(taxon_namespace=tns, seed_node=seed)
    t.is_rooted = tree.is_rooted
    return t


def nontrivial_tree(tree):
    nodes = tu.walk(tree.seed_node)
    leaves = [n for n in nodes if not n._child_nodes]
    internal = [n for n in nodes if n._child_nodes and n is not tree.seed_node]
    return len(leaves) >= 4 and len(internal) >= 1


ROOT = {True: "R", False: "U", None: "N"}
UNROOT = {"R": True, "U": False, "N": None}


def nested_or_disjoint(A, B):
    return (not (A & B)) or A <= B or B <= A


class NamespaceBroken(Exception):
    """the taxon -> bit assignment of a namespace (as read through its public API) is not an assignment of distinct bits:
    a failure of clause (a) of the statement, reported by `judge`, never a harness crash"""
    def __init__(self, what, recipe=None):
        Exception.__init__(self, what)
        self.what, self.recipe = what, recipe


COPY_ROUTES = ("ctor", "copy", "clone0", "clone1", "clone2", "deepcopy", "scoped", "pickle")
PREP_KINDS = ("sort", "rsort", "reverse", "shuffle", "remove", "readd", "new", "bitmask", "taxa_bitmask", "encode_subset")


def namespace_problems(tns):
    """the taxon -> bit assignment read once per member through the public `taxon_bitmask`: single bits, pairwise distinct,
    agreeing with `accession_index`, inside `all_taxa_bitmask`, and mapped back to the same taxon by `bitmask_taxa_list`"""
    probs, seen = [], {}
    try:
        allm = tns.all_taxa_bitmask()
    except Exception as e:
        return ["all_taxa_bitmask raised %s: %s" % (type(e).__name__, str(e)[:80])]
    for t in list(tns):
        try:
            m = tns.taxon_bitmask(t)
        except Exception as e:
            probs.append("taxon_bitmask(%s) raised %s: %s" % (t.label, type(e).__name__, str(e)[:80]))
            continue
        if not isinstance(m, int) or m <= 0 or m & (m - 1):
            probs.append("taxon_bitmask(%s) = %r is not a single bit" % (t.label, m))
            continue
        if m in seen:
            probs.append("taxa %s and %s share bit %d" % (seen[m], t.label, m.bit_length() - 1))
        seen.setdefault(m, t.label)
        if m & ~allm:
            probs.append("bit %d of %s lies outside all_taxa_bitmask %d" % (m.bit_length() - 1, t.label, allm))
        try:
            idx = tns.accession_index(t)
            if (1 << idx) != m:
                probs.append("taxon_bitmask(%s) = bit %d but accession_index = %d" % (t.label, m.bit_length() - 1, idx))
            back = tns.bitmask_taxa_list(m)
            if len(back) != 1 or back[0] is not t:
                probs.append("bitmask_taxa_list(bit %d) = %s, expected [%s]" % (m.bit_length() - 1, [x.label for x in back], t.label))
        except Exception as e:
            probs.append("accession_index / bitmask_taxa_list for %s raised %s: %s" % (t.label, type(e).__name__, str(e)[:80]))
    return probs


def namespace_from_recipe(dendropy, recipe):
    """source namespace t0..t(n-1) minus `holes`, then the recorded preparation (sort / reverse / shuffle / removals /
    re-additions / new taxa / bitmask-cache population incl. an encoding of a tree on a subset), then ONE copy by the recorded
    route, then `post` new taxa added to the copy.  Returns (copy, source)."""
    import copy as _copy
    import pickle as _pickle
    import random as _r
    src = dendropy.TaxonNamespace(["t%d" % i for i in range(recipe["n"])], label="src")
    for h in sorted(recipe["holes"], reverse=True):
        src.remove_taxon(src[h])
    fresh = 0
    for op in recipe["prep"]:
        kind, a, b = op
        members = list(src)
        if kind == "sort":
            src.sort()
        elif kind == "rsort":
            src.sort(reverse=True)
        elif kind == "reverse":
            src.reverse()
        elif kind == "shuffle":
            _r.Random(a).shuffle(src._taxa)
        elif kind == "remove":
            if len(members) > 2:
                src.remove_taxon(members[a % len(members)])
        elif kind == "readd":
            if len(members) > 2:
                t = members[a % len(members)]
                src.remove_taxon(t)
                src.add_taxon(t)
        elif kind == "new":
            src.new_taxon(label="n%d" % fresh)
            fresh += 1
        elif kind == "bitmask":
            src.taxon_bitmask(members[a % len(members)])
        elif kind == "taxa_bitmask":
            rr = _r.Random(a)
            src.taxa_bitmask(taxa=rr.sample(members, rr.randint(1, len(members))))
        elif kind == "encode_subset":
            rr = _r.Random(a)
            sub = rr.sample(members, min(len(members), 2 + b % 4))
            tr = dendropy.Tree(taxon_namespace=src)
            for t in sub:
                tr.seed_node.new_child(taxon=t)
            tr.encode_bipartitions()
        else:
            raise ValueError("unknown namespace preparation %r" % (kind,))
    route = recipe["route"]
    if route == "ctor":
        cp = dendropy.TaxonNamespace(src)
    elif route == "copy":
        cp = _copy.copy(src)
    elif route in ("clone0", "clone1", "clone2"):
        cp = src.clone(int(route[-1]))
    elif route == "deepcopy":
        cp = _copy.deepcopy(src)
    elif route == "scoped":
        cp = src.taxon_namespace_scoped_copy()
    elif route == "pickle":
        cp = _pickle.loads(_pickle.dumps(src))
    else:
        raise ValueError("unknown copy route %r" % (route,))
    for k in range(recipe.get("post", 0)):
        cp.new_taxon(label="p%d" % k)
    cp._verif_recipe = recipe
    cp._verif_source = src
    return cp, src


def checked_copy(dendropy, recipe):
    import common
    try:
        cp, src = namespace_from_recipe(dendropy, recipe)
    except Exception as e:
        if not common.is_library_exception(e):
            raise
        raise NamespaceBroken("copying the namespace (%s after %s) raised %s: %s" % (
            recipe["route"], [o[0] for o in recipe["prep"]], type(e).__name__, str(e)[:120]), recipe)
    probs = namespace_problems(cp)
    if probs:
        raise NamespaceBroken("namespace obtained by %s after %s: %s" % (recipe["route"], [o[0] for o in recipe["prep"]], "; ".join(probs[:4])), recipe)
    return cp


def gen_recipe(rng, n, holes):
    prep = []
    for _ in range(rng.choice([0, 1, 1, 2, 2, 3, 4])):
        prep.append([rng.choice(PREP_KINDS), rng.randrange(10 ** 6), rng.randrange(10 ** 6)])
    if rng.random() < 0.6:       # the classic: cache some bitmasks, last
        prep.append([rng.choice(["bitmask", "taxa_bitmask", "encode_subset"]), rng.randrange(10 ** 6), rng.randrange(10 ** 6)])
    return {"n": n, "holes": list(holes), "prep": prep, "route": rng.choice(COPY_ROUTES), "post": rng.choice([0, 0, 0, 1, 2])}


def namespace_desc(tns):
    d = {"bits": [tns.accession_index(t) for t in tns], "count": tns._current_accession_count}
    if getattr(tns, "_verif_recipe", None) is not None:
        d["recipe"] = tns._verif_recipe
    return d


def namespace_for(dendropy, ns):
    """a fresh namespace with the recorded member bits (holes included) in the recorded member order; a namespace recorded with a
    copy recipe is rebuilt by that recipe (source, preparation, copy route) and its bit assignment re-validated"""
    if ns.get("recipe") is not None:
        return checked_copy(dendropy, ns["recipe"])
    tns = dendropy.TaxonNamespace(["t%d" % i for i in range(ns["count"])])
    keep = set(ns["bits"])
    for t in list(tns):
        if tns.accession_index(t) not in keep:
            tns.remove_taxon(t)
    order = {b: i for i, b in enumerate(ns["bits"])}
    tns._taxa.sort(key=lambda t: order[tns.accession_index(t)])
    return tns


def tree_for_case(dendropy, case, key="tree", tns=None):
    """rebuild the real tree of a recorded case through the Node API"""
    tns = tns or namespace_for(dendropy, case["ns"])
    tree, ids = tu.tree_from_tokens(dendropy, case[key], rooted=UNROOT[case["rooted"]], tns=tns)
    src = getattr(tns, "_verif_source", None)
    if case.get("migrate") and src is not None and src is not tns and key == "tree":
        # the tree visits the source namespace and is migrated (taxa unified by label) into the copy
        tree.migrate_taxon_namespace(src)
        tree.migrate_taxon_namespace(tns)
    return tree, ids


def tree_case(tree, op, **more):
    toks, _ = tu.encode_tree(tree, with_labels=False)
    case = {"op": op, "tree": toks, "rooted": ROOT[tree.is_rooted], "ns": namespace_desc(tree.taxon_namespace)}
    if getattr(tree, "_verif_migrate", False):
        case["migrate"] = True
    case.update(more)
    return case


# ------------------------------------------------------------------ judges: one per op, each reads a self-contained case
def judge_pyint(ctx, dendropy, case, pending):
    from dendropy.datamodel.treemodel._bipartition import Bipartition
    from dendropy.utility import bitprocessing
    a, b, k = case["a"], case["b"], case["k"]
    got = "%d %d %d %d %d %d %d" % (a & b, a | b, a ^ b, ~a, a << k, Bipartition.normalize_bitmask(a, b, k),
                                    bitprocessing.least_significant_set_bit(a))
    ctx.case(["pyint", a, b, k], a not in (0, -1) and b not in (0, -1), kind="pyint")
    pending.append(("pyint %d %d %d" % (a, b, k), case, got))


def judge_bitfunction(ctx, dendropy, case, pending):
    """lowest set bit / normalisation against their meaning on sets (used by search() and by replays of its findings)"""
    from dendropy.datamodel.treemodel._bipartition import Bipartition
    from dendropy.utility import bitprocessing
    if case["op"] == "lsb":
        n = case["n"]
        if bitprocessing.least_significant_set_bit(n) != (n & -n):
            ctx.fail("bitfunction", "least_significant_set_bit(%d) = %d, lowest set bit is %d" % (
                n, bitprocessing.least_significant_set_bit(n), n & -n), case)
        return
    a, fill = case["a"], case["fill"]
    A, F = bits_of(a), bits_of(fill)
    got = Bipartition.normalize_bitmask(a, fill, fill & -fill)
    want = sum(1 << i for i in ((F - A) if min(F) in A else A))
    if got != want:
        ctx.fail("bitfunction", "normalize_bitmask(%d, %d, %d) = %d, expected %d" % (a, fill, fill & -fill, got, want), case)


def judge_pred(ctx, dendropy, case, pending, count=True):
    """clause (e) on integers and on Bipartition objects compiled from them.
    Set-theoretic definitions used by the oracle (A, B leafsets inside the tree leafset F):
      trivial            one side of A | F-A has at most one taxon
      compatible         rooted bipartitions are clades: A, B disjoint or nested;
                         unrooted bipartitions are splits: one of A&B, A-B, B-A, F-(A|B) is empty
      leafset nested     A is a subset of B
    The static `is_compatible_bitmasks` receives masks, not bipartitions: on masks inside F it is judged as clades
    (disjoint or nested) - the definition for rooted split masks, and equal to the four-quadrant one on every pair of
    normalised unrooted split masks (both avoid the lowest taxon, so F-(A|B) is never empty)."""
    from dendropy.datamodel.treemodel._bipartition import Bipartition
    a, b, fill = case["a"], case["b"], case["fill"]
    got = "%d %d" % (int(bool(Bipartition.is_trivial_bitmask(a, fill))), int(bool(Bipartition.is_compatible_bitmasks(a, b, fill))))
    nested = None
    if fill >= 0 and a >= 0:
        b1 = Bipartition(leafset_bitmask=a, tree_leafset_bitmask=fill, compile_bipartition=False)
        nested = int(bool(b1.is_leafset_nested_within(b)))
    if count:
        ctx.case(["pred", a, b, fill], a not in (0, fill) and b not in (0, fill), sample=case, kind="pred")
    pending.append(("pred %d %d %d" % (a, b, fill), case, got + (" %d" % nested if nested is not None else " ?")))
    if not (fill > 0 and 0 <= a and 0 <= b and (a & ~fill) == 0 and (b & ~fill) == 0):
        return      # outside the domain the statement speaks about: correspondence with the model only
    A, B, F = bits_of(a), bits_of(b), bits_of(fill)
    low = min(F)
    want_triv = len(A) <= 1 or len(F - A) <= 1
    if bool(Bipartition.is_trivial_bitmask(a, fill)) != want_triv:
        ctx.fail("predicate", "is_trivial_bitmask(%d, %d) = %s but the split has sides of %d and %d taxa" % (
            a, fill, not want_triv, len(A), len(F - A)), case)
    want = nested_or_disjoint(A, B)
    if bool(Bipartition.is_compatible_bitmasks(a, b, fill)) != want:
        ctx.fail("predicate", "is_compatible_bitmasks(%d,%d,%d) = %s; as taxon sets %s / %s are %s" % (
            a, b, fill, not want, sorted(A), sorted(B), "disjoint or nested" if want else "overlapping, neither nested"), case)
    if nested is not None and bool(nested) != (A <= B):
        ctx.fail("predicate", "is_leafset_nested_within: leafset %d within %d (fill %d) = %s" % (a, b, fill, bool(nested)), case)
    for rooted in (True, False):
        x = Bipartition(leafset_bitmask=a, tree_leafset_bitmask=fill, is_rooted=rooted, compile_bipartition=True)
        y = Bipartition(leafset_bitmask=b, tree_leafset_bitmask=fill, is_rooted=rooted, compile_bipartition=True)
        ws = a if rooted else (sum(1 << i for i in (F - A)) if low in A else a)
        if x.leafset_bitmask != a or x.split_bitmask != ws:
            ctx.fail("predicate", "Bipartition(leafset=%d, tree leafset=%d, rooted=%s) compiled to leafset %s / split %s, expected %d / %d" % (
                a, fill, rooted, x.leafset_bitmask, x.split_bitmask, a, ws), case)
            continue
        want = nested_or_disjoint(A, B) if rooted else quadrants_empty(A, B, F)
        if bool(x.is_compatible_with(y)) != want:
            ctx.fail("predicate", "is_compatible_with = %s for %s bipartitions with leafsets %s / %s of %s; the set definition says %s" % (
                not want, "rooted" if rooted else "unrooted", sorted(A), sorted(B), sorted(F), want), case)
        if bool(x.is_incompatible_with(y)) == want:
            ctx.fail("predicate", "is_incompatible_with is not the negation of the set-theoretic compatibility (leafsets %s / %s of %s, rooted=%s)" % (
                sorted(A), sorted(B), sorted(F), rooted), case)
        if bool(x.is_trivial()) != want_triv:
            ctx.fail("predicate", "Bipartition.is_trivial() = %s for sides of %d and %d taxa (rooted=%s)" % (
                not want_triv, len(A), len(F - A), rooted), case)
        if bool(x.is_leafset_nested_within(y)) != (A <= B):
            ctx.fail("predicate", "is_leafset_nested_within = %s for %s within %s (rooted=%s)" % (A > B, sorted(A), sorted(B), rooted), case)


ENCODE_VARIANTS = 6


def run_encode(tree, sup, col, variant=0):
    """variant: 0 encode_bipartitions, 1 update_bipartitions (alias), 2 mutable bipartitions, 3 suppress_storage,
    4 encode_splits, 5 update_splits (deprecated aliases).  Returns the sorted (leafset, split) pairs of the encoding."""
    kw = dict(suppress_unifurcations=sup, collapse_unrooted_basal_bifurcation=col)
    if variant == 1:
        tree.update_bipartitions(**kw)
    elif variant == 2:
        tree.encode_bipartitions(is_bipartitions_mutable=True, **kw)
    elif variant == 3:
        # whatever is (not) stored in bipartition_encoding, every edge carries its bipartition
        tree.encode_bipartitions(suppress_storage=True, **kw)
        return sorted((nd.edge.bipartition.leafset_bitmask, nd.edge.bipartition.split_bitmask) for nd in tu.walk(tree.seed_node))
    elif variant == 4:
        tree.encode_splits(**kw)
    elif variant == 5:
        tree.update_splits(**kw)
    else:
        tree.encode_bipartitions(**kw)
    return sorted((b.leafset_bitmask, b.split_bitmask) for b in tree.bipartition_encoding)


def check_encoding_exact(ctx, tree, case, stored=True, maps=True):
    """clauses (a),(b) on the real objects after encoding, by a from-scratch walk"""
    masks = tu.leafset_masks(tree)
    L = masks[id(tree.seed_node)]
    rooted = bool(tree.is_rooted)
    low = (L & -L)
    per_edge = []
    for nd in tu.walk(tree.seed_node):
        b = nd.edge.bipartition
        if b is None:
            ctx.fail("encoding", "an edge has no bipartition after encode_bipartitions", case)
            return
        want = masks[id(nd)]
        if b.leafset_bitmask != want:
            ctx.fail("encoding", "edge leafset bitmask %d, taxa on the leaves below give %d" % (b.leafset_bitmask, want), case)
            return
        if nd.edge.leafset_bitmask != want or nd.edge.split_bitmask != b.split_bitmask:
            ctx.fail("encoding", "Edge.leafset_bitmask/split_bitmask accessors disagree with the bipartition", case)
            return
        if rooted:
            ws = want
        else:
            ws = (L & ~want) if (want & low) else want
        if b.split_bitmask != ws:
            ctx.fail("encoding", "split bitmask %s for leafset %d on tree leafset %d (rooted=%s), expected %d" % (
                b.split_bitmask, want, L, tree.is_rooted, ws), case)
            return
        per_edge.append((want, ws))
        # clause (a) observed through the taxa themselves: Bipartition.leafset_taxa -> TaxonNamespace.bitmask_taxa_list
        below = sorted(tu.bit_of(tree.taxon_namespace, lf.taxon) for lf in tu.walk(nd) if not lf._child_nodes and lf.taxon is not None)
        listed = [tu.bit_of(tree.taxon_namespace, t) for t in b.leafset_taxa(tree.taxon_namespace)]
        if listed != below:
            ctx.fail("encoding", "leafset_taxa lists the taxa with bits %s, the leaves below the edge carry %s" % (listed, below), case)
            return
    if not stored:
        return
    enc = tree.bipartition_encoding
    if sorted((b.leafset_bitmask, b.split_bitmask) for b in enc) != sorted(per_edge):
        ctx.fail("encoding", "bipartition_encoding is not exactly one bipartition per retained edge", case)
    if maps and L:      # mutable bipartitions are unhashable by design, so the edge maps are not available for them; a tree
        # without a single taxon is outside the statement's domain (its bipartitions are left uncompiled, hence unhashable)
        splits = set(ws for _, ws in per_edge)
        sbm = tree.split_bitmask_edge_map
        if set(sbm.keys()) != splits:
            ctx.fail("encoding", "split_bitmask_edge_map keys %s are not the tree's split bitmasks %s" % (sorted(sbm.keys()), sorted(splits)), case)
            return
        edges = set(id(nd.edge) for nd in tu.walk(tree.seed_node))
        for s, e in sbm.items():
            if id(e) not in edges or e.bipartition.split_bitmask != s:
                ctx.fail("encoding", "split_bitmask_edge_map[%d] is not an edge of the tree with that split" % s, case)
                return
        for bp, e in tree.bipartition_edge_map.items():
            if id(e) not in edges or e.bipartition.split_bitmask != bp.split_bitmask:
                ctx.fail("encoding", "bipartition_edge_map maps a bipartition to an edge that does not carry its split", case)
                return


def judge_encode(ctx, dendropy, case, pending, tree=None, kind="encode"):
    if tree is None:
        tree, _ = tree_for_case(dendropy, case)
    toks, ids = tu.encode_tree(tree, with_labels=False)
    sup, col, variant = case["sup"], case["col"], case.get("variant", 0)
    nt = nontrivial_tree(tree)
    pairs = run_encode(tree, sup, col, variant)
    probs = tu.arborescence_problems(tree)
    if probs:
        ctx.fail("encoding", "tree malformed after encode_bipartitions: %s" % probs, case)
    check_encoding_exact(ctx, tree, case, stored=(variant != 3), maps=(variant != 2))
    got = " ".join("%d:%d" % p for p in pairs) + " | " + tu.render_tree(tree, ids)
    ctx.case([kind, toks, case["rooted"], sup, col], nt, sample=case, kind=kind)
    pending.append(("encode %s %d %d %s" % (case["rooted"], sup, col, " ".join(toks)), case, got))


EDIT_KINDS = ("swap", "remove", "regraft", "newchild", "collapse", "group")


def apply_edit(dendropy, tree, edit):
    """one public-API edit, described by pre-order node indices of the tree as it stands; inapplicable edits are no-ops"""
    kind, i, j = edit
    nodes = tu.walk(tree.seed_node)
    if i >= len(nodes) or j >= len(nodes):
        return
    x, y = nodes[i], nodes[j]
    if kind == "swap":
        if not x._child_nodes and not y._child_nodes:
            x.taxon, y.taxon = y.taxon, x.taxon
    elif kind == "remove":
        if not x._child_nodes and x._parent_node is not None and len(x._parent_node._child_nodes) > 1:
            x._parent_node.remove_child(x)
    elif kind == "regraft":
        p = x._parent_node
        if not x._child_nodes and p is not None and len(p._child_nodes) > 2 and y._child_nodes and y is not p:
            p.remove_child(x)
            y.add_child(x)
    elif kind == "newchild":
        used = set(id(nd.taxon) for nd in nodes if nd.taxon is not None)
        unused = [t for t in tree.taxon_namespace if id(t) not in used]
        if unused and x._child_nodes:
            x.new_child(taxon=unused[0])
    elif kind == "collapse":
        if x._child_nodes and x._parent_node is not None:
            x.edge.collapse()
    elif kind == "group":
        if len(x._child_nodes) >= 3:
            k1, k2 = x._child_nodes[0], x._child_nodes[1]
            new = dendropy.Node()
            x.remove_child(k1)
            x.remove_child(k2)
            new.add_child(k1)
            new.add_child(k2)
            x.add_child(new)


def judge_reencode(ctx, dendropy, case, pending):
    """encode, edit the tree through the public API, encode again: the second encoding must describe the edited tree
    (a stale or partially refreshed encoding is the classic slip)"""
    tree, _ = tree_for_case(dendropy, case)
    tree.encode_bipartitions()
    _ = tree.split_bitmask_edge_map
    for e in case["edits"]:
        apply_edit(dendropy, tree, e)
    after = tree_case(tree, "encode", sup=True, col=True, variant=0)
    judge_encode(ctx, dendropy, dict(case, sup=True, col=True, variant=0), pending, tree=tree, kind="reencode")
    # the model is asked about the edited tree: re-point the pending line's case at a description of it
    line, _, got = pending[-1]
    pending[-1] = (line, dict(after, after_edits=case["edits"], before=case["tree"]), got)


def split_set(tree, flags):
    return set(b.split_bitmask for b in tree.encode_bipartitions(suppress_unifurcations=flags[0], collapse_unrooted_basal_bifurcation=flags[1]))


def judge_pair(ctx, dendropy, case, pending):
    """clause (c): equal split sets <=> same topology, each tree encoded under its own flags"""
    t1, _ = tree_for_case(dendropy, case)
    t2, _ = tree_for_case(dendropy, case, key="tree2", tns=t1.taxon_namespace)
    canon = canon_rooted if t1.is_rooted else canon_unrooted
    c1, c2 = canon(t1), canon(t2)
    nt = nontrivial_tree(t1)
    if not t1.is_rooted:
        # the model's notion of "same unrooted topology" (canonU, the one the theorems speak about) against the oracle's
        for key, t in (("tree", t1), ("tree2", t2)):
            u = ucanon_py(t)
            if u is not None and all(nd.taxon is not None for nd in tu.walk(t.seed_node) if not nd._child_nodes):
                pending.append(("ucanon " + " ".join(case[key]), {"op": "ucanon", "tree": case[key], "rooted": case["rooted"], "ns": case["ns"]}, u))
                pending.append(("ucanon2 " + " ".join(case[key]), {"op": "ucanon2", "tree": case[key], "rooted": case["rooted"], "ns": case["ns"]}, ucanon2_py(t)))
    s1 = split_set(t1, case.get("flags1", [True, True]))
    s2 = split_set(t2, case.get("flags2", [True, True]))
    ctx.case(["pair", case["tree"], case["tree2"], case["rooted"]], nt, sample=case, kind="pair-same" if c1 == c2 else "pair-diff")
    if (s1 == s2) != (c1 == c2):
        ctx.fail("sufficiency", "split sets %s while topologies %s (rooting %s, flags %s / %s): %s vs %s" % (
            "equal" if s1 == s2 else "differ", "equal" if c1 == c2 else "differ", case["rooted"],
            case.get("flags1"), case.get("flags2"), c1, c2), case)


def render_h(nd, tns):
    if not nd._child_nodes:
        return str(tns.accession_index(nd.taxon))
    return "(" + ",".join(render_h(c, tns) for c in nd._child_nodes) + ")"


def add_build_line(ctx, dendropy, tns, rooted, splits, pending, case):
    members = [tns.accession_index(t) for t in tns]
    t = dendropy.Tree.from_split_bitmasks(splits, taxon_namespace=tns, is_rooted=rooted)
    got = render_h(t.seed_node, tns)
    line = "build %d %d %d %s %s" % (tns.all_taxa_bitmask(), rooted, len(members), " ".join(map(str, members)), " ".join(map(str, splits)))
    pending.append((line.strip(), case, got))
    return t


def judge_rebuild(ctx, dendropy, case, pending):
    """clause (d): a tree rebuilt from an encoding in any order has that topology over all namespace taxa"""
    import random as _r
    src, _ = tree_for_case(dendropy, case)
    tns = src.taxon_namespace
    L = tu.leafset_masks(src)[id(src.seed_node)]
    nt = nontrivial_tree(src)
    enc = list(src.encode_bipartitions())
    _r.Random(case["perm_seed"]).shuffle(enc)
    extras = sorted(tns.accession_index(t) for t in tns if not (L >> tns.accession_index(t)) & 1)
    canon = canon_rooted if src.is_rooted else canon_unrooted
    wants = [canon(src, extras)]
    if extras and not src.is_rooted:
        wants.append(canon_unrooted(src, extras, at_node=True))
    want = wants[0]
    ctx.case(["rebuild", case["tree"], case["rooted"], case["perm_seed"]], nt, sample=case, kind="rebuild")
    splits = [b.split_bitmask for b in enc]
    built = [("from_bipartition_encoding", dendropy.Tree.from_bipartition_encoding(enc, taxon_namespace=tns, is_rooted=src.is_rooted)),
             ("from_split_bitmasks", add_build_line(ctx, dendropy, tns, bool(src.is_rooted), splits, pending,
                                                    {"op": "build", "rooted": bool(src.is_rooted), "splits": splits, "ns": case["ns"]}))]
    for name, rebuilt in built:
        probs = tu.arborescence_problems(rebuilt)
        if probs:
            ctx.fail("rebuild", "%s: rebuilt tree malformed: %s" % (name, probs), case)
            continue
        if rebuilt.taxon_namespace is not tns:
            ctx.fail("rebuild", "%s: rebuilt tree is not over the namespace it was given" % name, case)
        got = canon(rebuilt)
        if got not in wants:
            ctx.fail("rebuild", "%s: tree rebuilt from its (shuffled) encoding has topology %s, source (+ absent namespace members at the root) is %s" % (name, got, want), case)
        if bool(rebuilt.is_rooted) != bool(src.is_rooted):
            ctx.fail("rebuild", "%s: rebuilt tree has rooting %s, source %s" % (name, rebuilt.is_rooted, src.is_rooted), case)


def judge_build(ctx, dendropy, case, pending):
    """from_split_bitmasks on arbitrary lists (compatible, incompatible, duplicate, trivial, full, out-of-range masks):
    the statement promises nothing here beyond the model's account of the greedy insertion - correspondence only"""
    tns = namespace_for(dendropy, case["ns"])
    ctx.case(["build", case["ns"]["bits"], case["rooted"], case["splits"]], len(case["splits"]) >= 2, kind="build")
    add_build_line(ctx, dendropy, tns, bool(case["rooted"]), case["splits"], pending, case)


def judge_treepreds(ctx, dendropy, case, pending):
    """clause (e) on real Bipartition objects of two trees over the same leaves"""
    t1, _ = tree_for_case(dendropy, case)
    t2, _ = tree_for_case(dendropy, case, key="tree2", tns=t1.taxon_namespace)
    L = tu.leafset_masks(t1)[id(t1.seed_node)]
    nt = nontrivial_tree(t1)
    toks1 = case["tree"]
    e1 = list(t1.encode_bipartitions())
    e2 = list(t2.encode_bipartitions())
    F = bits_of(L)
    rooted = bool(t1.is_rooted)
    ctx.case(["treepreds", case["tree"], case["tree2"], case["rooted"]], nt, sample=case, kind="treepreds")

    def side(b):
        return bits_of(b.leafset_bitmask)

    def compatible(A, B):
        return nested_or_disjoint(A, B) if rooted else quadrants_empty(A, B, F)
    for b in e1[:12]:
        A = side(b)
        want = len(A) <= 1 or len(F - A) <= 1
        if bool(b.is_trivial()) != want:
            ctx.fail("predicate", "Bipartition.is_trivial() = %s for a split with sides %d/%d" % (b.is_trivial(), len(A), len(F - A)), case)
            return
    for b1 in e1[:8]:
        for b2 in e2[:8]:
            A, B = side(b1), side(b2)
            if bool(b1.is_compatible_with(b2)) != compatible(A, B):
                ctx.fail("predicate", "is_compatible_with = %s for leafsets %s / %s of %s (rooted=%s)" % (
                    b1.is_compatible_with(b2), sorted(A), sorted(B), sorted(F), rooted), case)
                return
            if bool(b1.is_leafset_nested_within(b2)) != (A <= B):
                ctx.fail("predicate", "is_leafset_nested_within = %s for %s within %s" % (b1.is_leafset_nested_within(b2), sorted(A), sorted(B)), case)
                return
    m1 = tu.leafset_masks(t1)      # "EVERY edge": leafsets by a from-scratch walk, not from the library's own encoding
    sides1 = [bits_of(m1[id(nd)]) for nd in tu.walk(t1.seed_node)]
    for k, b2 in enumerate(e2[:10]):
        want = all(compatible(A, side(b2)) for A in sides1)
        got = bool(t1.is_compatible_with_bipartition(b2))
        if k % 3 == 0:
            # both values of the flag on a tree whose encoding is current, and on a tree that was never encoded
            got_u = bool(t1.is_compatible_with_bipartition(b2, is_bipartitions_updated=True))
            fresh, _ = tree_for_case(dendropy, case)
            got_f = bool(fresh.is_compatible_with_bipartition(b2, is_bipartitions_updated=True))
            for name, g in (("on a current encoding", got_u), ("on a never-encoded tree", got_f)):
                if g != want:
                    ctx.fail("predicate", "Tree.is_compatible_with_bipartition(is_bipartitions_updated=True) %s = %s, set definition says %s" % (name, g, want), case)
                    return
        if got != want:
            ctx.fail("predicate", "Tree.is_compatible_with_bipartition = %s, set definition over all edges says %s (leafset %s)" % (
                got, want, sorted(side(b2))), case)
            return
        line = "compat %s %d %s" % (case["rooted"], b2.split_bitmask, " ".join(toks1))
        pending.append((line, dict(case, op="compat", split=b2.split_bitmask), "1" if got else "0"))


def judge_compat(ctx, dendropy, case, pending):
    """one Tree.is_compatible_with_bipartition answer against the model (replay of a correspondence line)"""
    t1, _ = tree_for_case(dendropy, case)
    from dendropy.datamodel.treemodel._bipartition import Bipartition
    L = tu.leafset_masks(t1)[id(t1.seed_node)]
    b2 = Bipartition(leafset_bitmask=case["split"], tree_leafset_bitmask=L, is_rooted=t1.is_rooted, compile_bipartition=True)
    got = bool(t1.is_compatible_with_bipartition(b2))
    pending.append(("compat %s %d %s" % (case["rooted"], b2.split_bitmask, " ".join(case["tree"])), case, "1" if got else "0"))


def judge_ucanon(ctx, dendropy, case, pending):
    """the model's canonical unrooted form of one tree against the oracle's graph-based one (replay of a correspondence line)"""
    t, _ = tree_for_case(dendropy, case)
    pending.append(("ucanon " + " ".join(case["tree"]), case, ucanon_py(t)))


def judge_ucanon2(ctx, dendropy, case, pending):
    t, _ = tree_for_case(dendropy, case)
    pending.append(("ucanon2 " + " ".join(case["tree"]), case, ucanon2_py(t)))


def judge_stale(ctx, dendropy, case, pending):
    """query -> edit through the public API -> query again with default arguments: the answer must describe the tree as it
    stands, not the encoding left behind by the earlier calls"""
    t1, _ = tree_for_case(dendropy, case)
    t2, _ = tree_for_case(dendropy, case, key="tree2", tns=t1.taxon_namespace)
    queries = list(t2.encode_bipartitions())[:10]
    for b2 in queries:
        t1.is_compatible_with_bipartition(b2)
    apply_edit(dendropy, t1, case["edit"])
    rooted = bool(t1.is_rooted)
    m1 = tu.leafset_masks(t1)
    F = bits_of(m1[id(t1.seed_node)])
    sides1 = [bits_of(m1[id(nd)]) for nd in tu.walk(t1.seed_node)]
    ctx.case(["stalepred", case["tree"], case["tree2"], case["rooted"], case["edit"]], nontrivial_tree(t1), kind="stalepred")

    def compatible(A, B):
        return nested_or_disjoint(A, B) if rooted else quadrants_empty(A, B, F)
    for b2 in queries:
        B = bits_of(b2.leafset_bitmask) & F
        want = all(compatible(A, B) for A in sides1)
        got = bool(t1.is_compatible_with_bipartition(b2))
        if got != want:
            ctx.fail("predicate", "after the edit %s, Tree.is_compatible_with_bipartition (default arguments) = %s for leafset %s; "
                     "the set definition on the tree as it stands says %s" % (case["edit"], got, sorted(B), want), case)
            return


def judge_bip(ctx, dendropy, case, pending):
    """Bipartition objects compiled from RAW leafsets (possibly reaching outside the tree leafset): stored leafset, split,
    is_nested_within (both flags), normalize (both conventions), is_compatible_with, is_trivial, is_leafset_nested_within.
    Oracle (non-negative masks, non-empty tree leafset F; A, B = the raw leafsets cut down to F):
      leafset = A; split = A (rooted) / A or F-A, whichever avoids the lowest taxon of F (unrooted);
      normalize lsb0 = that same side of the raw mask, lsb1 = the other side; compatible / trivial / leafset-nested as in
      judge_pred; is_nested_within on rooted bipartitions = A subset of B (on unrooted ones it compares split masks - the statement
      does not say what that should mean, so it is compared with the model only)."""
    from dendropy.datamodel.treemodel._bipartition import Bipartition
    a, b, fill, rooted = case["a"], case["b"], case["fill"], bool(case["rooted"])
    x = Bipartition(leafset_bitmask=a, tree_leafset_bitmask=fill, is_rooted=rooted)
    y = Bipartition(leafset_bitmask=b, tree_leafset_bitmask=fill, is_rooted=rooted)
    vals = (x.leafset_bitmask, x.split_bitmask, y.leafset_bitmask, y.split_bitmask, int(bool(x.is_nested_within(y))),
            int(bool(x.is_nested_within(y, is_other_masked_for_tree_leafset=True))), x.normalize(a), x.normalize(a, "lsb1"),
            int(bool(x.is_compatible_with(y))), int(bool(x.is_trivial())), int(bool(x.is_leafset_nested_within(y))))
    ctx.case(["bip", rooted, a, b, fill], (a & fill) not in (0, fill) and (b & fill) not in (0, fill), sample=case, kind="bip")
    pending.append(("bip %d %d %d %d" % (rooted, a, b, fill), case, " ".join(map(str, vals))))
    if not (fill > 0 and a >= 0 and b >= 0):
        return
    F = bits_of(fill)
    A, B = bits_of(a) & F, bits_of(b) & F
    low = min(F)

    def mask(S):
        return sum(1 << i for i in S)

    def split(S):
        return mask(S) if rooted else mask(F - S if low in S else S)
    want = (mask(A), split(A), mask(B), split(B))
    if vals[:4] != want:
        ctx.fail("predicate", "Bipartition(leafset=%d / %d, tree leafset=%d, rooted=%s) compiled to leafset/split %s, expected %s" % (
            a, b, fill, rooted, vals[:4], want), case)
        return
    n0 = mask(F - A if low in A else A)
    n1 = mask(A if low in A else F - A)
    if (vals[6], vals[7]) != (n0, n1):
        ctx.fail("predicate", "Bipartition.normalize(%d) on tree leafset %d = %d (lsb0) / %d (lsb1), expected %d / %d" % (
            a, fill, vals[6], vals[7], n0, n1), case)
    wc = nested_or_disjoint(A, B) if rooted else quadrants_empty(A, B, F)
    if bool(vals[8]) != wc:
        ctx.fail("predicate", "is_compatible_with = %s for %s bipartitions with leafsets %s / %s of %s; the set definition says %s" % (
            bool(vals[8]), "rooted" if rooted else "unrooted", sorted(A), sorted(B), sorted(F), wc), case)
    wt = len(A) <= 1 or len(F - A) <= 1
    if bool(vals[9]) != wt:
        ctx.fail("predicate", "Bipartition.is_trivial() = %s for sides of %d and %d taxa" % (bool(vals[9]), len(A), len(F - A)), case)
    if bool(vals[10]) != (A <= B):
        ctx.fail("predicate", "is_leafset_nested_within = %s for %s within %s" % (bool(vals[10]), sorted(A), sorted(B)), case)
    if rooted and (bool(vals[4]) != (A <= B) or bool(vals[5]) != (A <= B)):
        ctx.fail("predicate", "is_nested_within (rooted) = %s/%s for leafsets %s within %s" % (bool(vals[4]), bool(vals[5]), sorted(A), sorted(B)), case)


def judge_recompile(ctx, dendropy, case, pending):
    """a MUTABLE bipartition whose leafset is changed and which is then recompiled through the public zero-argument
    `compile_bipartition()`: leafset and split must again be those of the new leafset"""
    from dendropy.datamodel.treemodel._bipartition import Bipartition
    a, b, fill, rooted = case["a"], case["b"], case["fill"], bool(case["rooted"])
    z = Bipartition(leafset_bitmask=a, tree_leafset_bitmask=fill, is_rooted=rooted, is_mutable=True)
    z.leafset_bitmask = b
    z.compile_bipartition()
    ref = Bipartition(leafset_bitmask=b, tree_leafset_bitmask=fill, is_rooted=rooted)
    ctx.case(["recompile", rooted, a, b, fill], (b & fill) not in (0, fill), kind="recompile")
    F = bits_of(fill)
    Bs = bits_of(b) & F
    ws = sum(1 << i for i in (Bs if (rooted or min(F) not in Bs) else F - Bs))
    if (z.leafset_bitmask, z.split_bitmask) != (sum(1 << i for i in Bs), ws):
        ctx.fail("predicate", "recompiled mutable bipartition has leafset/split %s/%s, the new leafset %d on tree leafset %d gives %d/%d" % (
            z.leafset_bitmask, z.split_bitmask, b, fill, sum(1 << i for i in Bs), ws), case)
    pending.append(("bip %d %d %d %d" % (rooted, b, b, fill), dict(case, op="bip", a=b),
                    " ".join(map(str, (z.leafset_bitmask, z.split_bitmask, ref.leafset_bitmask, ref.split_bitmask,
                                       int(bool(z.is_nested_within(ref))), int(bool(z.is_nested_within(ref, True))), z.normalize(b), z.normalize(b, "lsb1"),
                                       int(bool(z.is_compatible_with(ref))), int(bool(z.is_trivial())), int(bool(z.is_leafset_nested_within(ref))))))))


def judge_bits(ctx, dendropy, case, pending):
    """bitprocessing.indexes_of_set_bits: the indices of the set bits of s & fill, increasing; one_based shifts them by one;
    ordination_in_mask reports the rank of the bit among the bits of fill instead"""
    from dendropy.utility import bitprocessing
    s, fill, ob, om = case["s"], case["fill"], bool(case["one_based"]), bool(case["ord"])
    got = bitprocessing.indexes_of_set_bits(s, fill, ob, om)
    ctx.case(["bits", s, fill, ob, om], s > 0 and (s & fill) != 0, kind="bits")
    pending.append(("bits %d %d %d %d" % (s, fill, ob, om), case, ",".join(map(str, got))))
    if s < 0 or (fill < 0 and fill != -1):
        return
    S = bits_of(s) if fill == -1 else bits_of(s) & bits_of(fill)
    if om and fill != -1:
        Fl = sorted(bits_of(fill))
        want = [Fl.index(i) + ob for i in sorted(S)]
    elif om:
        want = [i + ob for i in sorted(S)]
    else:
        want = [i + ob for i in sorted(S)]
    if got != want:
        ctx.fail("bitfunction", "indexes_of_set_bits(%d, %d, one_based=%s, ordination_in_mask=%s) = %s, the set bits are %s" % (
            s, fill, ob, om, got, want), case)


def judge_nsmask(ctx, dendropy, case, pending):
    """TaxonNamespace.all_taxa_bitmask / taxon_bitmask: every accession index handed out so far; bit = accession index"""
    tns = namespace_for(dendropy, case["ns"])
    members = list(tns)
    t = members[case["i"] % len(members)]
    idx = tns.accession_index(t)
    got = "%d %d" % (tns.all_taxa_bitmask(), tns.taxon_bitmask(t))
    ctx.case(["nsmask", case["ns"]["bits"], case["ns"]["count"], idx], len(members) >= 2, kind="nsmask")
    pending.append(("nsmask %d %d" % (case["ns"]["count"], idx), case, got))
    if tns.all_taxa_bitmask() != sum(1 << j for j in range(case["ns"]["count"])) or tns.taxon_bitmask(t) != (1 << idx):
        ctx.fail("encoding", "namespace masks: all_taxa_bitmask %d, taxon_bitmask %d for accession index %d of %d" % (
            tns.all_taxa_bitmask(), tns.taxon_bitmask(t), idx, case["ns"]["count"]), case)
    if tns.taxa_bitmask(taxa=members) != sum(1 << tns.accession_index(m) for m in members):
        ctx.fail("encoding", "taxa_bitmask of all members is not the OR of their bits", case)


def judge_hist(ctx, dendropy, case, pending):
    """a history of explicit encodings, edits through the node API and compatibility queries (both values of
    is_bipartitions_updated) on ONE tree object; after every step the answer and the tree as it stands are compared with the
    model's stored-encoding state machine (`hrun`).  Oracle: a query that the API promises to be fresh - default flag, or
    is_bipartitions_updated=True while nothing was edited since the last encoding - must answer by the set definition for the
    tree as it stands (only judged while both trees are over the same taxa)."""
    t1, _ = tree_for_case(dendropy, case)
    t2, _ = tree_for_case(dendropy, case, key="tree2", tns=t1.taxon_namespace)
    queries = list(t2.encode_bipartitions())
    F2 = tu.leafset_masks(t2)[id(t2.seed_node)]
    toks, ids = tu.encode_tree(t1, with_labels=False)
    line = ["hist", case["rooted"]] + list(toks)
    outs = []
    current = False      # is the stored encoding an encoding of the tree as it stands?
    rooted = bool(t1.is_rooted)
    nq = 0
    for st in case["steps"]:
        if st[0] == "c":
            t1.encode_bipartitions(suppress_unifurcations=bool(st[1]), collapse_unrooted_basal_bifurcation=bool(st[2]))
            current = True
            line += ["c", str(int(st[1])), str(int(st[2]))]
            outs.append("c@" + tu.render_tree(t1, ids))
        elif st[0] == "e":
            before = tu.render_tree(t1, ids)
            apply_edit(dendropy, t1, st[1:])
            if tu.render_tree(t1, ids) != before:      # (a node unknown to `ids` prints as *, so any change shows)
                current = False
            toks, ids = tu.encode_tree(t1, with_labels=False)
            line += ["e"] + list(toks)
            outs.append("e")
        else:
            b2 = queries[st[2] % len(queries)]
            upd = bool(st[1])
            m1 = tu.leafset_masks(t1)
            L1 = m1[id(t1.seed_node)]
            sides1 = [bits_of(m1[id(nd)]) for nd in tu.walk(t1.seed_node)]
            got = bool(t1.is_compatible_with_bipartition(b2, is_bipartitions_updated=upd))
            fresh = (not upd) or current
            if not upd:
                current = True
            nq += 1
            if fresh and L1 == F2 and L1:
                F = bits_of(L1)
                B = bits_of(b2.leafset_bitmask) & F
                want = all((nested_or_disjoint(A, B) if rooted else quadrants_empty(A, B, F)) for A in sides1)
                if got != want:
                    ctx.fail("predicate", "history %s: Tree.is_compatible_with_bipartition(is_bipartitions_updated=%s) = %s for leafset %s; "
                             "the set definition on the tree as it stands says %s" % (case["steps"], upd, got, sorted(B), want), case)
                    return
            line += ["q", str(int(upd)), str(b2.split_bitmask)]
            outs.append(("1" if got else "0") + "@" + tu.render_tree(t1, ids))
    ctx.case(["hist", case["tree"], case["tree2"], case["rooted"], case["steps"]], nontrivial_tree(t1) and nq >= 2, sample=case, kind="hist")
    pending.append((" ".join(line), case, " ; ".join(outs)))


MAINT_OPS = ("suppress", "prune_taxa", "retain_taxa", "prune_labels", "retain_labels", "prune_subtree", "prune_taxonless", "reseed",
             "reroot_node", "reroot_edge", "midpoint", "outgroup", "collapse_unweighted", "collapse_basal", "resolve", "reorient",
             "node_edit", "edge_collapse")


def apply_maint_op(dendropy, tree, op):
    """one structure-changing operation that offers to keep the stored encoding up to date (`update_bipartitions=True`), or a
    node/edge-level edit followed by `tree.update_bipartitions()`.  Arguments are pre-order node indices / taxon bits / seeds
    recorded in the case; an operation that does not apply to the tree as it stands is a no-op.  Returns False if skipped."""
    import random as _r
    name, i, j, seed, sup = op
    nodes = tu.walk(tree.seed_node)
    x = nodes[i % len(nodes)]
    y = nodes[j % len(nodes)]
    tns = tree.taxon_namespace
    leaves = [nd for nd in nodes if not nd._child_nodes]
    taxa = [nd.taxon for nd in leaves if nd.taxon is not None]
    rr = _r.Random(seed)
    kw = dict(update_bipartitions=True, suppress_unifurcations=bool(sup))
    if name == "suppress":
        tree.suppress_unifurcations(update_bipartitions=True)
    elif name in ("prune_taxa", "retain_taxa", "prune_labels", "retain_labels"):
        if len(taxa) < 3:
            return False
        k = rr.randint(1, len(taxa) - 2)
        sel = rr.sample(taxa, k)
        if name == "prune_taxa":
            tree.prune_taxa(sel, **kw)
        elif name == "retain_taxa":
            tree.retain_taxa(sel if len(sel) >= 2 else taxa[:2], **kw)
        elif name == "prune_labels":
            tree.prune_taxa_with_labels([t.label for t in sel], **kw)
        else:
            tree.retain_taxa_with_labels([t.label for t in (sel if len(sel) >= 2 else taxa[:2])], **kw)
    elif name == "prune_subtree":
        if x._parent_node is None or len(leaves) < 3:
            return False
        below = [nd for nd in tu.walk(x) if not nd._child_nodes]
        if len(below) >= len(leaves) - 1:
            return False
        tree.prune_subtree(x, **kw)
    elif name == "prune_taxonless":
        cand = [nd for nd in leaves if nd._parent_node is not None and len(nd._parent_node._child_nodes) >= 2]
        if len(leaves) < 3 or not cand:
            return False
        rr.choice(cand).taxon = None
        tree.prune_leaves_without_taxa(**kw)
    elif name == "reseed":
        if x._parent_node is None or not x._child_nodes:
            return False
        tree.reseed_at(x, **kw)
    elif name == "reroot_node":
        if x._parent_node is None or not x._child_nodes:
            return False
        tree.reroot_at_node(x, **kw)
    elif name == "reroot_edge":
        if x._parent_node is None:
            return False
        tree.reroot_at_edge(x.edge, **kw)
    elif name == "midpoint":
        if len(leaves) < 3 or any(nd.edge.length is None or nd.edge.length <= 0 for nd in nodes if nd._parent_node is not None):
            return False
        tree.reroot_at_midpoint(**kw)
    elif name == "outgroup":
        if x._parent_node is None or len(leaves) < 3:
            return False
        tree.to_outgroup_position(x, **kw)
    elif name == "collapse_unweighted":
        tree.collapse_unweighted_edges(update_bipartitions=True)
    elif name == "collapse_basal":
        tree.collapse_basal_bifurcation(set_as_unrooted_tree=False)
        tree.update_bipartitions(suppress_unifurcations=bool(sup))
    elif name == "resolve":
        tree.resolve_polytomies(update_bipartitions=True, rng=rr)
    elif name == "reorient":
        if len(leaves) < 3:
            return False
        tree.randomly_reorient(rng=rr, update_bipartitions=True)
    elif name == "node_edit":
        apply_edit(dendropy, tree, [EDIT_KINDS[seed % len(EDIT_KINDS)], i % len(nodes), j % len(nodes)])
        tree.update_bipartitions(suppress_unifurcations=bool(sup))
    elif name == "edge_collapse":
        if x._parent_node is None or not x._child_nodes:
            return False
        x.edge.collapse()
        tree.update_bipartitions(suppress_unifurcations=bool(sup))
    else:
        raise ValueError("unknown maintained-encoding operation %r" % (name,))
    return True


def check_maintained(ctx, tree, case, step, mutable):
    """the STORED encoding after an operation that promised to keep it up to date, against a from-scratch walk of the tree as
    it stands: every edge carries the bipartition of its own leaves; `bipartition_encoding` is exactly the edges' bipartitions
    (the same objects, one per edge, no leftover of a removed edge, no duplicate); the edge maps describe exactly these edges"""
    before = len(ctx.failures)
    check_encoding_exact(ctx, tree, case, stored=True, maps=not mutable)
    if len(ctx.failures) > before:
        for f in ctx.failures[before:]:
            if isinstance(f, dict) and "what" in f:
                f["what"] = "after step %s: %s" % (step, f["what"])
        return False
    enc = tree.bipartition_encoding
    edge_bips = [nd.edge.bipartition for nd in tu.walk(tree.seed_node)]
    if sorted(map(id, enc)) != sorted(map(id, edge_bips)):
        ctx.fail("encoding", "after step %s: bipartition_encoding holds %d bipartitions of which %d are not (or no longer) the bipartition object "
                 "of an edge of the tree; %d edges of the tree are missing from it" % (
                     step, len(enc), len(set(map(id, enc)) - set(map(id, edge_bips))), len(set(map(id, edge_bips)) - set(map(id, enc)))), case)
        return False
    if not mutable and tu.leafset_masks(tree)[id(tree.seed_node)]:
        edges = set(id(nd.edge) for nd in tu.walk(tree.seed_node))
        if set(id(e) for e in tree.bipartition_edge_map.values()) - edges or len(tree.bipartition_edge_map) != len(set(b.split_bitmask for b in enc)):
            ctx.fail("encoding", "after step %s: bipartition_edge_map has entries for edges that are not in the tree / misses splits" % (step,), case)
            return False
    return True


def judge_maintained(ctx, dendropy, case, pending):
    """MAINTAINED encodings: encode under any flags -> operations that offer update_bipartitions=True -> the stored encoding,
    the per-edge bipartitions and the edge maps are judged after EVERY operation; the model is asked for `encode` of the tree as
    it stands; at the end the tree rebuilt from the stored encoding (shuffled) must have the topology"""
    import random as _r
    import common
    tree, _ = tree_for_case(dendropy, case)
    tns = tree.taxon_namespace
    sup, col, mutable = case["sup"], case["col"], case.get("mutable", False)
    tree.encode_bipartitions(suppress_unifurcations=sup, collapse_unrooted_basal_bifurcation=col, is_bipartitions_mutable=mutable)
    if case.get("touch_maps") and not mutable and tu.leafset_masks(tree)[id(tree.seed_node)]:
        _ = tree.split_bitmask_edge_map, tree.bipartition_edge_map
    nt = nontrivial_tree(tree)
    done = 0
    for k, op in enumerate(case["ops"]):
        try:
            applied = apply_maint_op(dendropy, tree, op)
        except Exception as e:
            if not common.is_library_exception(e):
                raise
            if op[0] in ("suppress", "collapse_unweighted", "collapse_basal", "resolve", "edge_collapse", "node_edit"):
                raise       # nothing but the upkeep of the encoding can fail in these: the judge wrapper reports it
            # the restructuring itself failing is the business of the property that owns it (C03/C07/C08), not of the encoding
            ctx.count("maintained_op_raised_%s" % op[0])
            if len(ctx.notes) < 20:
                ctx.note("maintained: %s raised %s: %s" % (op[0], type(e).__name__, str(e)[:120]))
            break
        if not applied:
            continue
        done += 1
        if not tree.bipartition_encoding:
            ctx.fail("encoding", "after step %d (%s with update_bipartitions): no stored encoding" % (k, op[0]), case)
            return
        if tu.arborescence_problems(tree):
            ctx.count("maintained_op_left_malformed_tree_%s" % op[0])
            break
        if not check_maintained(ctx, tree, case, "%d (%s)" % (k, op[0]), mutable):
            return
        toks, ids = tu.encode_tree(tree, with_labels=False)
        got = " ".join("%d:%d" % p for p in sorted((b.leafset_bitmask, b.split_bitmask) for b in tree.bipartition_encoding)) \
            + " | " + tu.render_tree(tree, ids)
        pending.append(("encode %s 0 0 %s" % (ROOT[tree.is_rooted], " ".join(toks)),
                        {"op": "encode", "tree": toks, "rooted": ROOT[tree.is_rooted], "ns": case["ns"], "sup": False, "col": False,
                         "variant": 0, "after_maintained": case["ops"][:k + 1]}, got))
    ctx.case(["maintained", case["tree"], case["rooted"], sup, col, mutable, case["ops"]], nt and done >= 1, sample=case,
             kind="maintained" if done else "maintained-noop")
    if not done or not tree.bipartition_encoding:
        return
    # clause (d) on the stored encoding
    L = tu.leafset_masks(tree)[id(tree.seed_node)]
    if not L or any(nd.taxon is None for nd in tu.walk(tree.seed_node) if not nd._child_nodes):
        return
    enc = list(tree.bipartition_encoding)
    _r.Random(case.get("perm_seed", 0)).shuffle(enc)
    extras = sorted(tns.accession_index(t) for t in tns if not (L >> tns.accession_index(t)) & 1)
    canon = canon_rooted if tree.is_rooted else canon_unrooted
    wants = [canon(tree, extras)]
    if extras and not tree.is_rooted:
        wants.append(canon_unrooted(tree, extras, at_node=True))
    rebuilt = dendropy.Tree.from_bipartition_encoding(enc, taxon_namespace=tns, is_rooted=tree.is_rooted)
    got = canon(rebuilt)
    if got not in wants:
        ctx.fail("rebuild", "tree rebuilt from the STORED encoding after %s has topology %s, the tree as it stands is %s" % (
            [o[0] for o in case["ops"]], got, wants[0]), case)


def judge_nsbroken(ctx, dendropy, case, pending):
    """a namespace copy whose bit assignment was found broken while a case was being generated: re-make it from its recipe"""
    ctx.case(["nscopy", case["ns"]["recipe"]], True, kind="nscopy-broken")
    namespace_for(dendropy, case["ns"])      # raises NamespaceBroken -> reported by `judge`


def judge_maint(ctx, dendropy, case, pending):
    """the model's id-tagged maintained encoding (`encodeIds`, `suppressMaint`, `edgeMap`; theorem suppress_maintained): encode
    without suppression, read the edge map, suppress_unifurcations(update_bipartitions=True); the stored list with the IDENTITY of
    each bipartition's edge before and after, the tree, and split_bitmask_edge_map are compared with the model; the stored
    encoding is also judged from scratch"""
    tree, ids = tree_for_case(dendropy, case)
    col = bool(case["col"])
    tree.encode_bipartitions(suppress_unifurcations=False, collapse_unrooted_basal_bifurcation=col)

    def tagged():
        node_of = {id(nd.edge.bipartition): nd for nd in tu.walk(tree.seed_node)}
        out = []
        for b in tree.bipartition_encoding:
            nd = node_of.get(id(b))
            out.append("%s:%d:%d" % ("?" if nd is None else ids.of(nd), b.leafset_bitmask, b.split_bitmask))
        return " ".join(out)
    enc0 = tagged()
    _ = tree.split_bitmask_edge_map
    tree.suppress_unifurcations(update_bipartitions=True)
    ctx.case(["maint", case["tree"], case["rooted"], col], nontrivial_tree(tree), sample=case, kind="maint")
    if not check_maintained(ctx, tree, case, "suppress_unifurcations(update_bipartitions=True)", False):
        return
    emap = sorted((ids.of(e.head_node), s) for s, e in tree.split_bitmask_edge_map.items())
    got = enc0 + " | " + tu.render_tree(tree, ids) + " | " + tagged() + " | " + " ".join("%d:%d" % (s, i) for i, s in emap)
    pending.append(("maint %s %d %s" % (case["rooted"], col, " ".join(case["tree"])), case, got))


JUDGES = {"pyint": judge_pyint, "pred": judge_pred, "encode": judge_encode, "reencode": judge_reencode, "pair": judge_pair,
          "rebuild": judge_rebuild, "build": judge_build, "treepreds": judge_treepreds, "stalepred": judge_stale,
          "compat": judge_compat, "ucanon": judge_ucanon, "ucanon2": judge_ucanon2, "lsb": judge_bitfunction, "normalize": judge_bitfunction,
          "bip": judge_bip, "recompile": judge_recompile, "bits": judge_bits, "nsmask": judge_nsmask, "hist": judge_hist, "maintained": judge_maintained,
          "nsbroken": judge_nsbroken, "maint": judge_maint}


def judge(ctx, dendropy, case, pending):
    """run one self-contained case.  An exception raised BY THE LIBRARY inside an operation the property says is total is a
    failure of kind 'exception' (replayable from the case); an exception raised by the harness itself propagates (exit 2)."""
    import common
    try:
        JUDGES[case["op"]](ctx, dendropy, case, pending)
    except NamespaceBroken as e:
        ctx.fail("encoding", "clause (a), taxon -> bit assignment: " + e.what, case)
    except Exception as e:
        if not common.is_library_exception(e):
            raise
        ctx.fail("exception", "%s raised %s: %s" % (case["op"], type(e).__name__, str(e)[:200]), case)


# ------------------------------------------------------------------ generators of cases
def gen_pyint(ctx, dendropy):
    rng = ctx.rng

    def rint():
        r = rng.random()
        if r < 0.3:
            return rng.randint(-40, 40)
        if r < 0.6:
            return rng.getrandbits(rng.choice([8, 20, 70, 130])) * rng.choice([1, -1])
        return rng.randint(0, 255)
    return {"op": "pyint", "a": rint(), "b": rint(), "k": rng.randint(0, 70)}


def gen_pred(ctx, dendropy):
    rng = ctx.rng
    nb = rng.randint(1, 9)
    if rng.random() < 0.85:
        fill = (1 << nb) - 1
        if rng.random() < 0.3:
            fill &= ~(1 << rng.randrange(nb))
        a, b = rng.getrandbits(nb), rng.getrandbits(nb)
        r = rng.random()
        if r < 0.7:
            a &= fill
            b &= fill
        if r < 0.25 and fill:
            # aim at the quadrant that separates the definitions: overlapping sets that together cover the leafset
            b = (fill & ~a) | (a & rng.getrandbits(nb))
    else:
        fill, a, b = rng.randint(-5, 600), rng.randint(-600, 600), rng.randint(-600, 600)
    return {"op": "pred", "a": a, "b": b, "fill": fill}


def strip_some_taxa(rng, tree):
    """taxon-less leaves (empty leafset masks), occasionally every leaf"""
    leaves = [nd for nd in tu.walk(tree.seed_node) if not nd._child_nodes]
    if rng.random() < 0.3:
        for nd in leaves:
            nd.taxon = None
    else:
        rng.choice(leaves).taxon = None


def gen_encode(ctx, dendropy):
    rng = ctx.rng
    tree = gen_tree(dendropy, rng, ctx.pick(12, 40) if rng.random() < 0.9 else 3)
    if rng.random() < 0.06:
        strip_some_taxa(rng, tree)
    return tree_case(tree, "encode", sup=rng.random() < 0.8, col=rng.random() < 0.8,
                     variant=rng.choice([0, 0, 0, 1, 2, 3, 4, 5]))


def gen_reencode(ctx, dendropy):
    rng = ctx.rng
    tree = gen_tree(dendropy, rng, ctx.pick(10, 25), hole_rate=0.2)
    n = len(tu.walk(tree.seed_node))
    edits = [[rng.choice(EDIT_KINDS[:4]), rng.randrange(n), rng.randrange(n)] for _ in range(rng.randint(1, 4))]
    # aim: most random index pairs are inapplicable, so draw applicable ones half of the time
    nodes = tu.walk(tree.seed_node)
    leaves = [i for i, nd in enumerate(nodes) if not nd._child_nodes]
    internal = [i for i, nd in enumerate(nodes) if nd._child_nodes]
    if leaves and internal:
        for e in edits:
            if rng.random() < 0.7:
                e[1] = rng.choice(internal if e[0] == "newchild" else leaves)
                e[2] = rng.choice(leaves if e[0] == "swap" else internal)
    return tree_case(tree, "reencode", edits=edits)


def gen_two_trees(ctx, dendropy, max_leaves, same_rate):
    rng = ctx.rng
    t1 = gen_tree(dendropy, rng, max_leaves, hole_rate=0.25)
    unrooted = not t1.is_rooted
    r = rng.random()
    if r < same_rate:
        t2 = redraw(dendropy, rng, t1, unrooted)
    elif r < same_rate + (1 - same_rate) / 2:
        # near miss: the same tree re-drawn, then one leaf regrafted elsewhere
        t2 = redraw(dendropy, rng, t1, unrooted)
        nodes = tu.walk(t2.seed_node)
        # (a leaf that is an only child stays: removing it would leave a taxon-less leaf, i.e. another leaf set)
        leaves = [nd for nd in nodes if not nd._child_nodes and nd._parent_node is not None and len(nd._parent_node._child_nodes) >= 2]
        internal = [nd for nd in nodes if nd._child_nodes]
        if leaves and len(internal) > 1:
            lf = rng.choice(leaves)
            tgt = rng.choice([nd for nd in internal if nd is not lf._parent_node])
            lf._parent_node.remove_child(lf)
            tgt.add_child(lf)
    else:
        taxa = [nd.taxon for nd in tu.walk(t1.seed_node) if not nd._child_nodes and nd.taxon is not None]
        rng.shuffle(taxa)
        shape = tu.rand_shape(rng, len(taxa), p_poly=0.3, p_unary=0.1)
        t2 = tu.build_tree(dendropy, shape, t1.taxon_namespace, taxa, None, t1.is_rooted)
    toks2, _ = tu.encode_tree(t2, with_labels=False)
    return t1, toks2


def gen_pair(ctx, dendropy):
    rng = ctx.rng
    t1, toks2 = gen_two_trees(ctx, dendropy, ctx.pick(10, 25), 0.5)

    def flags():
        return [True, True] if rng.random() < 0.6 else [rng.random() < 0.5, rng.random() < 0.5]
    return tree_case(t1, "pair", tree2=toks2, flags1=flags(), flags2=flags())


def gen_rebuild(ctx, dendropy):
    rng = ctx.rng
    src = gen_tree(dendropy, rng, ctx.pick(10, 25))
    if src.is_rooted is None:
        src.is_rooted = rng.choice([True, False])
    return tree_case(src, "rebuild", perm_seed=rng.randint(0, 10 ** 9))


def gen_build(ctx, dendropy):
    rng = ctx.rng
    n = rng.randint(2, 8)
    holes = [0] if rng.random() < 0.15 else []
    tns = make_ns(dendropy, rng, n + len(holes), holes)
    allm = tns.all_taxa_bitmask()
    splits = []
    for _ in range(rng.randint(0, 7)):
        r = rng.random()
        if r < 0.7:
            splits.append(rng.getrandbits(n + len(holes)))
        elif r < 0.8:
            splits.append(allm)
        elif r < 0.9 and splits:
            splits.append(rng.choice(splits))
        else:
            splits.append(rng.getrandbits(n + 3))
    return {"op": "build", "rooted": rng.random() < 0.5, "splits": splits, "ns": namespace_desc(tns)}


def gen_treepreds(ctx, dendropy):
    rng = ctx.rng
    for _ in range(20):
        t1 = gen_tree(dendropy, rng, ctx.pick(9, 16), hole_rate=0.2)
        if bin(tu.leafset_masks(t1)[id(t1.seed_node)]).count("1") >= 3:
            break
    if t1.is_rooted is None:
        t1.is_rooted = rng.choice([True, False])
    taxa = [nd.taxon for nd in tu.walk(t1.seed_node) if not nd._child_nodes and nd.taxon is not None]
    rng.shuffle(taxa)
    t2 = tu.build_tree(dendropy, tu.rand_shape(rng, len(taxa), 0.3, 0.1), t1.taxon_namespace, taxa, None, t1.is_rooted)
    toks2, _ = tu.encode_tree(t2, with_labels=False)
    return tree_case(t1, "treepreds", tree2=toks2)


def gen_stale(ctx, dendropy):
    rng = ctx.rng
    case = gen_treepreds(ctx, dendropy)
    t1, _ = tree_for_case(dendropy, case)
    nodes = tu.walk(t1.seed_node)
    lvs = [i for i, nd in enumerate(nodes) if not nd._child_nodes]
    edit = None
    for _try in range(4):
        r = rng.random()
        if r < 0.4 and len(lvs) >= 2:
            x, y = rng.sample(lvs, 2)
            if nodes[x]._parent_node is not nodes[y]._parent_node:
                edit = ["swap", x, y]
        elif r < 0.7:
            internal = [i for i, nd in enumerate(nodes) if nd._child_nodes and nd._parent_node is not None]
            if internal:
                edit = ["collapse", rng.choice(internal), 0]
        else:
            big = [i for i, nd in enumerate(nodes) if len(nd._child_nodes) >= 3]
            if big:
                edit = ["group", rng.choice(big), 0]
        if edit:
            break
    if not edit:
        return case
    return dict(case, op="stalepred", edit=edit)


def gen_bip(ctx, dendropy):
    rng = ctx.rng
    nb = rng.randint(1, 9)
    fill = rng.getrandbits(nb) | (1 << rng.randrange(nb))
    if rng.random() < 0.5:
        fill = (1 << nb) - 1
    wide = nb + (2 if rng.random() < 0.3 else 0)       # raw leafsets may reach outside the tree leafset
    a, b = rng.getrandbits(wide), rng.getrandbits(wide)
    r = rng.random()
    if r < 0.2:
        b = (fill & ~a) | (a & rng.getrandbits(nb))
    elif r < 0.3:
        b = a | rng.getrandbits(nb)
    elif r < 0.34:
        a, b, fill = rng.randint(-40, 40), rng.randint(-40, 40), rng.choice([-3, -1, 5, 12, 1 << 70])
    op = "recompile" if rng.random() < 0.15 and fill > 0 and a >= 0 and b >= 0 else "bip"
    return {"op": op, "rooted": rng.random() < 0.5, "a": a, "b": b, "fill": fill}


def gen_bits(ctx, dendropy):
    rng = ctx.rng
    r = rng.random()
    s = rng.getrandbits(rng.choice([4, 9, 20, 70, 130])) if r < 0.9 else rng.randint(-20, 3)
    fill = -1 if rng.random() < 0.4 else rng.getrandbits(rng.choice([4, 9, 20, 70]))
    return {"op": "bits", "s": s, "fill": fill, "one_based": rng.random() < 0.3, "ord": rng.random() < 0.3}


def gen_nsmask(ctx, dendropy):
    rng = ctx.rng
    total = rng.randint(1, 70)
    nholes = rng.randint(0, min(3, total - 1)) if rng.random() < 0.5 else 0
    tns = make_ns(dendropy, rng, total, sorted(rng.sample(range(total), nholes)), p_copy=0.5)
    if rng.random() < 0.3 and getattr(tns, "_verif_recipe", None) is None:
        rng.shuffle(tns._taxa)
    return {"op": "nsmask", "ns": namespace_desc(tns), "i": rng.randrange(1000)}


def gen_hist(ctx, dendropy):
    rng = ctx.rng
    case = gen_treepreds(ctx, dendropy)
    t1, _ = tree_for_case(dendropy, case)
    steps = []
    for _ in range(rng.randint(2, 7)):
        r = rng.random()
        if r < 0.5:
            steps.append(["q", rng.random() < 0.45, rng.randrange(64)])
        elif r < 0.65:
            steps.append(["c", rng.random() < 0.7, rng.random() < 0.7])
        else:
            n = len(tu.walk(t1.seed_node))
            nodes = tu.walk(t1.seed_node)
            kind = rng.choice(EDIT_KINDS)
            i, j = rng.randrange(n), rng.randrange(n)
            lvs = [k for k, nd in enumerate(nodes) if not nd._child_nodes]
            internal = [k for k, nd in enumerate(nodes) if nd._child_nodes and nd._parent_node is not None]
            big = [k for k, nd in enumerate(nodes) if len(nd._child_nodes) >= 3]
            if kind == "swap" and len(lvs) >= 2:
                i, j = rng.sample(lvs, 2)
            elif kind == "collapse" and internal:
                i = rng.choice(internal)
            elif kind == "group" and big:
                i = rng.choice(big)
            elif kind in ("remove", "regraft") and lvs:
                i = rng.choice(lvs)
                if internal:
                    j = rng.choice(internal)
            steps.append(["e", kind, i, j])
            apply_edit(dendropy, t1, [kind, i, j])      # so that later indices are drawn for the tree as it will stand
    return dict(case, op="hist", steps=steps)


def gen_maintained(ctx, dendropy):
    rng = ctx.rng
    tree = gen_tree(dendropy, rng, ctx.pick(10, 25), hole_rate=0.2)
    # unifurcations matter here (an encoding made with suppress_unifurcations=False keeps their edges): make them frequent
    if rng.random() < 0.6:
        nodes = [nd for nd in tu.walk(tree.seed_node) if nd._parent_node is not None]
        for nd in rng.sample(nodes, min(len(nodes), rng.randint(1, 3))):
            p = nd._parent_node
            pos = p._child_nodes.index(nd)
            u = dendropy.Node()
            u.edge.length = tu.dyadic(rng, none_rate=0.3)
            p.remove_child(nd)
            u.add_child(nd)
            p.insert_child(pos, u)
    if rng.random() < 0.04:
        strip_some_taxa(rng, tree)
    n = len(tu.walk(tree.seed_node))
    ops = []
    for _ in range(rng.choice([1, 1, 1, 2, 2, 3, 4])):
        name = rng.choice(MAINT_OPS) if rng.random() < 0.8 else rng.choice(["suppress", "reseed", "prune_taxa", "node_edit", "collapse_basal"])
        ops.append([name, rng.randrange(2 * n), rng.randrange(2 * n), rng.randrange(10 ** 6), rng.random() < 0.75])
    return tree_case(tree, "maintained", sup=rng.random() < 0.5, col=rng.random() < 0.6, mutable=rng.random() < 0.15,
                     touch_maps=rng.random() < 0.5, ops=ops, perm_seed=rng.randint(0, 10 ** 9))


def gen_maint(ctx, dendropy):
    rng = ctx.rng
    tree = gen_tree(dendropy, rng, ctx.pick(10, 25), hole_rate=0.2)
    nodes = [nd for nd in tu.walk(tree.seed_node) if nd._parent_node is not None]
    for nd in rng.sample(nodes, min(len(nodes), rng.randint(0, 3))):
        p = nd._parent_node
        pos = p._child_nodes.index(nd)
        u = dendropy.Node()
        u.edge.length = tu.dyadic(rng, none_rate=0.3)
        p.remove_child(nd)
        u.add_child(nd)
        p.insert_child(pos, u)
    return tree_case(tree, "maint", col=rng.random() < 0.6)


GENS = {"pyint": gen_pyint, "pred": gen_pred, "encode": gen_encode, "pair": gen_pair, "rebuild": gen_rebuild, "build": gen_build,
        "treepreds": gen_treepreds, "stalepred": gen_stale, "reencode": gen_reencode,
        "bip": gen_bip, "bits": gen_bits, "nsmask": gen_nsmask, "hist": gen_hist, "maintained": gen_maintained, "maint": gen_maint}


def flush(ctx, pending):
    outs = ctx.ask([p[0] for p in pending])
    for (line, case, got), m in zip(pending, outs):
        if m is None:
            continue
        ctx.compared()
        mm = m.strip()
        if case.get("op") == "pred":
            # nested may be undefined on the Python side ('?')
            g, w = got.split(), mm.split()
            if len(g) == 3 and g[2] == "?":
                w = w[:2] + ["?"]
            if g != w:
                ctx.disagree("pred", case, got, mm)
        elif mm != got.strip():
            ctx.disagree(case.get("op", line.split()[0]), case, got[:400], mm[:400])
    del pending[:]


def gen_case(ctx, dendropy, op):
    """generators only build inputs through the Node/namespace API: a raise here is a harness error - except that a COPIED
    namespace whose bit assignment is broken turns into a case of its own, judged (and replayed) from its recipe"""
    try:
        case = GENS[op](ctx, dendropy)
    except NamespaceBroken as e:
        return {"op": "nsbroken", "ns": {"recipe": e.recipe}}
    if isinstance(case.get("ns"), dict) and case["ns"].get("recipe") is not None:
        ctx.count("namespace_copy_%s" % case["ns"]["recipe"]["route"])
    return case


OPS = [("pyint", 0.09), ("pred", 0.1), ("encode", 0.22), ("pair", 0.1), ("rebuild", 0.09), ("build", 0.07), ("treepreds", 0.06),
       ("stalepred", 0.03), ("reencode", 0.05), ("bip", 0.08), ("bits", 0.04), ("nsmask", 0.02), ("hist", 0.05), ("maintained", 0.12), ("maint", 0.03)]


def run(ctx):
    dendropy = __import__("dendropy")
    rng = ctx.rng
    ctx.set_budget(35, 600)
    pending = []
    n = ctx.pick(12000, 200000)
    names = [o[0] for o in OPS]
    weights = [o[1] for o in OPS]
    for _ in range(n):
        if ctx.out_of_time():
            break
        op = rng.choices(names, weights)[0]
        judge(ctx, dendropy, gen_case(ctx, dendropy, op), pending)
        if len(pending) >= 800:
            flush(ctx, pending)
    flush(ctx, pending)
    if ctx.tier == "thorough":
        exhaustive(ctx, dendropy, pending)


def exhaustive(ctx, dendropy, pending):
    """every shape <= 6 leaves (<= 4 with all labelings) x rooting x flags; all predicate triples on 4 bits, judged by the oracle"""
    count = 0
    for n in range(1, 7):
        for shape in tu.all_shapes(n):
            perms = itertools.permutations(range(n)) if n <= 4 else [tuple(range(n)), tuple(reversed(range(n)))]
            for perm in perms:
                for rooted in (True, False, None):
                    tns = tu.make_namespace(dendropy, n, extra=1)
                    members = list(tns)
                    tree = tu.build_tree(dendropy, shape, tns, [members[i] for i in perm], None, rooted)
                    judge(ctx, dendropy, tree_case(tree, "encode", sup=True, col=True, variant=0), pending)
                    count += 1
            if len(pending) >= 2000:
                flush(ctx, pending)
    flush(ctx, pending)
    for fill in range(1, 16):
        for a in range(16):
            for b in range(16):
                ctx.case(["pred", a, b, fill], True, kind="pred-exh")
                judge_pred(ctx, dendropy, {"op": "pred", "a": a, "b": b, "fill": fill}, pending, count=False)
    flush(ctx, pending)
    ctx.extra["exhaustive_small_scope"] = "%d (shape<=6 leaves, labeling, rooting) encodings; all 3840 predicate triples over 4 bits" % count


def replay(ctx, rec):
    """re-run ONE recorded case: every case is self-contained, so this is the same judge the run used"""
    dendropy = __import__("dendropy")
    pending = []
    if "replay" not in rec:
        # a record of correspondence disagreements without any oracle failure: re-ask the model about each recorded case
        for d in rec.get("correspondence_disagreements", []):
            if isinstance(d.get("case"), dict) and d["case"].get("op") in JUDGES:
                judge(ctx, dendropy, d["case"], pending)
        flush(ctx, pending)
        return
    c = rec["replay"]
    if c.get("op") not in JUDGES or "rng_state" in c:
        ctx.note("replay record of an unknown/legacy format: %s" % sorted(c)[:8])
        return
    judge(ctx, dendropy, c, pending)
    flush(ctx, pending)


def search(ctx, broken):
    """obligations broke (a generated file could not be regenerated, a refinement / `kernel_*` bridge theorem no longer builds) or the
    model disagrees: look for a concrete failing input on the real code in the mechanisms the regenerated definitions come from -
    exhaustive small domains of the integer functions, predicates and Bipartition objects against their set-theoretic meaning, the
    set-bit enumeration, the namespace masks, and a batch of encodings / rebuilds / histories / maintained encodings judged by the
    from-scratch oracles (all randomness from ctx.rng)"""
    dendropy = __import__("dendropy")
    pending = []
    for fill in range(1, 32):
        judge(ctx, dendropy, {"op": "lsb", "n": fill}, pending)
        for a in range(32):
            judge(ctx, dendropy, {"op": "bits", "s": a, "fill": fill, "one_based": bool(a & 1), "ord": bool(a & 2)}, pending)
            judge(ctx, dendropy, {"op": "bits", "s": a * fill, "fill": -1, "one_based": False, "ord": False}, pending)
            if a & ~fill:
                continue
            judge(ctx, dendropy, {"op": "normalize", "a": a, "fill": fill}, pending)
            for b in range(32):
                if b & ~fill:
                    continue
                judge_pred(ctx, dendropy, {"op": "pred", "a": a, "b": b, "fill": fill}, pending, count=False)
        if ctx.failures:
            break
    for fill in range(1, 16):
        for a in range(32):
            for b in range(0, 32, 3):
                for rooted in (False, True):
                    judge(ctx, dendropy, {"op": "bip", "rooted": rooted, "a": a, "b": b, "fill": fill}, pending)
            judge(ctx, dendropy, {"op": "recompile", "rooted": bool(a & 1), "a": a, "b": (a * 7 + fill) % 32, "fill": fill}, pending)
    for op, n in (("nsmask", 60), ("encode", 400), ("rebuild", 300), ("pair", 200), ("treepreds", 120), ("hist", 200),
                  ("stalepred", 100), ("maintained", 300)):
        for _ in range(n):
            if len(ctx.failures) > 40:
                break
            judge(ctx, dendropy, gen_case(ctx, dendropy, op), pending)
    del pending[:]
