"""C01 - bipartition encoding is exact, canonical and sufficient to rebuild the topology."""
import itertools

import treeutil as tu

ID = "C01"
GEN_DEPENDS = ["PyBits"]
RULE = ("random rose trees 1-12 leaves (40 in thorough) built through the Node API over namespaces with extra members, removed "
        "members (holes, incl. bit 0) and shuffled taxon->bit assignment, unary nodes and polytomies, three rooting states x "
        "encode flags; pairs (re-drawn: children shuffled, unifurcations inserted, unrooted re-seeded by an independent graph "
        "re-rooting / different topology); rebuilds from shuffled encodings and from arbitrary split lists; predicate triples on "
        "raw integers (negative and > 2^64 included) and on real Bipartition objects. Non-trivial = tree with >= 4 leaves and "
        ">= 1 internal edge (encode/pairs/rebuild) or masks that are neither 0 nor full (predicates)")
MODELLED_NOT_VERIFIED = [
    "C01: encode_bipartitions / from_split_bitmasks are hand-modelled (lean/DendroModel/Model/{TreeOps,C01,Hier}.lean) and tied "
    "to the code by the correspondence on generated trees; the four integer functions are regenerated from source (Gen/PyBits.lean)",
    "C01: the mutable Bipartition object protocol (is_mutable, hashing by split mask) and the edge-map caches are not modelled",
]
EXPLANATION = ("Theorems over all masks/trees: refinement of the generated integer functions to set operations, mask_spec, split_spec, "
               "equal clade sets <-> same topology up to child order and unifurcations (rooted), invariance of normalised split sets under "
               "an edge inversion (unrooted seed position), ins_spec/build_spec for greedy reconstruction in any order, predicate "
               "characterisations.")


# ------------------------------------------------------------------ independent oracles
def graph(tree):
    """undirected adjacency over node objects + leaf taxon bits"""
    tns = tree.taxon_namespace
    adj, bit = {}, {}
    for nd in tu.walk(tree.seed_node):
        adj.setdefault(id(nd), [])
        for c in nd._child_nodes:
            adj[id(nd)].append(id(c))
            adj.setdefault(id(c), []).append(id(nd))
        if not nd._child_nodes and nd.taxon is not None:
            bit[id(nd)] = tu.bit_of(tns, nd.taxon)
    return adj, bit


def canon_from(adj, bit, v, parent, extra_at=None, extras=()):
    """sorted nested form of the component hanging below v (coming from parent); degree-2 vertices suppressed;
    taxon-less dead ends dropped; `extras` (bits) are attached as leaves at vertex `extra_at`"""
    kids = [w for w in adj[v] if w != parent]
    forms = []
    if v in bit:
        forms.append("t%d" % bit[v])
    for w in kids:
        f = canon_from(adj, bit, w, v, extra_at, extras)
        if f is not None:
            forms.append(f)
    if v == extra_at:
        forms.extend("t%d" % e for e in extras)
    if not forms:
        return None
    if len(forms) == 1:
        return forms[0]
    return "(" + ",".join(sorted(forms)) + ")"


def with_extras(tree, extras, unrooted):
    """graph of the tree the rebuild is expected to produce: absent namespace members hang from a new root vertex;
    rooted: together with the old seed; unrooted: together with the lowest leaf and the rest of the tree (the lowest
    leaf's own split, normalised, is the clade 'everything else on the tree', so the rest stays together)"""
    adj, bit = graph(tree)
    adj = {v: list(ws) for v, ws in adj.items()}
    root = id(tree.seed_node)
    if not extras:
        return adj, bit, root
    R = -1
    adj[R] = []
    for k, e in enumerate(extras):
        v = -2 - k
        adj[v] = [R]
        adj[R].append(v)
        bit[v] = e
    if unrooted and bit:
        tree_leaves = [v for v in bit if v >= 0]
        low = min(tree_leaves, key=lambda v: bit[v])
        if adj[low]:
            nb = adj[low][0]
            adj[low].remove(nb)
            adj[nb].remove(low)
            adj[nb].append(R)
            adj[R].append(nb)
        adj[low].append(R)
        adj[R].append(low)
    else:
        adj[root].append(R)
        adj[R].append(root)
    return adj, bit, R


def canon_rooted_g(adj, bit, root):
    return canon_from(adj, bit, root, None)


def canon_unrooted_g(adj, bit):
    """canonical form of the unrooted tree: rooted AT the leaf with the lowest taxon bit, degree-2 vertices suppressed"""
    if not bit:
        return None
    low = min(bit, key=lambda v: bit[v])
    parts = ["t%d" % bit[low]]
    for w in adj[low]:
        f = canon_from(adj, bit, w, low)
        if f is not None:
            parts.append(f)
    if len(parts) == 1:
        return parts[0]
    return "(" + ",".join(sorted(parts)) + ")"


def canon_rooted(tree, extras=()):
    adj, bit, root = with_extras(tree, extras, False)
    return canon_rooted_g(adj, bit, root)


def canon_unrooted(tree, extras=()):
    adj, bit, _ = with_extras(tree, extras, True)
    return canon_unrooted_g(adj, bit)


def split_top(s):
    """top-level comma split of '(a,b,(c,d))'"""
    assert s[0] == "(" and s[-1] == ")"
    out, depth, cur = [], 0, ""
    for ch in s[1:-1]:
        if ch == "," and depth == 0:
            out.append(cur)
            cur = ""
            continue
        depth += ch == "("
        depth -= ch == ")"
        cur += ch
    out.append(cur)
    return out


def bits_of(m):
    return {i for i in range(m.bit_length()) if (m >> i) & 1}


def quadrants_empty(A, B, F):
    return (not (A & B)) or (not (A - B)) or (not (B - A)) or (not (F - (A | B)))


# ------------------------------------------------------------------ generators
def gen_tree(dendropy, rng, max_leaves, hole_rate=0.3):
    n = rng.randint(1, max_leaves)
    r = rng.random()
    if r < 0.1:
        shape = rng.choice(tu.shape_families(n))
    else:
        shape = tu.rand_shape(rng, n, p_poly=rng.choice([0.0, 0.25, 0.5]), p_unary=rng.choice([0.0, 0.1, 0.25]))
    extra = rng.randint(0, 3)
    nholes = rng.randint(0, 2) if rng.random() < hole_rate else 0
    total = n + extra + nholes
    holes = sorted(rng.sample(range(total), nholes))
    if nholes and rng.random() < 0.5:
        holes[0] = 0
        holes = sorted(set(holes))
    tns = tu.make_namespace(dendropy, 0, labels=["t%d" % i for i in range(total)], holes=holes)
    members = list(tns)
    taxa = rng.sample(members, n)
    if rng.random() < 0.15:
        rng.shuffle(tns._taxa)   # membership order is independent of bits
    lens = (lambda: tu.dyadic(rng, none_rate=0.2)) if rng.random() < 0.7 else None
    rooted = rng.choice([True, False, None])
    return tu.build_tree(dendropy, shape, tns, taxa, lens, rooted)


def redraw(dendropy, rng, tree, unrooted):
    """an independently constructed tree with the same (un)rooted topology: shuffled children, inserted unifurcations,
    and (unrooted) a different seed position, built from the adjacency graph - never through reseed_at"""
    adj, bit = graph(tree)
    tns = tree.taxon_namespace
    by_bit = {tns.accession_index(t): t for t in tns}
    verts = list(adj)
    root = id(tree.seed_node)
    if unrooted and len(verts) > 1:
        internal = [v for v in verts if v not in bit]
        root = rng.choice(internal or verts)

    def go(v, parent):
        nd = dendropy.Node()
        if v in bit:
            nd.taxon = by_bit[bit[v]]
        kids = [w for w in adj[v] if w != parent]
        rng.shuffle(kids)
        for w in kids:
            c = go(w, v)
            if rng.random() < 0.15:
                u = dendropy.Node()
                u.add_child(c)
                c = u
            nd.add_child(c)
        return nd
    if root in bit and adj[root]:
        # a leaf cannot be the seed of a tree that keeps its taxon on a leaf: hang it under a fresh seed
        seed = dendropy.Node()
        leaf = dendropy.Node()
        leaf.taxon = by_bit[bit[root]]
        seed.add_child(leaf)
        for w in adj[root]:
            seed.add_child(go(w, root))
    else:
        seed = go(root, None)
    t = dendropy.Tree(taxon_namespace=tns, seed_node=seed)
    t.is_rooted = tree.is_rooted
    return t


def nontrivial_tree(tree):
    nodes = tu.walk(tree.seed_node)
    leaves = [n for n in nodes if not n._child_nodes]
    internal = [n for n in nodes if n._child_nodes and n is not tree.seed_node]
    return len(leaves) >= 4 and len(internal) >= 1


ROOT = {True: "R", False: "U", None: "N"}


# ------------------------------------------------------------------ ops
def op_pyint(ctx, dendropy, pending):
    from dendropy.datamodel.treemodel._bipartition import Bipartition
    from dendropy.utility import bitprocessing
    rng = ctx.rng

    def rint():
        r = rng.random()
        if r < 0.3:
            return rng.randint(-40, 40)
        if r < 0.6:
            return rng.getrandbits(rng.choice([8, 20, 70, 130])) * rng.choice([1, -1])
        return rng.randint(0, 255)
    a, b, k = rint(), rint(), rng.randint(0, 70)
    got = "%d %d %d %d %d %d %d" % (a & b, a | b, a ^ b, ~a, a << k, Bipartition.normalize_bitmask(a, b, k),
                                    bitprocessing.least_significant_set_bit(a))
    ctx.case(["pyint", a, b, k], a not in (0, -1) and b not in (0, -1), kind="pyint")
    pending.append(("pyint %d %d %d" % (a, b, k), {"op": "pyint", "a": a, "b": b, "k": k}, got))


def op_pred(ctx, dendropy, pending):
    from dendropy.datamodel.treemodel._bipartition import Bipartition
    rng = ctx.rng
    nb = rng.randint(1, 9)
    if rng.random() < 0.85:
        fill = (1 << nb) - 1
        if rng.random() < 0.3:
            fill &= ~(1 << rng.randrange(nb))
        a, b = rng.getrandbits(nb), rng.getrandbits(nb)
        if rng.random() < 0.7:
            a &= fill
            b &= fill
    else:
        fill, a, b = rng.randint(-5, 600), rng.randint(-600, 600), rng.randint(-600, 600)
    got = "%d %d" % (int(Bipartition.is_trivial_bitmask(a, fill)), int(Bipartition.is_compatible_bitmasks(a, b, fill)))
    try:
        b1 = Bipartition(leafset_bitmask=a, tree_leafset_bitmask=fill, compile_bipartition=False)
        nested = int(bool(b1.is_leafset_nested_within(b)))
    except Exception:
        nested = None
    case = {"op": "pred", "a": a, "b": b, "fill": fill}
    ctx.case(["pred", a, b, fill], a not in (0, fill) and b not in (0, fill), sample=case, kind="pred")
    # oracle on the domain the statement speaks about: masks within a non-empty fill
    if fill > 0 and 0 <= a and 0 <= b and (a & ~fill) == 0 and (b & ~fill) == 0:
        A, B, F = bits_of(a), bits_of(b), bits_of(fill)
        want_triv = len(A) <= 1 or len(F - A) <= 1
        if bool(Bipartition.is_trivial_bitmask(a, fill)) != want_triv:
            ctx.fail("predicate", "is_trivial_bitmask(%d, %d) = %s but the split has sides of %d and %d taxa" % (
                a, fill, not want_triv, len(A), len(F - A)), case)
        # rooted clades, or unrooted splits normalised on a common lowest bit: nested-or-disjoint
        low = min(F)
        if (low not in A and low not in B):
            want = quadrants_empty(A, B, F)
            if bool(Bipartition.is_compatible_bitmasks(a, b, fill)) != want:
                ctx.fail("predicate", "is_compatible_bitmasks(%d,%d,%d) = %s, four-quadrant definition says %s" % (a, b, fill, not want, want), case)
        want = (not (A & B)) or A <= B or B <= A
        if low in A or low in B:
            if bool(Bipartition.is_compatible_bitmasks(a, b, fill)) != want:
                ctx.fail("predicate", "is_compatible_bitmasks(%d,%d,%d) on clades = %s, nested-or-disjoint says %s" % (a, b, fill, not want, want), case)
        if nested is not None and bool(nested) != (A <= B):
            ctx.fail("predicate", "is_leafset_nested_within: leafset %d within %d (fill %d) = %s" % (a, b, fill, bool(nested)), case)
    line = "pred %d %d %d" % (a, b, fill)
    pending.append((line, case, got + (" %d" % nested if nested is not None else " ?")))


def run_encode(tree, sup, col, variant=0):
    """variant: 0 encode_bipartitions, 1 update_bipartitions (alias), 2 mutable bipartitions, 3 suppress_storage"""
    if variant == 1:
        tree.update_bipartitions(suppress_unifurcations=sup, collapse_unrooted_basal_bifurcation=col)
    elif variant == 2:
        tree.encode_bipartitions(suppress_unifurcations=sup, collapse_unrooted_basal_bifurcation=col, is_bipartitions_mutable=True)
    elif variant == 3:
        tree.encode_bipartitions(suppress_unifurcations=sup, collapse_unrooted_basal_bifurcation=col, suppress_storage=True)
        if tree.bipartition_encoding is not None:
            raise AssertionError("suppress_storage=True left a bipartition_encoding list")
        return sorted((nd.edge.bipartition.leafset_bitmask, nd.edge.bipartition.split_bitmask) for nd in tu.walk(tree.seed_node))
    else:
        tree.encode_bipartitions(suppress_unifurcations=sup, collapse_unrooted_basal_bifurcation=col)
    return sorted((b.leafset_bitmask, b.split_bitmask) for b in tree.bipartition_encoding)


def check_encoding_exact(ctx, tree, case, stored=True, maps=True):
    """clauses (a),(b) on the real objects after encoding, by a from-scratch walk"""
    masks = tu.leafset_masks(tree)
    L = masks[id(tree.seed_node)]
    rooted = bool(tree.is_rooted)
    low = (L & -L)
    seen = []
    for nd in tu.walk(tree.seed_node):
        b = nd.edge.bipartition
        if b is None:
            ctx.fail("encoding", "an edge has no bipartition after encode_bipartitions", case)
            return
        want = masks[id(nd)]
        if b.leafset_bitmask != want:
            ctx.fail("encoding", "edge leafset bitmask %d, taxa on the leaves below give %d" % (b.leafset_bitmask, want), case)
            return
        if nd.edge.leafset_bitmask != want or nd.edge.split_bitmask != b.split_bitmask:
            ctx.fail("encoding", "Edge.leafset_bitmask/split_bitmask accessors disagree with the bipartition", case)
            return
        if L == 0:
            continue
        if rooted:
            ws = want
        else:
            ws = (L & ~want) if (want & low) else want
        if b.split_bitmask != ws:
            ctx.fail("encoding", "split bitmask %s for leafset %d on tree leafset %d (rooted=%s), expected %d" % (
                b.split_bitmask, want, L, tree.is_rooted, ws), case)
            return
        seen.append(id(b))
    if not stored:
        return
    enc = tree.bipartition_encoding
    if sorted(id(b) for b in enc) != sorted(id(nd.edge.bipartition) for nd in tu.walk(tree.seed_node)):
        ctx.fail("encoding", "bipartition_encoding is not exactly one bipartition per retained edge", case)
    if L and maps:      # mutable bipartitions are unhashable by design, so the edge maps are not available for them
        sbm = tree.split_bitmask_edge_map
        for nd in tu.walk(tree.seed_node):
            if nd.edge.split_bitmask not in sbm:
                ctx.fail("encoding", "split_bitmask_edge_map lacks a split of the tree", case)
                break


def op_encode(ctx, dendropy, pending, tree=None, flags=None, variant=None):
    rng = ctx.rng
    tree = tree or gen_tree(dendropy, rng, ctx.pick(12, 40) if rng.random() < 0.9 else 3)
    sup, col = flags or (rng.random() < 0.8, rng.random() < 0.8)
    toks, ids = tu.encode_tree(tree, with_labels=False)
    case = {"op": "encode", "tree": toks, "rooted": ROOT[tree.is_rooted], "sup": sup, "col": col,
            "ns": namespace_desc(tree.taxon_namespace)}
    if variant is not None:
        case["variant"] = variant
    if tu.leafset_masks(tree)[id(tree.seed_node)] == 0:
        return  # no taxon at all: the library leaves split masks undefined
    nt = nontrivial_tree(tree)
    variant = case.get("variant", rng.choice([0, 0, 0, 1, 2, 3]))
    case["variant"] = variant
    pairs = run_encode(tree, sup, col, variant)
    probs = tu.arborescence_problems(tree)
    if probs:
        ctx.fail("encoding", "tree malformed after encode_bipartitions: %s" % probs, case)
    check_encoding_exact(ctx, tree, case, stored=(variant != 3), maps=(variant != 2))
    got = " ".join("%d:%d" % p for p in pairs) + " | " + tu.render_tree(tree, ids)
    ctx.case(["encode", toks, case["rooted"], sup, col], nt, sample=case, kind="encode")
    pending.append(("encode %s %d %d %s" % (case["rooted"], sup, col, " ".join(toks)), case, got))



def op_reencode(ctx, dendropy, pending):
    """encode, edit the tree through the public API, encode again: the second encoding must describe the edited tree
    (a stale or partially refreshed encoding is the classic slip)"""
    rng = ctx.rng
    tree = gen_tree(dendropy, rng, ctx.pick(10, 25), hole_rate=0.2)
    if tu.leafset_masks(tree)[id(tree.seed_node)] == 0:
        return
    tree.encode_bipartitions()
    _ = tree.split_bitmask_edge_map
    nodes = tu.walk(tree.seed_node)
    leaves = [nd for nd in nodes if not nd._child_nodes]
    edits = []
    for _k in range(rng.randint(1, 3)):
        r = rng.random()
        nodes = tu.walk(tree.seed_node)
        leaves = [nd for nd in nodes if not nd._child_nodes]
        if r < 0.35 and len(leaves) >= 2:
            a, b = rng.sample(leaves, 2)
            a.taxon, b.taxon = b.taxon, a.taxon
            edits.append("swap")
        elif r < 0.6 and len(leaves) >= 3:
            lf = rng.choice(leaves)
            if lf._parent_node is not None and len(lf._parent_node._child_nodes) > 1:
                lf._parent_node.remove_child(lf)
                edits.append("remove")
        elif r < 0.85 and len(leaves) >= 3:
            lf = rng.choice(leaves)
            p = lf._parent_node
            targets = [nd for nd in nodes if nd._child_nodes and nd is not p]
            if p is not None and len(p._child_nodes) > 2 and targets:
                p.remove_child(lf)
                rng.choice(targets).add_child(lf)
                edits.append("regraft")
        else:
            unused = [t for t in tree.taxon_namespace if t not in {nd.taxon for nd in leaves}]
            internal = [nd for nd in nodes if nd._child_nodes]
            if unused and internal:
                rng.choice(internal).new_child(taxon=unused[0])
                edits.append("newchild")
    toks, ids = tu.encode_tree(tree, with_labels=False)
    case = {"op": "encode", "tree": toks, "rooted": ROOT[tree.is_rooted], "sup": True, "col": True,
            "ns": namespace_desc(tree.taxon_namespace), "after_edits": edits}
    if tu.leafset_masks(tree)[id(tree.seed_node)] == 0:
        return
    pairs = run_encode(tree, True, True)
    check_encoding_exact(ctx, tree, case)
    ctx.case(["reencode", toks, case["rooted"], edits], nontrivial_tree(tree), sample=case, kind="reencode")
    got = " ".join("%d:%d" % p for p in pairs) + " | " + tu.render_tree(tree, ids)
    pending.append(("encode %s 1 1 %s" % (case["rooted"], " ".join(toks)), case, got))


def namespace_desc(tns):
    return {"bits": [tns.accession_index(t) for t in tns], "count": tns._current_accession_count}


def tree_for_case(dendropy, case):
    """rebuild the real tree of a recorded case (namespace with the recorded member bits, holes included)"""
    ns = case["ns"]
    tns = dendropy.TaxonNamespace(["t%d" % i for i in range(ns["count"])])
    keep = set(ns["bits"])
    for t in list(tns):
        if tns.accession_index(t) not in keep:
            tns.remove_taxon(t)
    order = {b: i for i, b in enumerate(ns["bits"])}
    tns._taxa.sort(key=lambda t: order[tns.accession_index(t)])
    rooted = {"R": True, "U": False, "N": None}[case["rooted"]]
    tree, ids = tu.tree_from_tokens(dendropy, case["tree"], rooted=rooted, tns=tns)
    return tree, ids


def op_pair(ctx, dendropy):
    """clause (c): equal split sets <=> same topology"""
    rng = ctx.rng
    t1 = gen_tree(dendropy, rng, ctx.pick(10, 25))
    if tu.leafset_masks(t1)[id(t1.seed_node)] == 0:
        return
    unrooted = not t1.is_rooted
    same = rng.random() < 0.5
    if same:
        t2 = redraw(dendropy, rng, t1, unrooted)
    else:
        # different drawing of the same leaf set: random other shape, or a small local change
        leaves = [nd.taxon for nd in tu.walk(t1.seed_node) if not nd._child_nodes and nd.taxon is not None]
        taxa = list(leaves)
        rng.shuffle(taxa)
        shape = tu.rand_shape(rng, len(taxa), p_poly=0.3, p_unary=0.1)
        t2 = tu.build_tree(dendropy, shape, t1.taxon_namespace, taxa, None, t1.is_rooted)
    toks1, _ = tu.encode_tree(t1, with_labels=False)
    toks2, _ = tu.encode_tree(t2, with_labels=False)
    case = {"op": "pair", "tree": toks1, "tree2": toks2, "rooted": ROOT[t1.is_rooted], "ns": namespace_desc(t1.taxon_namespace)}
    canon = canon_unrooted if unrooted else canon_rooted
    c1, c2 = canon(t1), canon(t2)
    s1 = set(b.split_bitmask for b in t1.encode_bipartitions())
    s2 = set(b.split_bitmask for b in t2.encode_bipartitions())
    ctx.case(["pair", toks1, toks2, case["rooted"]], nontrivial_tree(t1), sample=case, kind="pair-same" if c1 == c2 else "pair-diff")
    if (s1 == s2) != (c1 == c2):
        ctx.fail("sufficiency", "split sets %s while topologies %s (rooting %s): %s vs %s" % (
            "equal" if s1 == s2 else "differ", "equal" if c1 == c2 else "differ", case["rooted"], c1, c2), case)


def op_rebuild(ctx, dendropy, pending):
    """clause (d): a tree rebuilt from an encoding in any order has that topology over all namespace taxa"""
    rng = ctx.rng
    src = gen_tree(dendropy, rng, ctx.pick(10, 25))
    if src.is_rooted is None:
        src.is_rooted = rng.choice([True, False])
    tns = src.taxon_namespace
    toks, _ = tu.encode_tree(src, with_labels=False)
    case = {"op": "rebuild", "tree": toks, "rooted": ROOT[src.is_rooted], "ns": namespace_desc(tns), "perm_seed": rng.randint(0, 10 ** 9)}
    L = tu.leafset_masks(src)[id(src.seed_node)]
    if L == 0:
        return
    enc = list(src.encode_bipartitions())
    import random as _r
    _r.Random(case["perm_seed"]).shuffle(enc)
    rebuilt = dendropy.Tree.from_bipartition_encoding(enc, taxon_namespace=tns, is_rooted=src.is_rooted)
    probs = tu.arborescence_problems(rebuilt)
    if probs:
        ctx.fail("rebuild", "rebuilt tree malformed: %s" % probs, case)
    extras = sorted(tns.accession_index(t) for t in tns if not (L >> tns.accession_index(t)) & 1)
    if src.is_rooted:
        want, got = canon_rooted(src, extras), canon_rooted(rebuilt)
    else:
        want, got = canon_unrooted(src, extras), canon_unrooted(rebuilt)
    ctx.case(["rebuild", toks, case["rooted"], case["perm_seed"]], nontrivial_tree(src), sample=case, kind="rebuild")
    if want != got:
        ctx.fail("rebuild", "tree rebuilt from its (shuffled) encoding has topology %s, source (+ absent namespace members at the root) is %s" % (got, want), case)
    if bool(rebuilt.is_rooted) != bool(src.is_rooted):
        ctx.fail("rebuild", "rebuilt tree has rooting %s, source %s" % (rebuilt.is_rooted, src.is_rooted), case)
    # correspondence of from_split_bitmasks incl. child order, on the same shuffled split list
    splits = [b.split_bitmask for b in enc]
    add_build_line(ctx, dendropy, tns, bool(src.is_rooted), splits, pending)


def render_h(nd, tns):
    if not nd._child_nodes:
        return str(tns.accession_index(nd.taxon))
    return "(" + ",".join(render_h(c, tns) for c in nd._child_nodes) + ")"


def add_build_line(ctx, dendropy, tns, rooted, splits, pending):
    members = [tns.accession_index(t) for t in tns]
    t = dendropy.Tree.from_split_bitmasks(splits, taxon_namespace=tns, is_rooted=rooted)
    got = render_h(t.seed_node, tns)
    case = {"op": "build", "rooted": rooted, "splits": splits, "ns": namespace_desc(tns)}
    line = "build %d %d %d %s %s" % (tns.all_taxa_bitmask(), rooted, len(members), " ".join(map(str, members)), " ".join(map(str, splits)))
    pending.append((line.strip(), case, got))


def op_build_arbitrary(ctx, dendropy, pending):
    """from_split_bitmasks on arbitrary lists: compatible, incompatible, duplicate, trivial, full, out-of-range masks"""
    rng = ctx.rng
    n = rng.randint(2, 8)
    holes = [0] if rng.random() < 0.15 else []
    tns = tu.make_namespace(dendropy, 0, labels=["t%d" % i for i in range(n + len(holes))], holes=holes)
    allm = tns.all_taxa_bitmask()
    splits = []
    for _ in range(rng.randint(0, 7)):
        r = rng.random()
        if r < 0.7:
            splits.append(rng.getrandbits(n + len(holes)))
        elif r < 0.8:
            splits.append(allm)
        elif r < 0.9 and splits:
            splits.append(rng.choice(splits))
        else:
            splits.append(rng.getrandbits(n + 3))
    rooted = rng.random() < 0.5
    ctx.case(["build", n, holes, rooted, splits], len(splits) >= 2, kind="build")
    add_build_line(ctx, dendropy, tns, rooted, splits, pending)


def op_tree_preds(ctx, dendropy, pending):
    """clause (e) on real Bipartition objects of two trees over the same leaves"""
    rng = ctx.rng
    t1 = gen_tree(dendropy, rng, ctx.pick(9, 16), hole_rate=0.2)
    if t1.is_rooted is None:
        t1.is_rooted = rng.choice([True, False])
    masks = tu.leafset_masks(t1)
    L = masks[id(t1.seed_node)]
    if L == 0 or bin(L).count("1") < 3:
        return
    leaves = [nd.taxon for nd in tu.walk(t1.seed_node) if not nd._child_nodes and nd.taxon is not None]
    taxa = list(leaves)
    rng.shuffle(taxa)
    t2 = tu.build_tree(dendropy, tu.rand_shape(rng, len(taxa), 0.3, 0.1), t1.taxon_namespace, taxa, None, t1.is_rooted)
    toks1, _ = tu.encode_tree(t1, with_labels=False)
    toks2, _ = tu.encode_tree(t2, with_labels=False)
    case = {"op": "treepreds", "tree": toks1, "tree2": toks2, "rooted": ROOT[t1.is_rooted], "ns": namespace_desc(t1.taxon_namespace)}
    e1 = list(t1.encode_bipartitions())
    e2 = list(t2.encode_bipartitions())
    F = bits_of(L)
    rooted = bool(t1.is_rooted)
    ctx.case(["treepreds", toks1, toks2, case["rooted"]], nontrivial_tree(t1), sample=case, kind="treepreds")

    def side(b):
        return bits_of(b.leafset_bitmask)

    def compatible(A, B):
        if rooted:
            return (not (A & B)) or A <= B or B <= A
        return quadrants_empty(A, B, F)
    for b in e1[:12]:
        A = side(b)
        want = len(A) <= 1 or len(F - A) <= 1
        if bool(b.is_trivial()) != want:
            ctx.fail("predicate", "Bipartition.is_trivial() = %s for a split with sides %d/%d" % (b.is_trivial(), len(A), len(F - A)), case)
            return
    for b1 in e1[:8]:
        for b2 in e2[:8]:
            A, B = side(b1), side(b2)
            if bool(b1.is_compatible_with(b2)) != compatible(A, B):
                ctx.fail("predicate", "is_compatible_with = %s for leafsets %s / %s of %s (rooted=%s)" % (
                    b1.is_compatible_with(b2), sorted(A), sorted(B), sorted(F), rooted), case)
                return
            if bool(b1.is_leafset_nested_within(b2)) != (A <= B):
                ctx.fail("predicate", "is_leafset_nested_within = %s for %s within %s" % (b1.is_leafset_nested_within(b2), sorted(A), sorted(B)), case)
                return
    for b2 in e2[:10]:
        want = all(compatible(side(b1), side(b2)) for b1 in e1)
        got = bool(t1.is_compatible_with_bipartition(b2))
        if rng.random() < 0.3:
            t1.encode_bipartitions()
            got_u = bool(t1.is_compatible_with_bipartition(b2, is_bipartitions_updated=True))
            if got_u != want:
                ctx.fail("predicate", "Tree.is_compatible_with_bipartition(is_bipartitions_updated=True) on a current encoding = %s, set definition says %s" % (got_u, want), case)
                return
        if got != want:
            ctx.fail("predicate", "Tree.is_compatible_with_bipartition = %s, set definition over all edges says %s (leafset %s)" % (
                got, want, sorted(side(b2))), case)
            return
        line = "compat %s %d %s" % (case["rooted"], b2.split_bitmask, " ".join(toks1))
        pending.append((line, dict(case, split=b2.split_bitmask), "1" if got else "0"))
    # the tree now carries an encoding: edit it through the public API and ask again with default arguments —
    # the answer must describe the tree as it stands, not the encoding left behind by the earlier calls
    nodes = tu.walk(t1.seed_node)
    idx = dict((id(nd), i) for i, nd in enumerate(nodes))
    lvs = [nd for nd in nodes if not nd._child_nodes]
    edit = None
    for _try in range(3):
        r = rng.random()
        if r < 0.4 and len(lvs) >= 2:
            x, y = rng.sample(lvs, 2)
            if x._parent_node is not y._parent_node:
                edit = ["swap", idx[id(x)], idx[id(y)]]
        elif r < 0.7:
            internal = [nd for nd in nodes if nd._child_nodes and nd._parent_node is not None]
            if internal:
                edit = ["collapse", idx[id(rng.choice(internal))], 0]
        else:
            big = [nd for nd in nodes if len(nd._child_nodes) >= 3]
            if big:
                edit = ["group", idx[id(rng.choice(big))], 0]
        if edit:
            break
    if edit:
        stale_history(ctx, dendropy, t1, e2[:10], edit, dict(case, op="stalepred", edit=edit), queried=True)


def stale_history(ctx, dendropy, t1, queries, edit, case, queried=False):
    """query -> edit through the public API -> query again with default arguments"""
    if not queried:
        for b2 in queries:
            t1.is_compatible_with_bipartition(b2)
    nodes = tu.walk(t1.seed_node)
    kind, i, j = edit
    if kind == "swap":
        x, y = nodes[i], nodes[j]
        x.taxon, y.taxon = y.taxon, x.taxon
    elif kind == "collapse":
        nodes[i].edge.collapse()
    else:
        nd = nodes[i]
        k1, k2 = nd._child_nodes[0], nd._child_nodes[1]
        new = dendropy.Node()
        nd.remove_child(k1)
        nd.remove_child(k2)
        new.add_child(k1)
        new.add_child(k2)
        nd.add_child(new)
    rooted = bool(t1.is_rooted)
    m1 = tu.leafset_masks(t1)
    F = bits_of(m1[id(t1.seed_node)])
    sides1 = [bits_of(m1[id(nd)]) for nd in tu.walk(t1.seed_node)]

    def compatible(A, B):
        if rooted:
            return (not (A & B)) or A <= B or B <= A
        return quadrants_empty(A, B, F)
    for b2 in queries:
        B = bits_of(b2.leafset_bitmask)
        want = all(compatible(A, B) for A in sides1)
        got = bool(t1.is_compatible_with_bipartition(b2))
        if got != want:
            ctx.fail("predicate", "after the edit %s, Tree.is_compatible_with_bipartition (default arguments) = %s for leafset %s; "
                     "the set definition on the tree as it stands says %s" % (edit, got, sorted(B), want), case)
            return


def flush(ctx, pending):
    outs = ctx.ask([p[0] for p in pending])
    for (line, case, got), m in zip(pending, outs):
        if m is None:
            continue
        ctx.compared()
        mm = m.strip()
        if case.get("op") == "pred":
            # nested may be undefined on the Python side ('?')
            g, w = got.split(), mm.split()
            if len(g) == 3 and g[2] == "?":
                w = w[:2] + ["?"]
            if g != w:
                ctx.disagree("pred", case, got, mm)
        elif mm != got.strip():
            ctx.disagree(case.get("op", line.split()[0]), case, got[:400], mm[:400])
    del pending[:]


OPS = [("pyint", 0.13), ("pred", 0.14), ("encode", 0.27), ("pair", 0.12), ("rebuild", 0.1), ("build", 0.08), ("treepreds", 0.1), ("reencode", 0.06)]


def run_op(ctx, dendropy, op, pending):
    if op == "pyint":
        op_pyint(ctx, dendropy, pending)
    elif op == "pred":
        op_pred(ctx, dendropy, pending)
    elif op == "encode":
        op_encode(ctx, dendropy, pending)
    elif op == "pair":
        op_pair(ctx, dendropy)
    elif op == "rebuild":
        op_rebuild(ctx, dendropy, pending)
    elif op == "build":
        op_build_arbitrary(ctx, dendropy, pending)
    elif op == "reencode":
        op_reencode(ctx, dendropy, pending)
    else:
        op_tree_preds(ctx, dendropy, pending)


def run(ctx):
    dendropy = __import__("dendropy")
    rng = ctx.rng
    ctx.set_budget(40, 600)
    pending = []
    n = ctx.pick(12000, 200000)
    names = [o[0] for o in OPS]
    weights = [o[1] for o in OPS]
    for _ in range(n):
        if ctx.out_of_time():
            break
        op = rng.choices(names, weights)[0]
        state = rng.getstate()
        try:
            run_op(ctx, dendropy, op, pending)
        except Exception as e:  # the library raised inside an operation the property says is total
            ctx.fail("exception", "%s raised %s: %s" % (op, type(e).__name__, str(e)[:200]),
                     {"op": op, "rng_state": [state[0], list(state[1]), state[2]], "tier": ctx.tier})
        if len(pending) >= 800:
            flush(ctx, pending)
    flush(ctx, pending)
    if ctx.tier == "thorough":
        exhaustive(ctx, dendropy, pending)


def exhaustive(ctx, dendropy, pending):
    """every shape <= 6 leaves (5 with all labelings) x rooting x flags; all predicate triples on 4 bits"""
    from dendropy.datamodel.treemodel._bipartition import Bipartition
    count = 0
    for n in range(1, 7):
        for shape in tu.all_shapes(n):
            perms = itertools.permutations(range(n)) if n <= 4 else [tuple(range(n)), tuple(reversed(range(n)))]
            for perm in perms:
                for rooted in (True, False, None):
                    tns = tu.make_namespace(dendropy, n, extra=1)
                    members = list(tns)
                    tree = tu.build_tree(dendropy, shape, tns, [members[i] for i in perm], None, rooted)
                    op_encode(ctx, dendropy, pending, tree=tree, flags=(True, True))
                    count += 1
            if len(pending) >= 2000:
                flush(ctx, pending)
    flush(ctx, pending)
    for fill in range(1, 16):
        for a in range(16):
            for b in range(16):
                got = "%d %d" % (int(Bipartition.is_trivial_bitmask(a, fill)), int(Bipartition.is_compatible_bitmasks(a, b, fill)))
                b1 = Bipartition(leafset_bitmask=a, tree_leafset_bitmask=fill, compile_bipartition=False)
                got += " %d" % int(bool(b1.is_leafset_nested_within(b)))
                pending.append(("pred %d %d %d" % (a, b, fill), {"op": "pred", "a": a, "b": b, "fill": fill}, got))
                ctx.case(["pred", a, b, fill], True, kind="pred-exh")
    flush(ctx, pending)
    ctx.extra["exhaustive_small_scope"] = "%d (shape<=6 leaves, labeling, rooting) encodings; all 3840 predicate triples over 4 bits" % count


def replay(ctx, rec):
    dendropy = __import__("dendropy")
    from dendropy.datamodel.treemodel._bipartition import Bipartition
    c = rec["replay"]
    pending = []
    op = c.get("op")
    if "rng_state" in c:
        st = c["rng_state"]
        ctx.rng.setstate((st[0], tuple(st[1]), st[2]))
        ctx.tier = c.get("tier", ctx.tier)
        try:
            run_op(ctx, dendropy, op, pending)
        except Exception as e:
            ctx.fail("exception", "%s raised %s: %s" % (op, type(e).__name__, str(e)[:200]), c)
    elif op == "encode":
        tree, _ = tree_for_case(dendropy, c)
        op_encode(ctx, dendropy, pending, tree=tree, flags=(c["sup"], c["col"]), variant=c.get("variant", 0))
    elif op == "pred":
        a, b, fill = c["a"], c["b"], c["fill"]
        A, B, F = bits_of(a), bits_of(b), bits_of(fill)
        if bool(Bipartition.is_trivial_bitmask(a, fill)) != (len(A) <= 1 or len(F - A) <= 1):
            ctx.fail("predicate", "is_trivial_bitmask(%d,%d) wrong" % (a, fill), c)
        if F and min(F) not in A and min(F) not in B and bool(Bipartition.is_compatible_bitmasks(a, b, fill)) != quadrants_empty(A, B, F):
            ctx.fail("predicate", "is_compatible_bitmasks(%d,%d,%d) wrong" % (a, b, fill), c)
    elif op == "stalepred":
        t1, _ = tree_for_case(dendropy, c)
        t2, _ = tu.tree_from_tokens(dendropy, c["tree2"], rooted=t1.is_rooted, tns=t1.taxon_namespace)
        stale_history(ctx, dendropy, t1, list(t2.encode_bipartitions())[:10], c["edit"], c)
    elif op in ("pair", "treepreds", "rebuild"):
        t1, _ = tree_for_case(dendropy, c)
        if op == "rebuild":
            import random as _r
            enc = list(t1.encode_bipartitions())
            L = tu.leafset_masks(t1)[id(t1.seed_node)]
            _r.Random(c["perm_seed"]).shuffle(enc)
            tns = t1.taxon_namespace
            rebuilt = dendropy.Tree.from_bipartition_encoding(enc, taxon_namespace=tns, is_rooted=t1.is_rooted)
            extras = sorted(tns.accession_index(t) for t in tns if not (L >> tns.accession_index(t)) & 1)
            canon = canon_rooted if t1.is_rooted else canon_unrooted
            if canon(t1, extras) != canon(rebuilt):
                ctx.fail("rebuild", "rebuilt topology %s, source %s" % (canon(rebuilt), canon(t1, extras)), c)
        else:
            c2 = dict(c, tree=c["tree2"])
            t2, _ = tree_for_case(dendropy, c2)
            t2 = dendropy.Tree(t2, taxon_namespace=t1.taxon_namespace) if False else t2
            # same namespace object is needed: rebuild t2 over t1's namespace
            t2, _ = tu.tree_from_tokens(dendropy, c["tree2"], rooted=t1.is_rooted, tns=t1.taxon_namespace)
            canon = canon_rooted if t1.is_rooted else canon_unrooted
            s1 = set(b.split_bitmask for b in t1.encode_bipartitions())
            s2 = set(b.split_bitmask for b in t2.encode_bipartitions())
            if op == "pair" and (s1 == s2) != (canon(t1) == canon(t2)):
                ctx.fail("sufficiency", "split sets %s, topologies %s" % (s1 == s2, canon(t1) == canon(t2)), c)
    flush(ctx, pending)


def search(ctx, broken):
    """obligations broke: exhaustive small domain of the integer functions against their set-theoretic meaning"""
    from dendropy.datamodel.treemodel._bipartition import Bipartition
    from dendropy.utility import bitprocessing
    for fill in range(1, 32):
        F = bits_of(fill)
        lrb = fill & -fill
        if bitprocessing.least_significant_set_bit(fill) != lrb:
            ctx.fail("bitfunction", "least_significant_set_bit(%d) = %d, lowest set bit is %d" % (
                fill, bitprocessing.least_significant_set_bit(fill), lrb), {"op": "lsb", "n": fill})
            return
        for a in range(32):
            if a & ~fill:
                continue
            A = bits_of(a)
            got = Bipartition.normalize_bitmask(a, fill, lrb)
            want = sum(1 << i for i in ((F - A) if min(F) in A else A))
            if got != want:
                ctx.fail("bitfunction", "normalize_bitmask(%d, %d, %d) = %d, expected %d" % (a, fill, lrb, got, want),
                         {"op": "normalize", "a": a, "fill": fill})
                return
            case = {"op": "pred", "a": a, "b": 0, "fill": fill}
            if bool(Bipartition.is_trivial_bitmask(a, fill)) != (len(A) <= 1 or len(F - A) <= 1):
                ctx.fail("predicate", "is_trivial_bitmask(%d,%d) wrong" % (a, fill), case)
                return
            for b in range(32):
                if b & ~fill:
                    continue
                B = bits_of(b)
                if min(F) in A or min(F) in B:
                    continue
                if bool(Bipartition.is_compatible_bitmasks(a, b, fill)) != quadrants_empty(A, B, F):
                    ctx.fail("predicate", "is_compatible_bitmasks(%d,%d,%d) wrong" % (a, b, fill), dict(case, b=b))
                    return
