"""C07 - re-rooting and re-orienting never change the underlying unrooted tree."""
import itertools
import random
from fractions import Fraction

import treeutil as tu
from common import time_limit, hex6, Timeout

ID = "C07"
GEN_DEPENDS = ["C07Mid"]
RULE = ("random rose trees (1-10 leaves quick, up to 30 thorough; polytomies, unary nodes and unary seeds, fixed families, leaves "
        "without taxa, internal taxa) with tie-rich edge lengths (all None, unit, small integers, 0/1, ultrametric, dyadic, mixed None) "
        "x operation (reseed_at, reroot_at_node, reroot_at_edge, reroot_at_midpoint, to_outgroup_position, randomly_reorient, "
        "randomly_rotate, ladderize, reorder, and the two clean-up mechanisms on their own: suppress_unifurcations, "
        "collapse_basal_bifurcation) x every kind of target (seed, internal, leaf, child of the seed) x initial rooting "
        "(rooted/unrooted, sometimes undefined) x update_bipartitions x suppress_unifurcations x collapse_unrooted_basal_bifurcation; "
        "for midpoint rooting the walk's decision (existing node | inserted node with its two sub-edge lengths) is recorded at the call "
        "of reseed_at and compared with the model's midwhere as an intermediate observable; "
        "thorough adds every shape <= 6 leaves x every target node/edge/outgroup x flags x four tie-rich length patterns. "
        "Non-trivial = the operation changes the order-revealing rendering of the tree or its rooting flag")
MODELLED_NOT_VERIFIED = [
    "C07: reseed_at/Edge.invert, reroot_at_node/edge/midpoint, to_outgroup_position, collapse_basal_bifurcation, suppress_unifurcations, "
    "ladderize, reorder, randomly_rotate/reorient are hand-modelled (lean/DendroModel/Model/C07.lean) and tied to the code by comparing the "
    "order-revealing rendering (ids, taxa, exact lengths, child order) and the rooting flag after every generated operation; "
    "regenerated from the source on every run and proved equal to the model's (Gen/C07Mid.lean + gen_*_bridge theorems) are only the "
    "closed-form kernels of reroot_at_midpoint (_edge_len, the half distance, the n1/n2 choice, one turn of the walk, the two sub-edge "
    "lengths, the literal flags of its reseed_at calls, is_rooted = True) and the length1/length2 assignment of reroot_at_edge; the "
    "loops and the node surgery around them are hand-modelled",
    "C07: which maximal pair PhylogeneticDistanceMatrix.max_pairwise_distance_taxa returns (set iteration order) is an input of the model "
    "(recorded from the implementation; if not recordable every maximal pair is tried); the oracle checks maximality independently",
    "C07: RNG draws of randomly_reorient/randomly_rotate are recorded from the implementation (scripted rng) and replayed into the model",
    "C07: floating point is not modelled; all generated lengths are dyadic so that every sum, difference and halving is exact",
]
EXPLANATION = ("Theorems (Props/C07.lean, about the definitions drv_c07 runs; Keeps t r = same leaf ids, same total length, same length of "
               "every leaf-to-leaf path, exact rationals, None = 0). Proved for every tree with distinct node ids, a seed with >= 2 children and "
               "well-formed fractions, for EVERY flag setting (defaults included): reseed_invariant_full / reroot_at_node_invariant_full "
               "(internal target), to_outgroup_invariant (any non-seed outgroup), reroot_at_edge_invariant (any length1 + length2 = edge "
               "length), ladderize_invariant / reorder_invariant / rotate_invariant (path lengths under child permutation), "
               "reorient_invariant (both branches + rotation), reroot_at_midpoint_invariant (both branches), "
               "suppress_unifurcations_invariant and collapse_basal_invariant (the clean-up mechanisms on their own). pathLen_defined: the "
               "path length of two distinct leaves is a number. Clause (b), now full: midpoint_equidistant - after rerootAtMidpoint was handed the "
               "leaves (a, b), BOTH are at exactly half their path length from the new root, midpoint inside an edge or exactly on a node, any "
               "ties, with and without suppression, no sign condition (rootPath/dropCommon/upList/midWalk are tied to Path.dist: mrca_spec, "
               "rootPath_down, rootPath_suffix, upList_split); midpoint_most_distant_pair_equidistant - if (a, b) is a pair of most distant leaves "
               "it still is afterwards and both are at half the maximal distance (that the pair IS maximal is an input: the pair is recorded from "
               "the implementation and the oracle checks maximality); midpoint_walk_spec (complete specification of the walk); midpoint_never_fails / "
               "reroot_at_midpoint_defined - for two different leaves the walk never gives up (the library's assert cannot fire, the model never "
               "answers AssertionError), any lengths. Clause (c): "
               "reroot_at_edge_root_distances (default suppression included: leaves below the head at length2 + depth, all others at length1 + "
               "distance from the old tail; any two lengths) and reroot_at_edge_position_partial (_partial: shape of the root for suppress off "
               "only). Clause (d): outgroup_first (suppress off, node identity) and outgroup_first_leafset (both suppress settings, every flag: the "
               "first root child spans exactly the leaves of the node with id og of the original tree). Clause (e): flag theorems for "
               "reseed, outgroup, reorient (content) and the hard ops (definitional). Structure: invert_is_chain, reseed_root_is_target, "
               "reseed_at_root_is_target, reseed_root_shape. Unrooted splits: reseed_keeps_usplits (whole chain + basal collapse + suppression, "
               "every flag setting), reroot_at_node_keeps_usplits, inversion_step_keeps_unrooted_splits, to_outgroup_keeps_usplits (chain + move to "
               "the front + sister collapse + suppression), reroot_at_edge_keeps_usplits (the inserted node adds no split: splitEdge_H), "
               "reroot_at_midpoint_keeps_usplits (both branches), reorient_keeps_usplits, for trees whose leaves carry distinct "
               "taxa; ladderize_keeps_usplits / reorder_keeps_usplits / rotate_keeps_usplits (no hypothesis at all). Tie A: gen_edge_len_bridge, gen_plen0_bridge, gen_order_bridge, gen_walk_bridge, gen_split_lens_bridge, "
               "gen_midpoint_flags_bridge, gen_reroot_edge_bridge - the kernels regenerated from the current source equal the model's. "
               "parseTree_lenWF / parseTree_ids_nodup: every tree the protocol parser returns has well-formed fractions and distinct node ids, so the "
               "standing hypotheses hold for every driver input (reseed_invariant_parsed, midpoint_equidistant_parsed instantiate them). "
               "Not proved, oracle only: leaf targets, unary seeds (and split sets of taxon-less / duplicate-taxon leaves, outside GoodL).")

SOFT = {"reseed", "outgroup", "reorient", "rotate", "ladderize", "reorder", "suppress"}
HARD = {"rerootnode", "rerootedge", "midpoint"}
# "suppress" / "collapse": the two clean-up mechanisms called on their own (Tree.suppress_unifurcations, Tree.collapse_basal_bifurcation)
OPS = ["reseed", "rerootnode", "rerootedge", "midpoint", "outgroup", "reorient", "rotate", "ladderize", "reorder", "suppress", "collapse"]
FLAGS = {"R": True, "U": False, "N": None}
FLAG_OF = {True: "R", False: "U", None: "N"}


# ------------------------------------------------------------------ snapshots (plain data; nothing of the library in here)
class Snap(object):
    """rooted tree as plain dicts over small integer ids"""

    def __init__(self, root, children, length, taxon):
        self.root = root
        self.children = children      # id -> [ids]
        self.length = length          # id -> Fraction (None counted as 0)
        self.rawlen = {}
        self.taxon = taxon            # id -> bit or None
        self.parent = {}
        for p, cs in children.items():
            for c in cs:
                self.parent[c] = p

    def nodes(self):
        out, stack = [], [self.root]
        while stack:
            v = stack.pop()
            out.append(v)
            stack.extend(reversed(self.children[v]))
        return out


def snap_from_tokens(toks):
    n = int(toks[0])
    par = [int(x) for x in toks[1:1 + n]]
    tax = toks[1 + n:1 + 2 * n]
    lens = toks[1 + 2 * n:1 + 3 * n]
    children = {i: [] for i in range(n)}
    root = None
    for i, p in enumerate(par):
        if p < 0:
            root = i
        else:
            children[p].append(i)
    s = Snap(root, children, {i: (Fraction(0) if lens[i] == "N" else Fraction(lens[i])) for i in range(n)},
             {i: (None if tax[i] == "-" else int(tax[i])) for i in range(n)})
    s.rawlen = {i: (None if lens[i] == "N" else Fraction(lens[i])) for i in range(n)}
    return s


def snap_from_tree(tree, ids):
    """walk the real object graph through _child_nodes only; unknown nodes get fresh ids"""
    seed = tree.seed_node
    children, length, taxon, rawlen = {}, {}, {}, {}
    stack = [seed]
    seen = set()
    problems = []
    if seed._parent_node is not None:
        problems.append("seed node has a parent")
    while stack:
        nd = stack.pop()
        i = ids.of(nd)
        if i is None:
            i = len(ids.keep)
            ids.map[id(nd)] = i
            ids.keep.append(nd)
        if i in seen:
            problems.append("node %d reachable twice" % i)
            continue
        seen.add(i)
        L = nd.edge.length
        rawlen[i] = None if L is None else Fraction(L)
        length[i] = Fraction(0) if L is None else Fraction(L)
        taxon[i] = None if nd.taxon is None else tu.bit_of(tree.taxon_namespace, nd.taxon)
        children[i] = []
        for c in nd._child_nodes:
            if c._parent_node is not nd:
                problems.append("child's parent pointer does not point back")
            j = ids.of(c)
            if j is None:
                j = len(ids.keep)
                ids.map[id(c)] = j
                ids.keep.append(c)
            children[i].append(j)
            stack.append(c)
    s = Snap(ids.of(seed), children, length, taxon)
    s.rawlen = rawlen
    return s, problems


class Obs(object):
    """what the statement talks about, for one snapshot: leaves of the underlying unrooted tree (vertices of degree 1; a
    unary seed is one, `force_root_leaf` pins the seed as one), bipartitions of that leaf set induced by the edges, total
    length, leaf-to-leaf path lengths, leaf-to-root distances"""

    def __init__(self, s, force_root_leaf=False, restrict=None):
        order = s.nodes()
        self.root = s.root
        root_is_leaf = force_root_leaf or len(s.children[s.root]) == 1 or len(order) == 1
        below = {}
        for v in reversed(order):
            if not s.children[v]:
                below[v] = frozenset([v])
            else:
                acc = set()
                for c in s.children[v]:
                    acc |= below[c]
                below[v] = frozenset(acc)
        self.proper_leaves = frozenset(v for v in order if not s.children[v])
        leaves = set(self.proper_leaves)
        if root_is_leaf:
            leaves.add(s.root)
        if restrict is not None:
            leaves &= set(restrict)
        self.leaves = frozenset(leaves)
        self.below = below
        splits = set()
        for v in order:
            if v == s.root:
                continue
            a = below[v] & self.leaves
            b = self.leaves - a
            if a and b:
                splits.add(frozenset([a, b]))
        self.splits = splits
        self.total = sum((s.length[v] for v in order), Fraction(0))
        # root distances and pairwise paths
        droot = {s.root: Fraction(0)}
        rpath = {s.root: []}
        for v in order:
            for c in s.children[v]:
                droot[c] = droot[v] + s.length[c]
                rpath[c] = rpath[v] + [c]
        self.droot = droot
        self.paths = {}
        ls = sorted(self.leaves)
        for a, b in itertools.combinations(ls, 2):
            pa, pb = rpath[a], rpath[b]
            k = 0
            while k < len(pa) and k < len(pb) and pa[k] == pb[k]:
                k += 1
            self.paths[(a, b)] = sum((s.length[x] for x in pa[k:]), Fraction(0)) + sum((s.length[x] for x in pb[k:]), Fraction(0))


def undirected_dist(s, src):
    """distance from vertex src to every vertex, walking edges in both directions"""
    d = {src: Fraction(0)}
    stack = [src]
    while stack:
        v = stack.pop()
        nbrs = [(c, s.length[c]) for c in s.children[v]]
        if v in s.parent:
            nbrs.append((s.parent[v], s.length[v]))
        for w, L in nbrs:
            if w not in d:
                d[w] = d[v] + L
                stack.append(w)
    return d


def fmt_split(sp):
    a, b = sorted(sorted(x) for x in sp)
    return "%s|%s" % (",".join(map(str, a)), ",".join(map(str, b)))


# ------------------------------------------------------------------ generators
def shape_to_par(shape):
    par = []

    def go(sh, p):
        i = len(par)
        par.append(p)
        for c in sh:
            go(c, i)
    go(shape, -1)
    return par


def gen_lengths(rng, par, pattern):
    n = len(par)
    kids = {i: [] for i in range(n)}
    for i, p in enumerate(par):
        if p >= 0:
            kids[p].append(i)
    if pattern == "none":
        return [None] * n
    if pattern == "unit":
        L = [Fraction(1)] * n
    elif pattern == "int":
        L = [Fraction(rng.randint(1, 3)) for _ in range(n)]
    elif pattern == "zero1":
        L = [Fraction(rng.choice([0, 0, 1, 1, 2])) for _ in range(n)]
    elif pattern == "ultra":
        # internal edges small integers / halves, leaf edges fill up to a common height
        L = [Fraction(rng.choice([1, 1, 2, 1]), rng.choice([1, 1, 2])) for _ in range(n)]
        depth = {}
        for i in range(n):
            depth[i] = (depth[par[i]] if par[i] >= 0 else Fraction(0)) + (L[i] if par[i] >= 0 else 0)
        leaves = [i for i in range(n) if not kids[i]]
        H = max(depth[par[i]] if par[i] >= 0 else Fraction(0) for i in leaves) + rng.choice([0, 1, 1])
        for i in leaves:
            if par[i] >= 0:
                L[i] = H - depth[par[i]]
    elif pattern == "dyadic":
        L = [Fraction(rng.randint(0, 12), 2 ** rng.randint(0, 3)) for _ in range(n)]
    elif pattern == "mixednone":
        L = [None if rng.random() < 0.3 else Fraction(rng.randint(0, 4), rng.choice([1, 1, 2])) for _ in range(n)]
    else:
        raise ValueError(pattern)
    L = list(L)
    # the seed's own edge: usually None, sometimes a value (it travels with the root)
    L[0] = None if rng.random() < 0.7 else Fraction(rng.randint(0, 3))
    return L


PATTERNS = ["none", "unit", "unit", "int", "zero1", "ultra", "ultra", "dyadic", "mixednone"]
LABEL_POOL = ["a", "B", "b", "A", "aa", "Z", "z", "10", "9", "t 1", "t_1", "", "é", "zz", "T1", "t1"]


def make_tokens(par, tax, lens):
    n = len(par)
    return ([str(n)] + [str(p) for p in par] + ["-" if t is None else str(t) for t in tax] +
            [tu.frac(x) for x in lens] + ["-"] * n)


def gen_tree(rng, max_leaves, all_taxa=False, pattern=None, shape=None):
    if shape is None:
        r = rng.random()
        n = rng.randint(1, max_leaves) if rng.random() < 0.93 else rng.randint(1, 3)
        if all_taxa and n < 2:
            n = 2
        if r < 0.15:
            shape = rng.choice(tu.shape_families(n))
        else:
            shape = tu.rand_shape(rng, n, p_poly=rng.choice([0.0, 0.2, 0.5]), p_unary=rng.choice([0.0, 0.0, 0.1, 0.25]))
        if rng.random() < 0.06:
            shape = [shape]        # unary seed
    par = shape_to_par(shape)
    n = len(par)
    kids = {i: 0 for i in range(n)}
    for p in par:
        if p >= 0:
            kids[p] += 1
    leaves = [i for i in range(n) if kids[i] == 0]
    nbits = len(leaves) + rng.randint(0, 3) + 2
    bits = rng.sample(range(nbits), len(leaves) + 2)
    tax = [None] * n
    for k, i in enumerate(leaves):
        if all_taxa or rng.random() < 0.93:
            tax[i] = bits[k]
    if not all_taxa and rng.random() < 0.08:
        internals = [i for i in range(n) if kids[i] > 0]
        if internals:
            tax[rng.choice(internals)] = bits[len(leaves)]
    lens = gen_lengths(rng, par, pattern or rng.choice(PATTERNS))
    return make_tokens(par, tax, lens), nbits


def gen_labels(rng, nbits):
    r = rng.random()
    if r < 0.3:
        return ["t%d" % i for i in range(nbits)]
    if r < 0.6:
        return [rng.choice(LABEL_POOL) + rng.choice(["", "", "1", "x"]) for _ in range(nbits)]
    labs = ["L%d" % rng.randint(0, 30) for _ in range(nbits)]
    return labs


def pick_target(rng, snap, internal_only=False, not_seed=False):
    nodes = snap.nodes()
    cands = [v for v in nodes if (snap.children[v] or not internal_only) and not (not_seed and v == snap.root)]
    if not cands:
        return None
    r = rng.random()
    if r < 0.1 and not not_seed:
        return snap.root
    if r < 0.3:
        kids = [v for v in snap.children[snap.root] if v in cands]
        if kids:
            return rng.choice(kids)
    return rng.choice(cands)


def gen_case(rng, op, max_leaves):
    all_taxa = op == "midpoint"
    toks, nbits = gen_tree(rng, max_leaves, all_taxa=all_taxa)
    snap = snap_from_tokens(toks)
    flag = rng.choice(["R", "U", "R", "U", "R", "U", "N"])
    a = {"upd": rng.random() < 0.35}
    if op == "reseed":
        a["tgt"] = pick_target(rng, snap, internal_only=rng.random() < 0.8)
        a["collapse"] = rng.random() < 0.6
        a["suppress"] = rng.random() < 0.65
    elif op == "rerootnode":
        a["tgt"] = pick_target(rng, snap, internal_only=rng.random() < 0.8)
        a["collapse"] = rng.random() < 0.6
        a["suppress"] = rng.random() < 0.65
    elif op == "rerootedge":
        h = pick_target(rng, snap, not_seed=True)
        if h is None:
            return None
        a["head"] = h
        a["suppress"] = rng.random() < 0.65
        L = snap.length[h]
        r = rng.random()
        if r < 0.6:      # a split of the edge that keeps its length (exact: quarters/halves/ends)
            f = rng.choice([Fraction(0), Fraction(1, 4), Fraction(1, 2), Fraction(1, 2), Fraction(3, 4), Fraction(1)])
            l1, l2 = L * f, L - L * f
            if snap.rawlen[h] is None and rng.random() < 0.5:
                l1, l2 = None, None
        elif r < 0.75:
            l1, l2 = None, None      # the defaults
        else:
            l1 = rng.choice([None, Fraction(rng.randint(0, 4), 2)])
            l2 = rng.choice([None, Fraction(rng.randint(0, 4), 2)])
        a["l1"], a["l2"] = tu.frac(l1), tu.frac(l2)
    elif op == "midpoint":
        a["suppress"] = rng.random() < 0.65
        a["collapse"] = rng.random() < 0.6
    elif op == "outgroup":
        og = pick_target(rng, snap, not_seed=True)
        if og is None:
            return None
        a["og"] = og
        a["suppress"] = rng.random() < 0.65
    elif op == "reorient":
        a["rseed"] = rng.randrange(1 << 30)
    elif op == "rotate":
        a["rseed"] = rng.randrange(1 << 30)
    elif op == "ladderize":
        a["asc"] = rng.random() < 0.5
    elif op == "reorder":
        a["asc"] = rng.random() < 0.5
        a["labels"] = gen_labels(rng, nbits)
    elif op == "collapse":
        a["setu"] = rng.random() < 0.6
    if "tgt" in a and a["tgt"] is None:
        return None
    return {"op": op, "tree": toks, "flag": flag, "args": a, "nbits": nbits}


# ------------------------------------------------------------------ implementation runner
class RecRng(object):
    """scripted rng handed to randomly_reorient/randomly_rotate: records what the library drew"""

    def __init__(self, seed):
        self.r = random.Random(seed)
        self.picks = []
        self.shuffles = []

    def sample(self, population, k):
        res = self.r.sample(population, k)
        self.picks.append(list(res))
        return res

    def shuffle(self, lst):
        self.r.shuffle(lst)
        self.shuffles.append(list(lst))

    def __getattr__(self, name):
        return getattr(self.r, name)


def build(dendropy, case):
    a = case["args"]
    nbits = case.get("nbits") or 1
    labels = a.get("labels") or ["t%d" % i for i in range(nbits)]
    tns = dendropy.TaxonNamespace(labels)
    tree, ids = tu.tree_from_tokens(dendropy, case["tree"], rooted=FLAGS[case["flag"]], tns=tns)
    return tree, ids


def run_impl(dendropy, case, tree, ids):
    """applies the operation to the real tree; returns a dict of run-time recordings"""
    op, a = case["op"], case["args"]
    rec = {}
    upd = a.get("upd", False)
    if op == "reseed":
        tree.reseed_at(ids.node(a["tgt"]), update_bipartitions=upd, collapse_unrooted_basal_bifurcation=a["collapse"],
                       suppress_unifurcations=a["suppress"])
    elif op == "rerootnode":
        tree.reroot_at_node(ids.node(a["tgt"]), update_bipartitions=upd, suppress_unifurcations=a["suppress"],
                            collapse_unrooted_basal_bifurcation=a["collapse"])
    elif op == "rerootedge":
        l1 = None if a["l1"] == "N" else float(Fraction(a["l1"]))
        l2 = None if a["l2"] == "N" else float(Fraction(a["l2"]))
        tree.reroot_at_edge(ids.node(a["head"]).edge, length1=l1, length2=l2, update_bipartitions=upd,
                            suppress_unifurcations=a["suppress"])
    elif op == "midpoint":
        from dendropy.calculate import phylogeneticdistance as pd
        cls = pd.PhylogeneticDistanceMatrix
        orig = cls.max_pairwise_distance_taxa

        def wrapped(self, *args, **kw):
            r = orig(self, *args, **kw)
            rec["pair"] = r
            return r
        cls.max_pairwise_distance_taxa = wrapped
        # intermediate observable: what the walk decided, seen at the moment reroot_at_midpoint hands it to reseed_at -
        # an existing node (midpoint exactly on it) or a freshly inserted one (then: head of the split edge, the two sub-edge lengths)
        tcls = type(tree)
        orig_reseed = tcls.reseed_at

        def reseed_spy(self, new_seed_node, *args, **kw):
            if "where" not in rec:
                i = ids.of(new_seed_node)
                if i is not None:
                    rec["where"] = "node %d" % i
                else:
                    ch = list(new_seed_node._child_nodes)
                    h = ids.of(ch[0]) if len(ch) == 1 else None
                    rec["where"] = "edge %s %s %s" % (h, tu.frac(new_seed_node.edge.length), tu.frac(ch[0].edge.length if ch else None))
            return orig_reseed(self, new_seed_node, *args, **kw)
        tcls.reseed_at = reseed_spy
        try:
            tree.reroot_at_midpoint(update_bipartitions=upd, suppress_unifurcations=a["suppress"],
                                    collapse_unrooted_basal_bifurcation=a["collapse"])
        finally:
            cls.max_pairwise_distance_taxa = orig
            tcls.reseed_at = orig_reseed
    elif op == "outgroup":
        tree.to_outgroup_position(ids.node(a["og"]), update_bipartitions=upd, suppress_unifurcations=a["suppress"])
    elif op == "reorient":
        rr = RecRng(a["rseed"])
        rec["rng"] = rr
        tree.randomly_reorient(rng=rr, update_bipartitions=upd)
    elif op == "rotate":
        rr = RecRng(a["rseed"])
        rec["rng"] = rr
        tree.randomly_rotate(rng=rr)
    elif op == "ladderize":
        tree.ladderize(ascending=a["asc"])
    elif op == "reorder":
        tree.reorder(ascending=a["asc"])
    elif op == "suppress":
        tree.suppress_unifurcations()
    elif op == "collapse":
        tree.collapse_basal_bifurcation(set_as_unrooted_tree=a["setu"])
    else:
        raise ValueError(op)
    return rec


# ------------------------------------------------------------------ oracle
def flag_clause(case, flag_after):
    """(e) soft operations leave the rooting flag as it was, hard ones set it"""
    f0 = FLAGS[case["flag"]]
    if case["op"] == "collapse":
        # the mechanism on its own: it is documented to mark the tree unrooted when asked to (and only when it dissolves a node)
        ok = flag_after is f0 or (case["args"]["setu"] and flag_after is False)
        return [] if ok else [("rooting_flag", "collapse_basal_bifurcation changed is_rooted from %r to %r" % (f0, flag_after))]
    if case["op"] in HARD:
        if flag_after is not True:
            return [("rooting_flag", "hard re-rooting left is_rooted = %r" % (flag_after,))]
        return []
    okflag = flag_after is f0 or (f0 is None and flag_after is False)
    if not okflag:
        return [("rooting_flag", "soft operation changed is_rooted from %r to %r" % (f0, flag_after))]
    return []


def oracle(ctx, case, before, after, after_problems, tree, ids, flag_after, n_before):
    """the statement, evaluated on the snapshots. returns list of (kind, what)"""
    op, a = case["op"], case["args"]
    out = []
    for p in after_problems:
        out.append(("structure", p))
    seed_unary = len(before.children[before.root]) == 1
    # --- the documented domain of reseed_at / reroot_at_node is internal nodes: leaf targets get the weaker oracle
    weak = None
    if op in ("reseed", "rerootnode") and not before.children[a["tgt"]] and a["tgt"] != before.root and a["suppress"]:
        weak = a["tgt"]
    ob = Obs(before)
    if weak is not None:
        keep = ob.proper_leaves - {weak}      # (a unary seed, a leaf of the unrooted tree, may be spliced out as well)
        ob = Obs(before, restrict=keep)
        oa = Obs(after, restrict=keep)
        if oa.leaves != ob.leaves:
            out.append(("leafset", "leaf target %d: other leaves changed: before %s after %s" % (weak, sorted(ob.leaves), sorted(oa.leaves))))
        elif oa.splits != ob.splits:
            out.append(("splits", "leaf target %d: unrooted splits of the other leaves changed" % weak))
        else:
            # everything the statement says about the REST of the tree still has to hold: paths among the other leaves,
            # the total length minus the one pendant edge that the documented-domain note concedes, Tree.length(), the flag
            for key, d in ob.paths.items():
                if oa.paths.get(key) != d:
                    out.append(("path_length", "leaf target %d: path %d-%d between other leaves: %s, expected %s" % (
                        weak, key[0], key[1], oa.paths.get(key), d)))
                    break
            want_total = ob.total - before.length[weak]
            if oa.total != want_total:
                out.append(("total_length", "leaf target %d: total length %s, expected %s (all edges but the target's pendant edge)" % (
                    weak, oa.total, want_total)))
            try:
                tl = Fraction(tree.length())
            except Exception as e:      # noqa
                tl = "raised %s" % type(e).__name__
            if tl != oa.total:
                out.append(("total_length", "Tree.length() = %s, sum over the edges of the result = %s" % (tl, oa.total)))
        out.extend(flag_clause(case, flag_after))
        return out, ob, oa
    oa = Obs(after)
    if oa.leaves != ob.leaves:
        if seed_unary and oa.leaves == ob.leaves - {before.root}:
            # a unary seed was spliced out by unifurcation suppression: compare what remains
            ob = Obs(before, restrict=oa.leaves)
        else:
            out.append(("leafset", "leaf set changed: before %s after %s" % (sorted(ob.leaves), sorted(oa.leaves))))
            return out, ob, oa
    if oa.splits != ob.splits:
        gone = [fmt_split(s) for s in ob.splits - oa.splits][:3]
        new = [fmt_split(s) for s in oa.splits - ob.splits][:3]
        out.append(("splits", "unrooted split set changed: lost %s gained %s" % (gone, new)))
    # --- lengths
    delta = Fraction(0)
    across = None
    if op == "rerootedge":
        h = a["head"]
        l1 = Fraction(0) if a["l1"] == "N" else Fraction(a["l1"])
        l2 = Fraction(0) if a["l2"] == "N" else Fraction(a["l2"])
        delta = l1 + l2 - before.length[h]
        across = ob.below[h] & ob.leaves       # leaves on the head side of the edge
    if oa.total != ob.total + delta:
        out.append(("total_length", "total length %s, expected %s" % (oa.total, ob.total + delta)))
    try:
        tl = Fraction(tree.length())
    except Exception as e:      # noqa
        tl = "raised %s" % type(e).__name__
    if tl != oa.total:
        out.append(("total_length", "Tree.length() = %s, sum over the edges of the result = %s" % (tl, oa.total)))
    for key, d in ob.paths.items():
        if key[0] not in oa.leaves or key[1] not in oa.leaves:
            continue
        want = d
        if across is not None and ((key[0] in across) != (key[1] in across)):
            want = d + delta
        got = oa.paths.get(key)
        if got != want:
            out.append(("path_length", "path %d-%d: %s, expected %s" % (key[0], key[1], got, want)))
            break
    # --- the library's own distance matrix agrees with the walk (observe_at: phylogenetic_distance_matrix)
    if case.get("check_pdm") and all(after.taxon[v] is not None for v in oa.proper_leaves) and len(oa.proper_leaves) >= 2:
        try:
            pdm = tree.phylogenetic_distance_matrix()
            o2 = oa if oa.leaves == oa.proper_leaves else None
            if o2 is not None:
                for (x, y), d in oa.paths.items():
                    got = Fraction(pdm.patristic_distance(ids.node(x).taxon, ids.node(y).taxon))
                    if got != d:
                        out.append(("path_length", "phylogenetic_distance_matrix %d-%d: %s, walk gives %s" % (x, y, got, d)))
                        break
        except Exception as e:  # noqa
            out.append(("raises", "phylogenetic_distance_matrix after the operation raised %s" % type(e).__name__))
    # --- (b) midpoint
    if op == "midpoint":
        # the leaves the distance matrix saw: childless nodes of the tree as given (a unary seed that ends up as a tip is not one)
        pl = sorted(ob.proper_leaves & oa.proper_leaves)
        if len(pl) >= 2:
            pp = Obs(after, restrict=frozenset(pl)) if oa.leaves != frozenset(pl) else oa
            maxd = max(pp.paths.values())
            ok = False
            for (x, y), d in pp.paths.items():
                if d == maxd and oa.droot[x] == oa.droot[y] and oa.droot[x] * 2 == maxd:
                    ok = True
                    break
            if not ok:
                far = [(x, y) for (x, y), d in pp.paths.items() if d == maxd][:4]
                out.append(("midpoint", "no pair of most distant leaves (distance %s, e.g. %s) is equidistant from the new root; "
                            "root distances %s" % (maxd, far, {v: str(oa.droot[v]) for v in pl[:8]})))
    # --- (c) root at the two requested distances
    if op == "rerootedge":
        h = a["head"]
        t = before.parent[h]
        dh = undirected_dist(before, h)
        dt = undirected_dist(before, t)
        for v in sorted(oa.leaves & ob.leaves):
            want = (l2 + dh[v]) if v in across else (l1 + dt[v])
            if oa.droot.get(v) != want:
                out.append(("edge_position", "leaf %d is at %s from the new root, expected %s (length1=%s on the tail side, "
                            "length2=%s on the head side)" % (v, oa.droot.get(v), want, a["l1"], a["l2"])))
                break
    # --- (d) outgroup first
    if op == "outgroup":
        og = a["og"]
        want = ob.below[og] & ob.leaves
        if want != ob.leaves and want:
            kids = after.children[after.root]
            first = (oa.below[kids[0]] & oa.leaves) if kids else frozenset()
            if first != want:
                out.append(("outgroup_first", "first child of the root spans leaves %s, the outgroup spans %s" % (sorted(first), sorted(want))))
            elif og in after.children and kids[0] != og and len(before.children[og]) != 1:
                out.append(("outgroup_first", "the outgroup node %d is not the first child of the root (first is %d)" % (og, kids[0])))
    out.extend(flag_clause(case, flag_after))
    return out, ob, oa


# ------------------------------------------------------------------ model lines
def ranks_from(rec, ids, n):
    rank = [0] * n
    for sh in rec["rng"].shuffles:
        for k, nd in enumerate(sh):
            i = ids.of(nd)
            if i is not None and i < n:
                rank[i] = k
    return ",".join(str(r) for r in rank)


def reorder_tokens(case):
    """tokens with the sort key of Tree.reorder (taxon label, '' without taxon) in the label column"""
    toks = list(case["tree"])
    n = int(toks[0])
    labels = case["args"]["labels"]
    tax = toks[1 + n:1 + 2 * n]
    keys = [hex6("" if t == "-" else labels[int(t)]) for t in tax]
    return toks[:1 + 3 * n] + keys


def model_lines(case, before, rec, ids, n):
    """protocol lines for this case (several when the maximal pair could not be recorded: any may match)"""
    op, a, f = case["op"], case["args"], case["flag"]
    tt = " ".join(case["tree"])
    b = lambda x: "1" if x else "0"
    if op == "reseed":
        return ["reseed %s %s %s %d %s" % (f, b(a["collapse"]), b(a["suppress"]), a["tgt"], tt)]
    if op == "rerootnode":
        return ["rerootnode %s %s %d %s" % (f, b(a["suppress"]), a["tgt"], tt)]
    if op == "rerootedge":
        return ["rerootedge %s %s %d %s %s %d %s" % (f, b(a["suppress"]), a["head"], a["l1"], a["l2"], n, tt)]
    if op == "midpoint":
        pairs = []
        pr = rec.get("pair")
        leaves = [v for v in before.nodes() if not before.children[v]]
        if pr is not None:
            try:
                x = [v for v in leaves if ids.node(v).taxon is pr[0]]
                y = [v for v in leaves if ids.node(v).taxon is pr[1]]
                if len(x) == 1 and len(y) == 1:
                    pairs = [(x[0], y[0])]
            except Exception:   # noqa
                pairs = []
        if not pairs:
            ob = Obs(before, restrict=frozenset(leaves))
            if ob.paths:
                maxd = max(ob.paths.values())
                pairs = [k for k, d in ob.paths.items() if d == maxd][:100]
        return ["midpoint %s %s %d %d %d %s" % (f, b(a["suppress"]), x, y, n, tt) for x, y in pairs]
    if op == "outgroup":
        return ["outgroup %s %s %d %s" % (f, b(a["suppress"]), a["og"], tt)]
    if op == "reorient":
        pick = ids.of(rec["rng"].picks[0][0])
        return ["reorient %s %d %s %s" % (f, pick, ranks_from(rec, ids, n), tt)]
    if op == "rotate":
        return ["rotate %s %s %s" % (f, ranks_from(rec, ids, n), tt)]
    if op == "ladderize":
        return ["ladderize %s %s %s" % (f, b(a["asc"]), tt)]
    if op == "reorder":
        return ["reorder %s %s %s" % (f, b(a["asc"]), " ".join(reorder_tokens(case)))]
    if op == "suppress":
        return ["suppress %s %s" % (f, tt)]
    if op == "collapse":
        return ["collapse %s %s %s" % (f, b(a["setu"]), tt)]
    raise ValueError(op)


# ------------------------------------------------------------------ one case
def domain_error_expected(case, before):
    """inputs outside every reading of the domain, on which an exception is the documented/obvious outcome"""
    return False


def one_case(ctx, dendropy, case, pending, kind=None):
    before = snap_from_tokens(case["tree"])
    n = len(before.children)
    tree, ids = build(dendropy, case)
    before_render = "%s %s" % (case["flag"], tu.render_tree(tree, ids))
    exc = None
    rec = {}
    try:
        with time_limit(20):
            rec = run_impl(dendropy, case, tree, ids)
    except Exception as e:   # noqa
        exc = e
    except Timeout:
        ctx.case([case["op"], case["tree"], case["flag"], case["args"]], True, sample=case, kind=kind or case["op"])
        ctx.fail("hang", "%s did not return within 20 s" % case["op"], case)
        return
    key = [case["op"], case["tree"], case["flag"], {k: v for k, v in case["args"].items()}]
    if exc is not None:
        ctx.case(key, True, sample=case, kind=kind or case["op"])
        ctx.fail("raises", "%s raised %s: %s" % (case["op"], type(exc).__name__, str(exc)[:120]), case)
        lines = model_lines(case, before, rec, ids, n) if case["op"] not in ("reorient", "rotate") else []
        if lines:
            pending.append((lines, case, type(exc).__name__))
        return
    flag_after = tree.is_rooted
    after, problems = snap_from_tree(tree, ids)
    got = "%s %s" % (FLAG_OF.get(flag_after, "?"), tu.render_tree(tree, ids))
    ctx.case(key, got != before_render, sample=case, kind=kind or case["op"])
    fails, ob, oa = oracle(ctx, case, before, after, problems, tree, ids, flag_after, n)
    for k, what in fails:
        ctx.fail(k, "%s: %s" % (case["op"], what), case)
    lines = model_lines(case, before, rec, ids, n)
    if lines:
        pending.append((lines, case, got))
        if case["op"] == "midpoint" and rec.get("where"):
            # the same pair(s), asked for the walk's answer only: `midwhere a b tree`
            wl = []
            for ln in lines:
                w = ln.split(" ")
                wl.append("midwhere %s %s %s" % (w[3], w[4], " ".join(w[6:])))
            pending.append((wl, dict(case, observable="where the walk stops (node | edge head tail-length head-length)"), rec["where"]))


def flush(ctx, pending):
    flat = []
    for lines, case, got in pending:
        flat.extend(lines)
    outs = ctx.ask(flat) if flat else []
    k = 0
    for lines, case, got in pending:
        ms = outs[k:k + len(lines)]
        k += len(lines)
        if any(m is None for m in ms):
            continue
        ctx.compared()
        if not any(m.strip() == got.strip() for m in ms):
            ctx.disagree(case["op"], case, got, ms[0])
    del pending[:]


# ------------------------------------------------------------------ run
def exhaustive(ctx, dendropy, pending):
    """every shape <= 6 leaves x tie-rich lengths x every target x flags"""
    rng = ctx.rng
    count = 0
    pats = ["unit", "ultra", "zero1", "none"]
    shapes = []
    for nl in range(1, 7):
        for sh in tu.all_shapes(nl):
            shapes.append(sh)
    # a few unary-decorated variants
    extra = []
    for sh in shapes:
        if 2 <= tu.count_leaves(sh) <= 4:
            extra.append([sh])
            if sh:
                extra.append([[sh[0]]] + sh[1:])
    shapes = shapes + extra
    for sh in shapes:
        if ctx.out_of_time():
            ctx.note("exhaustive enumeration cut short by the time budget after %d cases" % count)
            break
        for pat in pats:
            toks, nbits = gen_tree(rng, 0, all_taxa=True, pattern=pat, shape=sh)
            snap = snap_from_tokens(toks)
            nodes = snap.nodes()
            nleaves = len([v for v in nodes if not snap.children[v]])
            for flag in ("R", "U", "N"):
                base = {"tree": toks, "flag": flag, "nbits": nbits}
                cases = []
                for v in nodes:
                    for sup in (True, False):
                        for col in (True, False):
                            cases.append(dict(base, op="reseed", args={"tgt": v, "collapse": col, "suppress": sup, "upd": False}))
                        cases.append(dict(base, op="rerootnode", args={"tgt": v, "collapse": sup, "suppress": sup, "upd": sup}))
                        cases.append(dict(base, op="rerootnode", args={"tgt": v, "collapse": not sup, "suppress": sup, "upd": True}))
                        if v != snap.root:
                            cases.append(dict(base, op="outgroup", args={"og": v, "suppress": sup, "upd": False}))
                            L = snap.length[v]
                            for (l1, l2) in ((L / 2, L / 2), (Fraction(0), L), (None, None)):
                                cases.append(dict(base, op="rerootedge", args={"head": v, "suppress": sup, "upd": False,
                                                                               "l1": tu.frac(l1), "l2": tu.frac(l2)}))
                if nleaves >= 2:
                    for sup in (True, False):
                        for col in (True, False):
                            cases.append(dict(base, op="midpoint", args={"suppress": sup, "collapse": col, "upd": col != sup}))
                cases.append(dict(base, op="ladderize", args={"asc": True}))
                cases.append(dict(base, op="ladderize", args={"asc": False}))
                for asc in (True, False):
                    cases.append(dict(base, op="reorder", args={"asc": asc, "labels": gen_labels(rng, nbits)}))
                # random re-orientation / rotation: as many scripted draws as there are nodes (every node gets picked often)
                for _ in range(len(nodes)):
                    cases.append(dict(base, op="reorient", args={"rseed": rng.randrange(1 << 30), "upd": rng.random() < 0.3}))
                cases.append(dict(base, op="rotate", args={"rseed": rng.randrange(1 << 30)}))
                cases.append(dict(base, op="suppress", args={}))
                cases.append(dict(base, op="collapse", args={"setu": True}))
                cases.append(dict(base, op="collapse", args={"setu": False}))
                for c in cases:
                    one_case(ctx, dendropy, c, pending, kind="exh-" + c["op"])
                    count += 1
                if len(pending) >= 3000:
                    flush(ctx, pending)
    flush(ctx, pending)
    ctx.extra["exhaustive_small_scope"] = ("%d cases: %d shapes (all <= 6 leaves + unary-seed/unary-child variants) x {unit, ultrametric, 0/1, None} "
                                           "lengths x {rooted, unrooted, undefined} x every node as reseed/reroot target (all flag settings), every "
                                           "non-seed node as outgroup and as edge (3 length splits), midpoint (all flag settings), ladderize, "
                                           "reorder, one scripted reorient per node, rotate" % (count, len(shapes)))


WEIGHTS = [("reseed", 22), ("rerootnode", 10), ("rerootedge", 14), ("midpoint", 20), ("outgroup", 12), ("reorient", 8),
           ("rotate", 4), ("ladderize", 5), ("reorder", 5), ("suppress", 4), ("collapse", 4)]


def run(ctx):
    dendropy = __import__("dendropy")
    rng = ctx.rng
    ctx.set_budget(45, 700)
    pending = []
    ncases = ctx.pick(16000, 200000)
    max_leaves = ctx.pick(10, 30)
    ops = [o for o, w in WEIGHTS for _ in range(w)]
    random_budget = ctx.pick(25, 240)
    import time
    t0 = time.time()
    for k in range(ncases):
        if ctx.out_of_time() or time.time() - t0 > random_budget:
            break
        op = rng.choice(ops)
        case = gen_case(rng, op, max_leaves if rng.random() < 0.85 else 4)
        if case is None:
            continue
        case["check_pdm"] = rng.random() < 0.15
        one_case(ctx, dendropy, case, pending)
        if len(pending) >= 1000:
            flush(ctx, pending)
    flush(ctx, pending)
    if ctx.tier == "thorough":
        exhaustive(ctx, dendropy, pending)


def search(ctx, broken):
    """the regenerated kernels (Gen/C07Mid.lean), a bridge theorem or the correspondence broke: look for an input on which the real
    reroot_at_midpoint / reroot_at_edge contradicts the statement - every shape <= 5 leaves x tie-rich lengths x rooting x suppression"""
    dendropy = __import__("dendropy")
    rng = ctx.rng
    pending = []
    for nl in range(2, 6):
        for sh in tu.all_shapes(nl):
            for pat in ("unit", "ultra", "zero1", "int"):
                toks, nbits = gen_tree(rng, 0, all_taxa=True, pattern=pat, shape=sh)
                snap = snap_from_tokens(toks)
                for flag in ("U", "R"):
                    base = {"tree": toks, "flag": flag, "nbits": nbits}
                    for sup in (True, False):
                        one_case(ctx, dendropy, dict(base, op="midpoint", args={"suppress": sup, "collapse": True, "upd": False}),
                                 pending, kind="search-midpoint")
                        for v in snap.nodes():
                            if v == snap.root:
                                continue
                            L = snap.length[v]
                            one_case(ctx, dendropy, dict(base, op="rerootedge", args={"head": v, "suppress": sup, "upd": False,
                                                                                      "l1": tu.frac(L / 4), "l2": tu.frac(L - L / 4)}),
                                     pending, kind="search-edge")
                if ctx.failures:
                    flush(ctx, pending)
                    return
    flush(ctx, pending)


def replay(ctx, rec):
    dendropy = __import__("dendropy")
    case = rec["replay"]
    pending = []
    one_case(ctx, dendropy, case, pending)
    flush(ctx, pending)
