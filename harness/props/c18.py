"""C18 - simulated trees meet their specification for every seed and are reproducible.

Every simulator is driven through an explicit generator object.  Two kinds of generator are used:
  * ScriptRng: a duck-typed generator that takes every decision from a *tape* of small integers (then from a seeded
    fallback), serves dyadic waiting times / uniform draws, and logs every draw.  The same log is sent to the Lean model
    (event loops driven by an explicit list of draws), whose exact integer arithmetic must reproduce the tree.
  * random.Random(seed): the genuine generator; only the oracle (with tolerance) and the reproducibility clauses apply.
The oracle evaluates the statement on the returned tree by from-scratch walks over _child_nodes."""
import json
import os
import random
import subprocess
import sys
from fractions import Fraction

import treeutil as tu
from common import time_limit, Timeout

ID = "C18"
GEN_DEPENDS = ["C18Kernels"]
RULE = ("simulator x admissible parameters (birth > death >= 0, tip counts 1.., population sizes, genes per species, namespaces "
        "absent / too small / large / with T-labels) x generator (scripted dyadic draws incl. forced total extinctions and draws "
        "one ulp below 1, or random.Random(seed)); also mean_kingman_tree, discrete_birth_death_tree with a generation limit, the entry "
        "options is_add_extinct_attr / repeat_until_success=False (compared) and is_assign_*_taxa=False (clause d only), star_tree; on the "
        "scripted stream every argument of rng.expovariate and the coalescent frames read back off Kingman trees are compared with "
        "the model; multi-call histories through the dendropy.simulate.treesim wrapper layer (rand_trees, coalescence_ages, "
        "birthdeath_coalescence_ages, the re-exported simulators, star_tree) that reuse caller-owned keyword maps (dict / OrderedDict / "
        "read-only proxy; map, list-of-maps and factory forms), taxon namespaces and the containing tree, each call with a generator of "
        "its own (seeded, scripted, or none); a size sweep runs every simulator (contained coalescent with many surviving lineages: short tip branches / large "
        "populations) at tip / gene / lineage counts from {31,32,33,40,63,64,65,100,128,200,256}; thorough adds every decision tape of bounded depth (small scope) and "
        "fresh-interpreter runs; non-trivial = at least one death event or restart, or >= 4 tips/genes")
MODELLED_NOT_VERIFIED = [
    "C18: the Lean event loops (bdRun, fbdRun, pbRun, coalesce, kingman, contained) are hand-written from birthdeath.birth_death_tree/"
    "fast_birth_death_tree/uniform_pure_birth_tree and coalescent.coalesce_nodes/pure_kingman_tree/contained_coalescent_tree/"
    "constrained_kingman_tree; tied to the code by per-case comparison of the returned trees on logged draw lists",
    "C18: random.Random's own algorithms (expovariate, gauss, shuffle, sample) are not modelled - the draws are inputs of the model; "
    "floating point is not modelled: times/rates are integers in a common unit (exact for the dyadic scripted stream), "
    "the genuine random.Random stream is judged by the oracle with relative tolerance 1e-9",
    "C18: GSA (gsa_ntax), num_extinct_tips/num_total_tips stops, retained extinct tips, discrete_birth_death_tree (constant rates) and a "
    "caller-supplied start tree (tree=) are outside the statement's quantifier but modelled (ops gsa, bdx, dbd, bdt), compared per case and "
    "covered by theorems; the GSA crash (TypeError when a clade cut away by the slice went extinct) is predicted by the model, not judged",
    "C18: GSA results (birth_death_tree and fast_birth_death_tree with gsa_ntax) are judged by the oracle like any other birth-death tree "
    "when a tree is returned (N equidistant distinct-taxon leaves); the known TypeError of the GSA pruning loop is tolerated; the fast "
    "variant's GSA, extinct/total stops and tree= continuation are oracle-only (no model)",
    "C18: retained extinct tips are recognised on the implementation by the library's own is_extinct attribute (None on extinct tips)",
    "C18: tie A (Gen/C18Kernels.lean, harness/gen/c18kernels.py) regenerates the closed-form kernels only (rates handed to expovariate, "
    "thresholds, slot / draw orders, time units, expected waiting times, the weighted-choice step, choose(k,2) for k <= 40 as a table "
    "computed by the function's own source); the loops around them stay hand-written and are tied by correspondence. The rate trace of "
    "uniform_pure_birth_tree (pbRates) is a closed form of the model, not derived from its loop (kingRates: kingman_reads_valid_script); no rate "
    "trace for the contained coalescent and GSA; mean_kingman_tree lengths (k-th parts, not dyadic) are compared within 1e-9 relative",
    "C18: of the treesim wrapper layer only rand_trees over birth_death_tree with one keyword map is modelled (randTrees); the list-of-maps / "
    "factory forms, coalescence_ages and the other model functions are judged by the wrapper-history oracle (direct run, snapshots, tripwire)",
    "C18: repeat_until_success=False ending in TreeSimTotalExtinctionException, is_assign_extant_taxa / is_assign_extinct_taxa = False and "
    "star_tree are not modelled (double run, tripwires, well-formedness only); as the code stands is_assign_extinct_taxa=False alone "
    "still labels retained extinct tips and is_assign_extant_taxa=False alone labels nothing (both tests read is_assign_extant_taxa) - "
    "outside the statement, recorded here",
]
EXPLANATION = ("Theorems (Props/C18.lean) hold for EVERY draw list, i.e. every behaviour of the generator. wic_*: weighted_index_choice picks "
               "an index in range, of positive weight, characterised by cumulative sums, and always picks one for 0 <= u < 1. "
               "bd_inv / restart_resets / bd_loop_inv / bd_result / bd_result_count / bd_result_root: birth_death_tree keeps "
               "|extant_tips| = number of live tips and all live tips at depth total_time + c (the restart re-establishes this from any state); "
               "the returned tree has no unary node, only live leaves, all at one root distance, distinct taxa, and exactly N leaves under the "
               "tip-count rule; bd_fuel_suffices: the loop fuel is never exhausted. fbd_*: the same for fast_birth_death_tree (creation-time "
               "bookkeeping). pb_result: uniform_pure_birth_tree. kingman_result: leaves are a permutation of the taxa, tree ultrametric; "
               "coalesce_period_aligned: a period-limited coalescence lifts every lineage by exactly the period. contained_no_early_join: on an "
               "admissible population tree every join of lineages from different populations is at least as old as their divergence "
               "(full statement, by mutual induction over the population tree); containedRU_no_early_join: the same whatever genes the "
               "random_uniform placement of constrained_kingman_tree draws. coalesce_fuel_suffices: loop fuel never exhausted. "
               "No internal failure / progress: bd_only_script_errors, fbd_only_script_errors, pb_only_script_errors, "
               "kingman_only_script_errors, contained_never_internal_error (a run can only stop on a too short or wrongly typed draw "
               "script; state/fuel unreachable, via the lookup invariants SInv/FSInv), bd_iter_progress and finish_progress (six "
               "well-kinded draws always complete a pass; two valid shuffles complete the run), bd_sinv_step. contained_leaves: the gene "
               "tree's leaves are a permutation of the sampled genes. Well-formedness and (for GT) bifurcation are type-level facts of "
               "the model, judged on the implementation by the oracle. "
               "Extension round: XInv / bd_xinv / bd_loop_xinv / bd_stop_counts (num_extinct_tips, num_total_tips reached exactly), "
               "bd_result_retained(+_counts) (retained extinct tips: none deeper than the extant ones, all leaves labelled distinctly, counts per "
               "rule), GoodStart / goodStart_default (tree= continuation: every bd_* theorem now holds from any admissible start tree; the restart "
               "restores the start tree), gsa_selects_last (the slice loop always returns the last slice), gsa_result (cut back to a slice = the "
               "tree as it stood then: exactly N equidistant extant leaves), dbd_result (discrete simulator: equidistant, >= ntax leaves). "
               "Last round: gsa_only_script_errors_or_assert (+ gsa_assert_when_zero_duration): a GSA run fails only on its script or on the "
               "code's own assert (slices of total duration 0); fbd_iter_progress, fbd_sinv_step; coalesce_succeeds_all / _cut and "
               "contained_succeeds (script trees SScr, OKRoot): the contained coalescent returns a tree on every well-formed containing tree "
               "and script; evolving rates below zero are modelled (wicN: the code normalises by the rate sum, so the comparison flips for a "
               "negative sum and a zero sum is its ZeroDivisionError): wicN_pos, wicN_none_iff, LInv, bd_iter_state_error, "
               "bd_iter_zero_sum_fails, bd_state_error_iff_zero_rate_sum, bd_errors_any_rates (the model's state error under any gauss "
               "draws is exactly a reached zero rate sum). "
               "Final round: bd_taxa_range / fbd_taxa_range (members of the supplied namespace first, new taxa numbered on from n0), "
               "kingman_succeeds / pb_succeeds (every well-formed script yields a tree), dbd_only_script_errors. Stated limits: every bd_* "
               "result assumes an admissible start tree (GoodStart; default fresh tree admissible) (bd_only_script_errors assumes gauss draws that never lower a rate; bd_errors_any_rates does not); gsa_result / dbd_result are conditional on a tree being returned; expovariate's rate argument "
               "is now an observable of the model (rate traces, compared call by call), the waiting times themselves stay inputs. "
               "Extension round 3: bd_/fbd_/pb_/coalesce_stream_independent (generator threading: a run reads a prefix of the stream, leaves "
               "exactly the rest, and its outcome is a function of the consumed prefix alone - any other future of the stream gives the "
               "same state and leaves that future untouched); bd_rate_arg_const / bd_rate_trace_const / bd_rates_const / fbd_rate_trace "
               "(without rate evolution every argument of expovariate is (extant tips) x (birth + death)), bd_rate_arg_pos (positive for "
               "admissible rates); mean_kingman_result / mean_kingman_succeeds (mean_kingman_tree = pure_kingman_tree on the script with "
               "the expected waiting times L*pop/choose(k,2) filled in); contained_kids_stream_independent; tie A bridges kernel_* + rates_getElem (24 theorems: the regenerated rate "
               "formulas, stop / event thresholds, event-slot and gauss-draw orders, daughter rates, discrete thresholds, pure-birth rate, "
               "coalescent rate / time units / expected time / period tests, choose(k,2) table, weighted-choice step are the model's). "
               "Wave 2: the treesim wrapper layer is in the model (finishS, bdRunS, randTrees = rand_trees(rng, birth_death_tree, map, k), driver op rt, "
               "compared per case incl. a shared growing namespace): bdRunS_direct / bdRunS_of_direct (the simulator on a generator stream returns "
               "what the simulator returns on exactly the segment it reads, and leaves the rest), rand_trees_direct_runs (rand_trees returns rs and "
               "leaves rest IFF the stream splits into k consecutive segments + rest and the direct run on the i-th segment returns the i-th tree; "
               "the caller's keyword map is a parameter of the model, i.e. read-only by construction - on the code that is oracle clause (c)); "
               "kingman_reads_valid_script (converse of kingman_succeeds: a successful run has read exactly n-1 events, the j-th inside a pool of "
               "n-j lineages, so the j-th expovariate call has rate choose(n-j,2) = kingRates). "
               "Determinism (clause d) beyond that is definitional in the model (functions of arguments and draw list); its content is the tie: "
               "tripwires on GLOBAL_RNG / random.*, equal-state double runs with shaken memory layout, fresh-interpreter runs.")

SC = 64      # time unit of the model: 1/SC
RS = 64      # rate unit of the model: 1/RS
ULP1 = 1.0 - 2.0 ** -53


class ScriptExhausted(Exception):
    pass


# ------------------------------------------------------------------------------------------------ scripted generator
class ScriptRng(object):
    """every decision is `pick(k)` (an index < k): from the tape while it lasts, then from the fallback
    (a seeded random.Random, or always 0 when seed is None).  All served values are dyadic."""

    def __init__(self, spec):
        self.tape = list(spec.get("tape", []))
        self.pos = 0
        seed = spec.get("seed")
        self.fb = random.Random(seed) if seed is not None else None
        self.force_u = list(spec.get("force_u", []))       # served by the first random() calls: "hi" | "lo" | "ulp"
        self.ugrid = spec.get("ugrid", 1 << 20)
        self.wgrid = spec.get("wgrid", 8)
        self.special = spec.get("special", True)
        self.gauss_signed = spec.get("gauss_signed", False)   # gauss() may also lower a rate (clause (d) cases only)
        self.picks = []
        self.arity = []
        self.log = []
        self.rates = []          # the argument of every expovariate call, as received (an intermediate observable)
        self.limit = spec.get("limit", 40000)

    def pick(self, k):
        if len(self.picks) >= self.limit:
            raise ScriptExhausted()
        if self.pos < len(self.tape):
            v = self.tape[self.pos] % k
        elif self.fb is not None:
            v = self.fb.randrange(k)
        else:
            v = 0
        self.pos += 1
        self.picks.append(v)
        self.arity.append(k)
        return v

    # -- the random.Random surface the simulators use
    def expovariate(self, rate):
        self.rates.append(rate)
        v = (1 + self.pick(self.wgrid)) / 4.0
        self.log.append("w%d" % int(v * SC))
        return v

    def random(self):
        if self.force_u:
            f = self.force_u.pop(0)
            v = {"hi": 2047 / 2048.0, "lo": 1 / 2048.0, "ulp": ULP1, "zero": 0.0}[f]
        else:
            c = self.pick(48) if self.special else 5
            if c == 0:
                v = ULP1
            elif c == 1:
                v = 0.0
            else:
                v = (2 * self.pick(self.ugrid) + 1) / (2.0 * self.ugrid)
        fr = Fraction(v)
        self.log.append("u%d/%d" % (fr.numerator, fr.denominator))
        return v

    def gauss(self, mu, sigma):
        k = ((self.pick(5) - 2) if self.gauss_signed else self.pick(3)) if sigma else 0
        v = mu + sigma * k
        try:
            self.log.append("g%d" % rate_int(v))
        except ValueError:
            # not representable in the model's rate unit: the run goes on (it must not see a harness exception), the log is
            # marked and the case is not compared with the model
            self.log.append("g?")
            self.incomparable = True
        return v

    def uniform(self, a, b):
        v = a + (b - a) * (2 * self.pick(512) + 1) / 1024.0
        fr = Fraction(v)
        self.log.append(("u%d/%d" if (a, b) == (0, 1) else "f%d/%d") % (fr.numerator, fr.denominator))
        return v

    def randint(self, a, b):
        v = a + self.pick(b - a + 1)
        self.log.append("i%d" % v)
        return v

    def randrange(self, a, b=None):
        if b is None:
            a, b = 0, a
        v = a + self.pick(b - a)
        self.log.append("i%d" % v)
        return v

    def choice(self, seq):
        i = self.pick(len(seq))
        self.log.append("c%d" % i)
        return seq[i]

    def sample(self, pop, k):
        pop = list(pop)
        idx = []
        avail = list(range(len(pop)))
        for _ in range(k):
            idx.append(avail.pop(self.pick(len(avail))))
        # sampling the whole population is a shuffle: log it as one, so that `shuffle(x)` and `sample(x, len(x))` are the same draw
        self.log.append(("p" if (k == len(pop) and k != 2) else "s") + ",".join(str(i) for i in idx))
        return [pop[i] for i in idx]

    def shuffle(self, x):
        avail = list(range(len(x)))
        perm = []
        while avail:
            perm.append(avail.pop(self.pick(len(avail))))
        self.log.append("p" + ",".join(str(i) for i in perm))
        x[:] = [x[i] for i in perm]


def make_rng(spec):
    if spec["kind"] == "real":
        return random.Random(spec["seed"])
    return ScriptRng(spec)


# ------------------------------------------------------------------------------------------------ independent oracles
def kids(nd):
    return nd._child_nodes


def leaves_of(seed):
    return [n for n in tu.walk(seed) if not kids(n)]


def num(x, exact):
    if x is None:
        return Fraction(0) if exact else 0.0
    return Fraction(x) if exact else float(x)


def root_dists(tree, exact):
    """{id(leaf): distance from the seed node (the seed's own edge is not counted)} by climbing parent pointers"""
    out = []
    for lf in leaves_of(tree.seed_node):
        s = Fraction(0) if exact else 0.0
        nd = lf
        guard = 0
        while nd is not tree.seed_node and nd._parent_node is not None and guard < 100000:
            s += num(nd.edge.length, exact)
            nd = nd._parent_node
            guard += 1
        out.append(s)
    return out


def close(a, b, exact):
    if exact:
        return a == b
    return abs(a - b) <= 1e-9 * max(1.0, abs(a), abs(b))


def o_shape(tree, problems):
    for p in tu.arborescence_problems(tree):
        problems.append(("wellformed", p))
    for nd in tu.walk(tree.seed_node):
        if kids(nd) and len(kids(nd)) != 2:
            problems.append(("bifurcating", "a node has %d children" % len(kids(nd))))
            break
    for nd in tu.walk(tree.seed_node):
        if nd is not tree.seed_node and nd.edge.length is not None and nd.edge.length < 0:
            problems.append(("negative_length", "an edge has length %r" % nd.edge.length))
            break


def o_equidistant(tree, exact, problems, what="extant tips"):
    rd = root_dists(tree, exact)
    if rd and not all(close(x, rd[0], exact) for x in rd):
        problems.append(("equidistant", "%s are at root distances %s" % (what, sorted(set(str(x) for x in rd))[:6])))


def o_taxa(tree, problems, expect_in_namespace=True):
    lv = leaves_of(tree.seed_node)
    if any(l.taxon is None for l in lv):
        problems.append(("taxa", "a leaf carries no taxon"))
        return
    if len(set(id(l.taxon) for l in lv)) != len(lv):
        problems.append(("taxa", "%d leaves carry only %d distinct taxa (%s)" % (
            len(lv), len(set(id(l.taxon) for l in lv)), sorted(l.taxon.label for l in lv)[:12])))
    if expect_in_namespace:
        members = set(id(t) for t in tree.taxon_namespace)
        if any(id(l.taxon) not in members for l in lv):
            problems.append(("taxa", "a leaf taxon is not a member of the tree's namespace"))


def canon(tree, exact=False):
    """identity of the returned tree as the caller sees it: shape, child order, labels, lengths"""
    def go(nd):
        lab = nd.taxon.label if nd.taxon is not None else "-"
        ln = nd.edge.length
        ls = "N" if ln is None else (tu.frac(ln) if exact else repr(float(ln)))
        if not kids(nd):
            return "%s:%s" % (lab, ls)
        return "(%s)%s:%s" % (",".join(go(c) for c in kids(nd)), lab, ls)
    sys.setrecursionlimit(max(sys.getrecursionlimit(), 10000))
    return go(tree.seed_node)


def rate_int(x):
    f = Fraction(x) * RS
    if f.denominator != 1:
        raise ValueError("rate %r is not a multiple of 1/%d" % (x, RS))
    return f.numerator


def scaled(x):
    f = Fraction(0) if x is None else Fraction(x) * SC
    if f.denominator != 1:
        raise ValueError("length %r is not a multiple of 1/%d" % (x, SC))
    return str(f.numerator)


def mean_unit(n):
    """a time unit 1/L in which every expected waiting time 1/choose(k, 2), 2 <= k <= n, is a whole number"""
    L = 1
    for k in range(2, n + 1):
        c = k * (k - 1) // 2
        g = L
        m = c
        while m:
            g, m = m, g % m
        L = L * c // g
    return L


def is_extinct_leaf(nd):
    """the library's own flag on a retained extinct tip (currently None; True would be the documented value)"""
    v = getattr(nd, "is_extinct", False)
    return v is None or v is True


def model_text(tree, leafname, mark_extinct=False, unit=None):
    """same text as the Lean renderers: leaf `L<name>:<len>` (`X…` for a retained extinct tip), internal `(<len> child child ...)`;
    lengths in units of 1/SC, or plain integers (generations) with unit=1"""
    def ln(x):
        if isinstance(unit, tuple):
            return repr(0.0 if x is None else float(x) * unit[1])
        if unit == 1:
            f = Fraction(0) if x is None else Fraction(x)
            if f.denominator != 1:
                raise ValueError("length %r is not a whole number of generations" % (x,))
            return str(f.numerator)
        return scaled(x)

    def go(nd):
        if not kids(nd):
            return "%s%s:%s" % ("X" if mark_extinct and is_extinct_leaf(nd) else "L", leafname(nd), ln(nd.edge.length))
        return "(%s %s)" % (ln(nd.edge.length), " ".join(go(c) for c in kids(nd)))
    return go(tree.seed_node)


# ------------------------------------------------------------------------------------------------ simulators
def mk_namespace(dendropy, spec):
    if spec is None:
        return None
    style, n = spec
    if style == "t":
        labels = ["t%d" % (i + 1) for i in range(n)]
    elif style == "T":
        labels = ["T%d" % (2 * i + 1) for i in range(n)]      # collides with every other generated label
    elif style == "mixed":
        labels = [("T%d" if i % 2 else "t%d") % (i + 1) for i in range(n)]
    else:
        labels = ["sp%d" % i for i in range(n)]
    return dendropy.TaxonNamespace(labels)


def species_tree(dendropy, sp):
    """sp: {"par": [...], "len": [str|None], "pop": [int|None], "ng": [int]}; nodes in pre-order, children in index order"""
    n = len(sp["par"])
    leaves = [i for i in range(n) if i not in sp["par"]]
    lab = sp.get("lab") or ["S%d" % i for i in range(n)]
    tns = dendropy.TaxonNamespace([lab[i] for i in leaves])
    nodes = [dendropy.Node() for _ in range(n)]
    for i in range(n):
        if sp["len"][i] is not None:
            nodes[i].edge.length = float(Fraction(sp["len"][i]))
        if sp["pop"][i] is not None:
            nodes[i].edge.pop_size = sp["pop"][i]
        if i in leaves:
            nodes[i].taxon = tns.get_taxon(lab[i])
            nodes[i].num_genes = sp["ng"][i]
        if sp["par"][i] >= 0:
            nodes[sp["par"][i]].add_child(nodes[i])
    tree = dendropy.Tree(taxon_namespace=tns, seed_node=nodes[0])
    tree.is_rooted = True
    tree._verif_nodes = nodes      # harness-side handle on the node objects by spec index (histories edit them in place)
    return tree, leaves


def start_tree(dendropy, st):
    """the `tree=` argument: st = {"par": [...], "len": [...]}; pre-order numbering, binary, one taxon per leaf"""
    n = len(st["par"])
    leaves = [i for i in range(n) if i not in st["par"]]
    tns = dendropy.TaxonNamespace(["s%d" % i for i in leaves])
    nodes = [dendropy.Node() for _ in range(n)]
    for i in range(n):
        nodes[i].edge.length = float(Fraction(st["len"][i]))
        if i in leaves:
            nodes[i].taxon = tns.get_taxon("s%d" % i)
        if st["par"][i] >= 0:
            nodes[st["par"][i]].add_child(nodes[i])
    tree = dendropy.Tree(taxon_namespace=tns, seed_node=nodes[0])
    tree.is_rooted = True
    return tree


def gen_start(rng, k):
    """an ultrametric binary start tree with k leaves, quarter-unit lengths"""
    shape = tu.rand_shape(rng, k, p_poly=0.0, p_unary=0.0)
    par, height = [], []

    def go(sh, parent):
        i = len(par)
        par.append(parent)
        height.append(Fraction(0))
        hs = [go(c, i) for c in sh]
        if hs:
            height[i] = max(height[j] for j in hs) + Fraction(rng.randint(1, 4), 4)
        return i
    go(shape, -1)
    lens = ["0"] + [str(height[par[i]] - height[i]) for i in range(1, len(par))]
    return {"par": par, "len": lens}


def run_sim(dendropy, case, rng):
    """one call of the simulator under test; returns (tree, aux)"""
    from dendropy.model import birthdeath, coalescent
    from dendropy.simulate import treesim
    sim, p = case["sim"], case["params"]
    if sim in ("bd", "fbd"):
        kw = {}
        if p.get("n") is not None:
            kw["num_extant_tips"] = p["n"]
        if p.get("max_time") is not None:
            kw["max_time"] = float(Fraction(p["max_time"]))
        if p.get("nx") is not None:
            kw["num_extinct_tips"] = p["nx"]
        if p.get("nt") is not None:
            kw["num_total_tips"] = p["nt"]
        if p.get("retain"):
            kw["is_retain_extinct_tips"] = True
        tns = mk_namespace(dendropy, p.get("ns"))
        if tns is not None:
            kw["taxon_namespace"] = tns
        b, d = float(Fraction(p["b"])), float(Fraction(p["d"]))
        for k, v in sorted((p.get("flags") or {}).items()):
            kw[k] = v                  # is_add_extinct_attr / is_assign_extant_taxa / is_assign_extinct_taxa / repeat_until_success
        if p.get("start") is not None:
            kw.pop("taxon_namespace", None)
            kw["tree"] = start_tree(dendropy, p["start"])
        try:
            if sim == "bd":
                fn = treesim.birth_death_tree if p.get("via", "treesim") == "treesim" else birthdeath.birth_death_tree
                return fn(b, d, birth_rate_sd=float(Fraction(p.get("bsd", "0"))), death_rate_sd=float(Fraction(p.get("dsd", "0"))),
                          rng=rng, **kw), None
            return birthdeath.fast_birth_death_tree(b, d, rng=rng, **kw), None
        except dendropy.utility.error.TreeSimTotalExtinctionException:
            if (p.get("flags") or {}).get("repeat_until_success") is not False:
                raise
            # the documented outcome of repeat_until_success=False; a one-node stand-in keeps the two runs comparable
            t = dendropy.Tree()
            t.seed_node.label = "TOTAL-EXTINCTION"
            return t, "extinct"
    if sim == "gsa":
        tns = mk_namespace(dendropy, p.get("ns"))
        kw = {} if tns is None else {"taxon_namespace": tns}
        fn = birthdeath.fast_birth_death_tree if p.get("fast") else birthdeath.birth_death_tree
        return fn(float(Fraction(p["b"])), float(Fraction(p["d"])), num_extant_tips=p["n"], gsa_ntax=p["g"], rng=rng, **kw), None
    if sim == "dbd":
        try:
            return treesim.discrete_birth_death_tree(float(Fraction(p["b"])), float(Fraction(p["d"])),
                                                     birth_rate_sd=float(Fraction(p.get("bsd", "0"))),
                                                     death_rate_sd=float(Fraction(p.get("dsd", "0"))), ntax=p["n"],
                                                     repeat_until_success=p["repeat"], rng=rng,
                                                     **({} if p.get("mg") is None else {"max_time": p["mg"]})), None
        except dendropy.utility.error.TreeSimTotalExtinctionException:
            # documented outcome when repeat_until_success is False: a one-node stand-in keeps the two runs comparable
            t = dendropy.Tree()
            t.seed_node.label = "TOTAL-EXTINCTION"
            return t, "extinct"
    if sim == "pb":
        tns = mk_namespace(dendropy, p["ns"])
        return treesim.uniform_pure_birth_tree(tns, float(Fraction(p.get("b", "1"))), rng=rng), None
    if sim == "king":
        tns = mk_namespace(dendropy, p["ns"])
        pop = p["pop"]
        pop = float(Fraction(pop)) if isinstance(pop, str) else pop
        return treesim.pure_kingman_tree(tns, pop_size=pop, rng=rng), None
    if sim == "mking":
        # mean_kingman_tree: expected waiting times (no expovariate call), the pairs still come from rng.sample
        return treesim.mean_kingman_tree(mk_namespace(dendropy, p["ns"]), pop_size=p["pop"], rng=rng), None
    if sim == "cont":
        sp, leaves = species_tree(dendropy, p["sp"])
        gmap = dendropy.TaxonNamespaceMapping.create_contained_taxon_mapping(
            containing_taxon_namespace=sp.taxon_namespace, num_contained=[p["sp"]["ng"][i] for i in leaves],
            contained_taxon_label_separator="_")
        g = treesim.contained_coalescent_tree(sp, gmap, rng=rng)
        return g, sp
    if sim == "ckt":
        sp, leaves = species_tree(dendropy, p["sp"])
        strat = p["strategy"]
        kw = {}
        if strat == "fixed_per_population":
            kw["num_genes"] = p["num_genes"]
        elif strat == "random_uniform":
            kw["num_genes"] = p["num_genes"]
        g, wp = coalescent.constrained_kingman_tree(sp, rng=rng, gene_sampling_strategy=strat,
                                                    gene_node_label_fn=lambda x, y: "%s_%d" % (x, y),
                                                    decorate_original_tree=p.get("decorate", True), **kw)
        return g, wp
    raise ValueError(sim)


def rv_call(dendropy, case, rng):
    """random-variate helpers of the anchored modules (clause d only)"""
    from dendropy.model import coalescent
    from dendropy.calculate import probability
    fn, a = case["params"]["fn"], case["params"]["args"]
    if fn == "discrete_time_to_coalescence":
        return coalescent.discrete_time_to_coalescence(a[0], a[1], rng=rng)
    if fn == "time_to_coalescence":
        return coalescent.time_to_coalescence(a[0], a[1], rng=rng)
    if fn == "geometric_rv":
        return probability.geometric_rv(a[0], rng=rng)
    if fn == "poisson_rv":
        return probability.poisson_rv(a[0], rng=rng)
    if fn == "binomial_rv":
        return probability.binomial_rv(a[0], a[1], rng=rng)
    if fn == "num_poisson_events":
        return probability.num_poisson_events(a[0], a[1], rng=rng)
    if fn == "sample_multinomial":
        return probability.sample_multinomial(a, rng=rng)
    if fn == "weighted_index_choice":
        return probability.weighted_index_choice(a, rng=rng)
    if fn == "weighted_choice":
        return probability.weighted_choice(list(range(len(a))), a, rng=rng)
    if fn == "star_tree":
        from dendropy.simulate import treesim
        tns = mk_namespace(dendropy, ["sp", a[0]])
        t = treesim.star_tree(tns)
        lv = leaves_of(t.seed_node)
        ok = [id(l.taxon) for l in lv] == [id(x) for x in tns] and all(l._parent_node is t.seed_node for l in lv)
        return [canon(t), "one leaf per taxon in namespace order under the seed" if ok or a[0] == 0 else "NOT a star over the namespace"]
    if fn == "rand_trees":
        from dendropy.simulate import treesim
        kw = {"birth_rate": 1.0, "death_rate": 0.5, "num_extant_tips": a[0]}
        ts = list(treesim.rand_trees(rng, treesim.birth_death_tree, kw if a[2] == "map" else [kw, kw], a[1]))
        return [canon(t) for t in ts]
    raise ValueError(fn)


class count_calls(object):
    """instrumentation only (coverage of the restart path): counts calls of a method while active"""

    def __init__(self, cls, name):
        self.cls, self.name, self.n = cls, name, 0
        self.orig = getattr(cls, name)
        me = self

        def wrapper(obj, *a, **k):
            me.n += 1
            return me.orig(obj, *a, **k)
        setattr(cls, name, wrapper)

    def stop(self):
        setattr(self.cls, self.name, self.orig)
        return self.n


class GlobalWatch(object):
    """tripwire on the two process-wide generators: dendropy.utility.GLOBAL_RNG (shared by reference by every module)
    and the hidden instance behind the module-level random.* functions"""

    def __enter__(self):
        import dendropy.utility as du
        self.g = du.GLOBAL_RNG
        self.s1 = self.g.getstate()
        self.s2 = random.getstate()
        # any other source of randomness: a generator constructed during the call (random.Random(), SystemRandom())
        # or system entropy read through the random module
        self.made = 0
        self.entropy = 0
        me = self
        self.orig_init = random.Random.__init__
        self.orig_urandom = getattr(random, "_urandom", None)

        def init(obj, *a, **k):
            # a generator seeded explicitly (from a constant or from the supplied rng) is still a function of the arguments and
            # the generator state; only one seeded from the clock / system entropy is not
            seed_arg = a[0] if a else k.get("x")
            if seed_arg is None:
                me.made += 1
            return me.orig_init(obj, *a, **k)

        def urandom(n):
            me.entropy += 1
            return me.orig_urandom(n)
        random.Random.__init__ = init
        if self.orig_urandom is not None:
            random._urandom = urandom
        return self

    def __exit__(self, *a):
        random.Random.__init__ = self.orig_init
        if self.orig_urandom is not None:
            random._urandom = self.orig_urandom
        return False

    def touched(self):
        t = []
        if self.g.getstate() != self.s1:
            t.append("dendropy.utility.GLOBAL_RNG")
        if random.getstate() != self.s2:
            t.append("module-level random.*")
        if self.made:
            t.append("an unseeded generator constructed during the call (random.Random() / SystemRandom())")
        if self.entropy:
            t.append("system entropy (os.urandom via the random module)")
        return t


# species-tree oracle helpers (independent walks)
def sp_paths(sp):
    """{leaf label: [(id(node), Fraction length of the edge above node) ... up to the seed]}"""
    out = {}
    for lf in leaves_of(sp.seed_node):
        path, nd = [], lf
        while nd is not None:
            path.append((id(nd), num(nd.edge.length, True) if nd._parent_node is not None else Fraction(0)))
            nd = nd._parent_node
        out[lf.taxon.label] = path
    return out


def divergence(paths, a, b):
    """distance from species leaf a up to the most recent common ancestor of a and b"""
    ids_b = set(i for i, _ in paths[b])
    d = Fraction(0)
    for i, ln in paths[a]:
        if i in ids_b:
            return d
        d += ln
    return None


def sp_ultrametric(sp):
    """every non-root branch has a length and all tips of the containing tree are equidistant from its root"""
    n = len(sp["par"])
    if any(sp["len"][i] is None for i in range(1, n)):
        return False
    depth = [Fraction(0)] * n
    for i in range(1, n):
        depth[i] = depth[sp["par"][i]] + Fraction(sp["len"][i])
    tips = [depth[i] for i in range(n) if i not in sp["par"]]
    return len(set(tips)) == 1


def o_contained(gene_tree, sp, exact, problems):
    paths = sp_paths(sp)
    species_of = lambda lf: lf.taxon.label.rsplit("_", 1)[0]
    # post-order: per node the list of (leaf, distance from leaf up to this node)
    below = {}
    order = tu.walk(gene_tree.seed_node)
    for nd in reversed(order):
        if not kids(nd):
            below[id(nd)] = [(nd, Fraction(0) if exact else 0.0)]
            continue
        groups = []
        for c in kids(nd):
            ln = num(c.edge.length, exact)
            groups.append([(lf, d + ln) for lf, d in below[id(c)]])
        for i in range(len(groups)):
            for j in range(len(groups)):
                if i == j:
                    continue
                for la, da in groups[i]:
                    for lb, _ in groups[j]:
                        sa, sb = species_of(la), species_of(lb)
                        if sa == sb:
                            continue
                        dv = divergence(paths, sa, sb)
                        if (da < dv) if exact else (da < float(dv) - 1e-9 * max(1.0, float(dv))):
                            problems.append(("early_join", "genes %s and %s join %s above %s but species %s and %s diverged %s above %s" % (
                                la.taxon.label, lb.taxon.label, da, la.taxon.label, sa, sb, dv, sa)))
                            return
        below[id(nd)] = [x for g in groups for x in g]


# ------------------------------------------------------------------------------------------------ model lines
def model_line(case, log, tree, aux):
    """protocol line for drv_c18 and the text the implementation's result should render to; None when not modelled"""
    sim, p = case["sim"], case["params"]
    tns = tree.taxon_namespace
    by_acc = lambda nd: str(tns.accession_index(nd.taxon))
    opt = lambda x: "-" if x is None else str(x)
    if sim in ("bd", "fbd"):
        if sim == "fbd" and (Fraction(p.get("bsd", "0")) or Fraction(p.get("dsd", "0"))):
            return None
        mt = None if p.get("max_time") is None else int(Fraction(p["max_time"]) * SC)
        n0 = 0 if p.get("ns") is None else p["ns"][1]
        if sim == "fbd" and (p.get("start") is not None or p.get("nx") is not None or p.get("nt") is not None):
            return None     # oracle only: the model of the fast variant covers the tip-count / max_time rules from a fresh tree
        if p.get("start") is not None:
            st = p["start"]
            m = len(st["par"])
            n0 = len([i for i in range(m) if i not in st["par"]])
            head = ["bdt", opt(p.get("n")), opt(mt), str(rate_int(p["b"])), str(rate_int(p["d"])), str(n0), str(m)] + \
                   [str(x) for x in st["par"]] + [scaled(Fraction(x)) for x in st["len"]]
            return " ".join(head + log), model_text(tree, by_acc)
        if sim == "bd" and (p.get("nx") is not None or p.get("nt") is not None or p.get("retain")):
            head = ["bdx", opt(p.get("n")), opt(mt), opt(p.get("nx")), opt(p.get("nt")), "1" if p.get("retain") else "0",
                    str(rate_int(p["b"])), str(rate_int(p["d"])), str(n0)]
            return " ".join(head + log), model_text(tree, by_acc, mark_extinct=bool(p.get("retain")))
        head = [sim, opt(p.get("n")), opt(mt), str(rate_int(p["b"])), str(rate_int(p["d"])), str(n0)]
        return " ".join(head + log), model_text(tree, by_acc)
    if sim == "dbd":
        if Fraction(p.get("bsd", "0")) or Fraction(p.get("dsd", "0")):
            return None
        head = ["dbd", str(rate_int(p["b"])), str(rate_int(p["d"])), str(RS), opt(p["n"]), opt(p.get("mg")), "1" if p["repeat"] else "0"]
        want = "extinct" if aux == "extinct" else "ok " + model_text(tree, by_acc, unit=1)
        return " ".join(head + log), ("RAW", want)
    if sim == "pb":
        return " ".join(["pb", str(p["ns"][1])] + log), model_text(tree, by_acc)
    if sim == "king":
        if not isinstance(p["pop"], int):
            # fractional population size pn/pd: tmrca = w * pn / pd.  The model multiplies by a natural number, so the
            # waiting times travel pre-divided by pd (exactly, or the case is not comparable): (w / pd) * pn
            f = Fraction(p["pop"])
            log2 = []
            for t in log:
                if t.startswith("w"):
                    w = Fraction(int(t[1:]), f.denominator)
                    if w.denominator != 1:
                        raise ValueError("waiting time not divisible by the population size's denominator")
                    t = "w%d" % w.numerator
                log2.append(t)
            return " ".join(["king", str(p["ns"][1]), str(f.numerator)] + log2), model_text(tree, by_acc)
        return " ".join(["king", str(p["ns"][1]), str(p["pop"])] + log), model_text(tree, by_acc)
    if sim == "mking":
        n, pop = p["ns"][1], p["pop"]
        L = mean_unit(n)
        # lengths are k-th parts (1/3, 1/6, ...): not dyadic, so the implementation's floats are compared with the model's exact
        # integers (units 1/L) within a relative tolerance, shape / order / labels exactly
        return " ".join(["mking", str(n), str(pop), str(L)] + log), ("APPROX", "ok " + model_text(tree, by_acc, unit=("float", L)))
    if sim in ("cont", "ckt"):
        sp = p["sp"]
        n = len(sp["par"])
        leafset = [i for i in range(n) if i not in sp["par"]]
        if sim == "cont":
            mode, ng, dflt = "fix", [sp["ng"][i] if i in leafset else 0 for i in range(n)], 1
        elif p["strategy"] == "random_uniform":
            mode, ng, dflt = "ru%d" % p["num_genes"], [0] * n, 1
        elif p["strategy"] == "fixed_per_population":
            mode, ng, dflt = "fix", [p["num_genes"] if i in leafset else 0 for i in range(n)], 1
        else:
            mode, ng, dflt = "fix", [sp["ng"][i] if i in leafset else 0 for i in range(n)], 1
        lab = sp.get("lab") or ["S%d" % i for i in range(n)]
        idx_of = dict((l, i) for i, l in enumerate(lab))
        lens = ["N" if x is None else scaled(Fraction(x)) for x in sp["len"]]
        pops = [str(dflt if x is None else x) for x in sp["pop"]]
        toks = ["cont", mode, str(n)] + [str(x) for x in sp["par"]] + lens + pops + [str(x) for x in ng]
        # gene leaf name: <species node index>.<gene index within species, from 1>
        # (random_uniform: the label is <species>_<running gene count>; the model numbers genes by the running count too)
        name = lambda nd: "%s.%s" % (idx_of[nd.taxon.label.rsplit("_", 1)[0]], nd.taxon.label.rsplit("_", 1)[1])
        return " ".join(toks + log), model_text(tree, name)
    return None


# ------------------------------------------------------------------------------------------------ histories on one containing tree
def hist_mirror(sp):
    """harness-side mirror of the containing tree (independent of the library): children lists in order, per-node data"""
    n = len(sp["par"])
    return {"children": dict((i, [j for j in range(n) if sp["par"][j] == i]) for i in range(n)),
            "len": [None if x is None else Fraction(x) for x in sp["len"]], "pop": list(sp["pop"]), "ng": list(sp["ng"]),
            "lab": list(sp.get("lab") or ["S%d" % i for i in range(n)])}


def hist_parent(m, v):
    for i, cs in m["children"].items():
        if v in cs:
            return i
    return None


def hist_subtree(m, v):
    out, stack = [], [v]
    while stack:
        x = stack.pop()
        out.append(x)
        stack.extend(m["children"][x])
    return out


def hist_spec(m):
    """the containing tree as it stands, renumbered in pre-order (children order kept), labels carried along"""
    order, stack = [], [0]
    while stack:
        x = stack.pop()
        order.append(x)
        stack.extend(reversed(m["children"][x]))
    new = dict((old, k) for k, old in enumerate(order))
    par = [-1] * len(order)
    for old in order:
        for c in m["children"][old]:
            par[new[c]] = new[old]
    return {"par": par, "len": [None if m["len"][o] is None else str(m["len"][o]) for o in order],
            "pop": [m["pop"][o] for o in order], "ng": [m["ng"][o] for o in order], "lab": [m["lab"][o] for o in order]}


def hist_apply(m, tree, e):
    """one in-place edit of the live containing tree (through the public API) and the same edit on the mirror"""
    nodes = tree._verif_nodes
    if e["op"] == "scale":
        k = Fraction(e["k"])
        tree.scale_edges(float(k))
        m["len"] = [None if x is None else x * k for x in m["len"]]
    elif e["op"] == "len":
        nodes[e["i"]].edge.length = float(Fraction(e["v"]))
        m["len"][e["i"]] = Fraction(e["v"])
    elif e["op"] == "pop":
        nodes[e["i"]].edge.pop_size = e["v"]
        m["pop"][e["i"]] = e["v"]
    elif e["op"] == "regraft":
        v, u = e["v"], e["u"]
        pv = hist_parent(m, v)
        nodes[pv].remove_child(nodes[v])
        nodes[u].add_child(nodes[v])
        m["children"][pv].remove(v)
        m["children"][u].append(v)
    else:
        raise ValueError(e)


def gen_edit(rng, m):
    n = len(m["len"])
    non_root = list(range(1, n))
    r = rng.random()
    if r < 0.3 or not non_root:
        return {"op": "scale", "k": rng.choice(["2", "3", "2", "1/2"])}
    if r < 0.55:
        i = rng.choice(non_root)
        return {"op": "len", "i": i, "v": str((m["len"][i] or Fraction(1)) + Fraction(rng.randint(1, 12), 4))}
    if r < 0.75:
        return {"op": "pop", "i": rng.choice(non_root), "v": rng.choice([1, 2, 3, 5])}
    cands = []
    for v in non_root:
        pv = hist_parent(m, v)
        if len(m["children"][pv]) < 2:
            continue
        sub = set(hist_subtree(m, v))
        for u in range(n):
            if u not in sub and u != pv and m["children"][u]:
                cands.append((v, u))
    if not cands:
        return {"op": "scale", "k": "2"}
    v, u = rng.choice(cands)
    return {"op": "regraft", "v": v, "u": u}


def gen_hist(rng):
    sp = gen_species(rng, 5, False)
    sp["len"] = [x if (x is not None or i == 0) else "1" for i, x in enumerate(sp["len"])]
    m = hist_mirror(sp)

    class _T(object):       # edits are validated on the mirror only
        def __init__(self, n):
            self._verif_nodes = [_N() for _ in range(n)]

        def scale_edges(self, k):
            pass

    class _N(object):
        class _E(object):
            pass

        def __init__(self):
            self.edge = _N._E()

        def remove_child(self, x):
            pass

        def add_child(self, x):
            pass
    dummy = _T(len(sp["par"]))
    steps = []
    for _ in range(rng.randint(1, 3)):
        group = []
        for _ in range(rng.randint(1, 2)):
            e = gen_edit(rng, m)
            hist_apply(m, dummy, e)
            group.append(e)
        steps.append(group)
    return {"sim": "cont_hist", "params": {"sp": sp, "steps": steps, "calls_before": rng.randint(1, 2)},
            "rng": {"kind": rng.choice(["script", "script", "real"]), "seed": rng.getrandbits(32), "tape": []}}


def history_case(ctx, dendropy, case, pending):
    """contained_coalescent_tree called repeatedly on ONE containing-tree object that is edited in place between calls.
    Clause (c) is judged against the tree AS IT STANDS at each call (rebuilt from the harness's own mirror); clause (d):
    a call on the used object must equal a call on a fresh copy of the tree as it stands, from an equal generator state."""
    from dendropy.simulate import treesim
    p = case["params"]
    exact = case["rng"]["kind"] == "script"
    m = hist_mirror(p["sp"])
    live, leaves = species_tree(dendropy, p["sp"])
    gmap = dendropy.TaxonNamespaceMapping.create_contained_taxon_mapping(
        containing_taxon_namespace=live.taxon_namespace, num_contained=[p["sp"]["ng"][i] for i in leaves],
        contained_taxon_label_separator="_")
    problems = []
    call_no = [0]

    def call(tag):
        call_no[0] += 1
        spec_now = hist_spec(m)
        rspec = dict(case["rng"], seed=case["rng"]["seed"] + call_no[0])
        r1, r2 = make_rng(rspec), make_rng(rspec)
        with GlobalWatch() as gw:
            with time_limit(30):
                g_live = treesim.contained_coalescent_tree(live, gmap, rng=r1)
        if gw.touched():
            problems.append(("global_rng/cont", "%s: the call also used %s" % (tag, " and ".join(gw.touched()))))
        fresh, fl = species_tree(dendropy, spec_now)
        fmap = dendropy.TaxonNamespaceMapping.create_contained_taxon_mapping(
            containing_taxon_namespace=fresh.taxon_namespace, num_contained=[spec_now["ng"][i] for i in fl],
            contained_taxon_label_separator="_")
        with time_limit(30):
            g_fresh = treesim.contained_coalescent_tree(fresh, fmap, rng=r2)
        o_shape(g_live, problems)
        o_taxa(g_live, problems, expect_in_namespace=False)
        before = len(problems)
        o_contained(g_live, species_tree(dendropy, spec_now)[0], exact, problems)
        problems[before:] = [(k, "%s: %s" % (tag, w)) for k, w in problems[before:]]
        if canon(g_live, exact) != canon(g_fresh, exact):
            problems.append(("stale_state", "%s: the call on the re-used containing-tree object returned %s, a call on a fresh copy of the "
                             "tree as it stands (equal generator state) returned %s" % (tag, canon(g_live, exact)[:250], canon(g_fresh, exact)[:250])))
        elif exact and not problems:
            try:
                ml = model_line({"sim": "cont", "params": {"sp": spec_now}}, r1.log, g_live, None)
                pending.append((ml[0], case, ml[1]))
            except ValueError as e:
                ctx.note("not comparable: %s" % e)

    try:
        for k in range(p.get("calls_before", 1)):
            call("call %d on the tree as built" % (k + 1))
        for si, group in enumerate(p["steps"]):
            for e in group:
                hist_apply(m, live, e)
            call("call after edits %s" % json.dumps(p["steps"][:si + 1]))
    except ScriptExhausted:
        ctx.count("script_exhausted")
        return
    except Timeout:
        ctx.fail("hang", "%s did not return within 30 s" % describe(case), case)
        return
    except Exception as e:
        ctx.fail("exception", "%s raised %s: %s" % (describe(case), type(e).__name__, str(e)[:200]), case)
        return
    ctx.case([case["sim"], p, case["rng"]], True, sample={"case": case} if len(json.dumps(case)) < 1500 else None,
             kind="cont_hist/" + case["rng"]["kind"])
    seen = set()
    for kind, what in problems:
        if kind in seen:
            continue
        seen.add(kind)
        ctx.fail(kind, "%s: %s" % (describe(case), what), case)


# ------------------------------------------------------------------------------------------------ histories through the treesim wrapper layer
# every public function of dendropy.simulate.treesim, called several times in a row on caller-owned argument objects that are
# REUSED between the calls (keyword maps, taxon namespaces, the containing tree), each call with a generator of its own
WRAP_FNS = ("bd", "king", "mking", "pb", "dbd")


def wrap_model_fn(name):
    from dendropy.simulate import treesim
    return {"bd": treesim.birth_death_tree, "king": treesim.pure_kingman_tree, "mking": treesim.mean_kingman_tree,
            "pb": treesim.uniform_pure_birth_tree, "dbd": treesim.discrete_birth_death_tree}[name]


def wrap_objects(dendropy, p, ns_state=None, kw_state=None):
    """the caller-owned objects of a history: namespaces (optionally as they stand: `ns_state` = label lists), keyword maps of the
    requested mapping class (optionally with the keys as they stand), the containing tree with its gene map"""
    import collections
    import types
    nss = []
    for i, spec in enumerate(p["ns"]):
        nss.append(mk_namespace(dendropy, spec) if ns_state is None else dendropy.TaxonNamespace(ns_state[i]))
    kws = []
    for i, spec in enumerate(p["kw"]):
        d = collections.OrderedDict() if spec["class"] == "odict" else {}
        for k, v in spec["items"]:
            d[k] = nss[v["ns"]] if isinstance(v, dict) else (float(Fraction(v)) if isinstance(v, str) else v)
        if kw_state is not None:
            for k in kw_state[i]:
                if k not in d:
                    d[k] = "<extra>"
        kws.append(types.MappingProxyType(d) if spec["class"] == "proxy" else d)
    sp = gmap = None
    if p.get("sp") is not None:
        sp, leaves = species_tree(dendropy, p["sp"])
        gmap = dendropy.TaxonNamespaceMapping.create_contained_taxon_mapping(
            containing_taxon_namespace=sp.taxon_namespace, num_contained=[p["sp"]["ng"][i] for i in leaves],
            contained_taxon_label_separator="_")
    return {"ns": nss, "kw": kws, "sp": sp, "gmap": gmap}


def wrap_snapshot(objs):
    """what the caller can see of its own objects: labels of every namespace, keys and (scalar) values of every keyword map with
    namespaces by position, the containing tree"""
    pos = dict((id(n), i) for i, n in enumerate(objs["ns"]))
    kw = []
    for d in objs["kw"]:
        kw.append([(k, "ns%d" % pos[id(v)] if id(v) in pos else repr(v)) for k, v in d.items()])
    return {"ns": [[t.label for t in n] for n in objs["ns"]], "kw": kw,
            "sp": None if objs["sp"] is None else canon(objs["sp"], True)}


def wrap_kwargs_fn(shared, nss):
    """a keyword-map factory for rand_trees: parameters drawn from the generator it is handed"""
    def fn(rep_idx, rng):
        d = own_kwargs(shared)
        d["num_extant_tips"] = 2 + rng.randint(0, 3) + rep_idx
        return d
    return fn


def own_kwargs(m):
    """the caller's keyword map as the caller wrote it: a generator entry that a wrapper may have left behind in it is the
    wrapper's doing (reported by clause (c)), not part of the arguments of this call"""
    d = dict(m)
    d.pop("rng", None)
    return d


def wrap_result(x):
    if isinstance(x, list):
        return [wrap_result(y) for y in x]
    if hasattr(x, "seed_node"):
        return canon(x)
    return repr(x)


def wrap_call(dendropy, objs, step, rng, direct):
    """one call of the history through the wrapper layer (`direct=False`), or what it has to return: the simulator itself run on
    the same arguments from the same generator state (`direct=True`)"""
    from dendropy.simulate import treesim
    from dendropy.calculate import treemeasure
    op = step["op"]
    if op in ("rand_trees", "coalescence_ages", "birthdeath_coalescence_ages"):
        fn = wrap_model_fn("bd" if op == "birthdeath_coalescence_ages" else step["fn"])
        form, n = step["form"], step["n"]
        if form == "map":
            arg = objs["kw"][step["kw"][0]]
        elif form == "list":
            arg = [objs["kw"][i] for i in step["kw"]]
        else:
            arg = wrap_kwargs_fn(objs["kw"][step["kw"][0]], objs["ns"])
        if not direct:
            if op == "rand_trees":
                return wrap_result(list(treesim.rand_trees(rng, fn, arg, n)))
            if op == "coalescence_ages":
                return wrap_result(treesim.coalescence_ages(rng, fn, arg, n))
            return wrap_result(treesim.birthdeath_coalescence_ages(rng, arg, n))
        trees = []
        for rep_idx in range(n):
            if form == "map":
                trees.append(fn(rng=rng, **own_kwargs(arg)))
            elif form == "list":
                for m in arg:
                    trees.append(fn(rng=rng, **own_kwargs(m)))
            else:
                trees.append(fn(rng=rng, **own_kwargs(arg(rep_idx, rng))))
        if op == "rand_trees":
            return wrap_result(trees)
        return wrap_result([treemeasure.coalescence_ages(t) for t in trees])
    # the re-exported simulators, on the shared objects
    if op == "bd":
        return wrap_result(treesim.birth_death_tree(rng=rng, **own_kwargs(objs["kw"][step["kw"][0]])))
    if op in ("king", "mking", "pb"):
        ns = objs["ns"][step["ns"]]
        if op == "pb":
            return wrap_result(treesim.uniform_pure_birth_tree(ns, 1.0, rng=rng))
        return wrap_result((treesim.pure_kingman_tree if op == "king" else treesim.mean_kingman_tree)(ns, pop_size=step["pop"], rng=rng))
    if op == "star":
        return wrap_result(treesim.star_tree(objs["ns"][step["ns"]]))
    if op == "cont":
        return wrap_result(treesim.contained_coalescent_tree(objs["sp"], objs["gmap"], rng=rng))
    if op == "ckt":
        g, _ = treesim.constrained_kingman_tree(objs["sp"], rng=rng, gene_sampling_strategy="fixed_per_population", num_genes=step["num_genes"],
                                                gene_node_label_fn=lambda x, y: "%s_%d" % (x, y), decorate_original_tree=False)
        return wrap_result(g)
    raise ValueError(op)


def gen_wrap_hist(rng):
    nss = [[rng.choice(["t", "sp", "T"]), rng.randint(2, 6)] for _ in range(rng.randint(1, 2))]
    kws = []
    for _ in range(rng.randint(1, 2)):
        fn = rng.choice(["bd", "bd", "bd", "king", "mking", "pb", "dbd"])
        if fn == "bd":
            b = Fraction(rng.choice(RATES))
            items = [["birth_rate", str(b)], ["death_rate", str(b * rng.choice([Fraction(0), Fraction(1, 4), Fraction(1, 2)]))],
                     ["num_extant_tips", rng.randint(2, 6)]]
            if rng.random() < 0.4:
                items.append(["taxon_namespace", {"ns": rng.randrange(len(nss))}])
            if rng.random() < 0.3:
                items.append(["is_retain_extinct_tips", True])
        elif fn == "dbd":
            items = [["birth_rate", rng.choice(["1/4", "1/2"])], ["death_rate", "0"], ["ntax", rng.randint(2, 6)]]
        elif fn == "pb":
            items = [["taxon_namespace", {"ns": rng.randrange(len(nss))}], ["birth_rate", rng.choice(RATES)]]
        else:
            items = [["taxon_namespace", {"ns": rng.randrange(len(nss))}], ["pop_size", rng.choice([1, 2, 5])]]
        rng.shuffle(items)
        kws.append({"fn": fn, "class": rng.choice(["dict", "dict", "dict", "odict", "proxy"]), "items": items})
    p = {"ns": nss, "kw": kws, "sp": None, "steps": []}
    if rng.random() < 0.35:
        sp = gen_species(rng, 3, False)
        sp["len"] = [x if (x is not None or i == 0) else "1" for i, x in enumerate(sp["len"])]
        p["sp"] = sp
    bd_maps = [i for i, k in enumerate(kws) if k["fn"] == "bd"]
    for si in range(rng.randint(2, 5)):
        r = rng.random()
        ki = rng.randrange(len(kws))
        if r < 0.6:
            op = rng.choice(["rand_trees", "rand_trees", "coalescence_ages", "birthdeath_coalescence_ages"])
            form = rng.choice(["map", "map", "map", "list", "fn"])
            if (op == "birthdeath_coalescence_ages" or form != "map") and not bd_maps:
                op, form = "rand_trees", "map"
            if op == "birthdeath_coalescence_ages" or form != "map":
                ki = rng.choice(bd_maps)
            if op == "coalescence_ages" and kws[ki]["fn"] in ("dbd",):
                op = "rand_trees"
            step = {"op": op, "fn": kws[ki]["fn"], "form": form, "n": rng.randint(1, 3),
                    "kw": [ki] + ([rng.choice(bd_maps)] if form == "list" and rng.random() < 0.6 else [])}
        elif r < 0.7 and bd_maps:
            step = {"op": "bd", "kw": [rng.choice(bd_maps)]}
        elif r < 0.9 or p["sp"] is None:
            step = {"op": rng.choice(["king", "mking", "pb", "star"]), "ns": rng.randrange(len(nss)), "pop": rng.choice([1, 2, 5])}
        else:
            step = {"op": rng.choice(["cont", "ckt"]), "num_genes": rng.randint(1, 3)}
        # the generator of this call: usually a seeded one of its own; now and then none at all (the wrapper then makes one up)
        # or a scripted one
        g = rng.random()
        if g < 0.12 and step["op"] in ("rand_trees", "coalescence_ages", "birthdeath_coalescence_ages") and si < 3:
            step["rng"] = None
        elif g < 0.25:
            step["rng"] = gen_script(rng)
        else:
            step["rng"] = {"kind": "real", "seed": rng.getrandbits(32)}
        p["steps"].append(step)
    return {"sim": "wrap_hist", "params": p, "rng": {"kind": "real", "seed": 0}}


GROWS_NAMESPACE = ("bd", "dbd")        # documented: missing taxa are created in the namespace handed over


def wrap_run(dendropy, p, problems=None):
    """run the history once on fresh caller-owned objects; returns the results of the seeded calls (None for a call without
    generator).  With `problems` the per-call oracles (b), (c), (d) are evaluated as well."""
    objs = wrap_objects(dendropy, p)
    outs = []
    for si, step in enumerate(p["steps"]):
        tag = "call %d (%s)" % (si + 1, json.dumps(dict((k, v) for k, v in step.items() if k != "rng"), sort_keys=True))
        before = wrap_snapshot(objs)
        if step["rng"] is None:
            with time_limit(30):
                wrap_call(dendropy, objs, step, None, False)
            outs.append(None)
        else:
            with GlobalWatch() as gw:
                with time_limit(30):
                    got = wrap_call(dendropy, objs, step, make_rng(step["rng"]), False)
            outs.append(got)
            if problems is not None:
                if gw.touched():
                    problems.append(("global_rng/wrapper", "%s also used %s" % (tag, " and ".join(gw.touched()))))
                # (b) the simulator itself on equal arguments (copies as they stood before the call), equal generator state
                copies = wrap_objects(dendropy, p, ns_state=before["ns"])
                with time_limit(30):
                    want = wrap_call(dendropy, copies, step, make_rng(step["rng"]), True)
                if got != want:
                    problems.append(("wrapper_stale_state", "%s of the history returned %s; the simulator run directly on equal arguments from "
                                     "an equal generator state returns %s" % (tag, json.dumps(got)[:260], json.dumps(want)[:260])))
        if problems is not None:
            # (c) the caller's own objects: nothing added to / changed in a keyword map, the containing tree untouched, a
            # namespace at most extended by a simulator documented to create missing taxa
            after = wrap_snapshot(objs)
            if after["kw"] != before["kw"]:
                problems.append(("argument_mutated", "%s changed the caller's keyword map(s): %s -> %s" % (tag, json.dumps(before["kw"])[:200], json.dumps(after["kw"])[:200])))
            if after["sp"] != before["sp"]:
                problems.append(("argument_mutated", "%s changed the caller's containing tree" % tag))
            may_grow = step.get("fn") in GROWS_NAMESPACE or step["op"] in ("bd", "birthdeath_coalescence_ages") or step.get("form") == "list"
            for a, b in zip(before["ns"], after["ns"]):
                if (b[:len(a)] != a) or (len(b) != len(a) and not may_grow):
                    problems.append(("argument_mutated", "%s changed the caller's taxon namespace: %s -> %s" % (tag, a[:12], b[:12])))
    return outs


def wrapper_case(ctx, dendropy, case):
    p = case["params"]
    problems = []
    try:
        first = wrap_run(dendropy, p, problems)
        second = wrap_run(dendropy, p)
    except ScriptExhausted:
        ctx.count("script_exhausted")
        return
    except Timeout:
        ctx.fail("hang", "%s did not return within 30 s" % describe(case), case)
        return
    except Exception as e:
        import common
        if not common.is_library_exception(e):
            raise
        ctx.fail("exception", "%s raised %s: %s" % (describe(case), type(e).__name__, str(e)[:200]), case)
        return
    # (a) equal generator states => equal results, call by call.  A call without generator makes one up: nothing is claimed for
    # it, and the calls after it must not depend on it.
    for si, (a, b) in enumerate(zip(first, second)):
        if a is None:
            # the made-up generator may have grown a shared namespace differently in the two runs: from here on the runs are
            # not comparable with one another (each later call is still held against the direct simulator, clause (b))
            break
        if a != b:
            problems.append(("nondeterministic", "call %d of the history: two runs of the whole history on equal arguments from equal generator "
                             "states returned %s vs %s" % (si + 1, json.dumps(a)[:250], json.dumps(b)[:250])))
            break
    ctx.case([case["sim"], p], True, sample={"case": case} if len(json.dumps(case)) < 1800 else None, kind="wrap_hist")
    seen = set()
    for kind, what in problems:
        if kind in seen:
            continue
        seen.add(kind)
        ctx.fail(kind, "%s: %s" % (describe(case), what), case)


def gen_rt(rng):
    """rand_trees(rng, birth_death_tree, <one keyword map>, k) under the scripted generator: compared with the model's `randTrees`"""
    b = Fraction(rng.choice(RATES))
    p = {"b": str(b), "d": str(b * rng.choice([Fraction(0), Fraction(1, 4), Fraction(1, 2)])), "n": rng.randint(1, 6), "k": rng.randint(1, 4),
         "ns": rng.choice([None, None, ["t", rng.randint(0, 7)], ["T", rng.randint(0, 4)], ["sp", rng.randint(0, 8)]]),
         "op": rng.choice(["rand_trees", "rand_trees", "birthdeath_coalescence_ages"])}
    return {"sim": "rt", "params": p, "rng": gen_script(rng, rng.choice([None, None, ["hi"], ["lo", "hi", "hi"]]) if Fraction(p["d"]) else None)}


def rt_case(ctx, dendropy, case, pending):
    from dendropy.simulate import treesim
    p = case["params"]
    runs = []
    for rep in range(2):
        rng = make_rng(case["rng"])
        tns = mk_namespace(dendropy, p["ns"])
        kw = {"birth_rate": float(Fraction(p["b"])), "death_rate": float(Fraction(p["d"])), "num_extant_tips": p["n"]}
        if tns is not None:
            kw["taxon_namespace"] = tns
        try:
            with GlobalWatch() as gw:
                with time_limit(30):
                    trees = list(treesim.rand_trees(rng, treesim.birth_death_tree, kw, p["k"]))
                    ages = None
                    if p["op"] == "birthdeath_coalescence_ages":
                        # the ages wrapper draws the same trees: run it on a second generator in the same state and compare the ages
                        from dendropy.calculate import treemeasure
                        kw2 = dict(kw)
                        if tns is not None:
                            kw2["taxon_namespace"] = mk_namespace(dendropy, p["ns"])
                        ages = (repr(treesim.birthdeath_coalescence_ages(make_rng(case["rng"]), kw2, p["k"])),
                                repr([treemeasure.coalescence_ages(t) for t in trees]))
        except ScriptExhausted:
            ctx.count("script_exhausted")
            return
        except Timeout:
            ctx.fail("hang", "%s did not return within 30 s" % describe(case), case)
            return
        runs.append((trees, rng, gw.touched(), ages))
    trees, rng, touched, ages = runs[0]
    rec = full_case(case, rng)
    problems = []
    if touched or runs[1][2]:
        problems.append(("global_rng/wrapper", "an explicit rng was supplied, yet the call also used: %s" % " and ".join(touched or runs[1][2])))
    c0, c1 = [canon(t, True) for t in trees], [canon(t, True) for t in runs[1][0]]
    if c0 != c1 or rng.log != runs[1][1].log:
        problems.append(("nondeterministic", "two runs from equal generator states differ: %s vs %s" % (str(c0)[:250], str(c1)[:250])))
    if ages is not None and ages[0] != ages[1]:
        problems.append(("wrapper_stale_state", "birthdeath_coalescence_ages returned %s, the trees of rand_trees from an equal generator state have ages %s" % (ages[0][:200], ages[1][:200])))
    if len(trees) != p["k"]:
        problems.append(("tip_count", "%d replicates asked for, %d trees returned" % (p["k"], len(trees))))
    for t in trees:
        o_shape(t, problems)
        o_taxa(t, problems)
        rd = root_dists(t, True)
        if len(rd) != p["n"]:
            problems.append(("tip_count", "num_extant_tips=%d: a replicate has %d leaves" % (p["n"], len(rd))))
        if rd and not all(x == rd[0] for x in rd):
            problems.append(("equidistant", "extant tips of a replicate are at root distances %s" % sorted(set(str(x) for x in rd))[:6]))
    ctx.case([case["sim"], p, case["rng"]], p["k"] >= 2, sample={"case": case}, kind="rt/script")
    seen = set()
    for kind, what in problems:
        if kind not in seen:
            seen.add(kind)
            ctx.fail(kind, "%s: %s" % (describe(case), what), rec)
    if not problems:
        try:
            want = "ok " + " | ".join(model_text(t, (lambda tn: (lambda nd: str(tn.accession_index(nd.taxon))))(t.taxon_namespace)) for t in trees)
            n0 = 0 if p["ns"] is None else p["ns"][1]
            line = " ".join(["rt", str(p["k"]), "0" if p["ns"] is None else "1", str(p["n"]), "-", str(rate_int(p["b"])), str(rate_int(p["d"])), str(n0)] + rng.log)
            pending.append((line, rec, ("RAW", want)))
        except ValueError as e:
            ctx.note("not comparable: %s" % e)


# ------------------------------------------------------------------------------------------------ one case
def describe(case):
    return "%s %s rng=%s" % (case["sim"], json.dumps(case["params"], sort_keys=True), case["rng"]["kind"])


def one_case(ctx, dendropy, case, pending, compare=True):
    sim = case["sim"]
    if sim == "cont_hist":
        return history_case(ctx, dendropy, case, pending)
    if sim == "wrap_hist":
        return wrapper_case(ctx, dendropy, case)
    if sim == "rt":
        return rt_case(ctx, dendropy, case, pending)
    scripted = case["rng"]["kind"] == "script"
    exact = scripted and sim != "mking"      # mean_kingman_tree: lengths are k-th parts, not dyadic, under either generator
    runs = []
    junk = []
    for rep in range(2):
        rng = make_rng(case["rng"])
        if rep == 1:
            # shake the memory layout between the two runs: results must not depend on where objects happen to live
            junk = [object() for _ in range(257 + 64 * (len(json.dumps(case["params"])) % 7))]
        restarts = count_calls(dendropy.Node, "clear_child_nodes")
        try:
            with GlobalWatch() as gw:
                with time_limit(2 if case.get("d_only") else 30):
                    if sim == "rv":
                        res, aux = rv_call(dendropy, case, rng), None
                    else:
                        res, aux = run_sim(dendropy, case, rng)
            touched = gw.touched()
        except ScriptExhausted:
            ctx.count("script_exhausted")
            return None
        except Timeout:
            if case.get("d_only"):
                ctx.count("d_only_timeouts")
                return None
            ctx.fail("hang", "%s did not return within 30 s" % describe(case), case)
            return None
        except Exception as e:
            if sim == "gsa" and isinstance(e, TypeError) and "no parent" in str(e):
                # the General Sampling Approach is outside the property statement; its pruning loop is known to raise when a
                # clade cut away by the slice selection went entirely extinct.  The model predicts exactly when (`raises`).
                runs.append(("RAISES", None, rng, gw.touched()))
                continue
            if case.get("d_only"):
                # evolving rates may leave the admissible domain (negative rates): whatever the code then does, it must do
                # it reproducibly and with the supplied generator only
                res, aux, touched = "EXC " + type(e).__name__, None, gw.touched()
                if rep == 0:
                    ctx.count("evolving_rates_out_of_domain_exception/" + type(e).__name__)
                runs.append((res, aux, rng, touched))
                continue
            if case.get("expect_error") and isinstance(e, (IndexError, ValueError)):
                # inadmissible argument (empty namespace): the code refuses (today by an IndexError on `taxon_namespace[0]`; a
                # deliberate ValueError would do as well; any other exception class is reported); the model must refuse too (`err arg`)
                ctx.case([sim, case["params"], case["rng"]], False, kind=sim + "/inadmissible")
                if rep == 0 and compare and case["rng"]["kind"] == "script":
                    line = " ".join({"pb": ["pb", "0"], "king": ["king", "0", str(case["params"].get("pop", 1))]}[sim] + rng.log)
                    pending.append((line, full_case(case, rng), None))
                return None
            ctx.fail("exception", "%s raised %s: %s" % (describe(case), type(e).__name__, str(e)[:200]), full_case(case, rng))
            return None
        finally:
            n_restarts = restarts.stop()
        runs.append((res, aux, rng, touched))
        if rep == 0 and sim in ("bd", "fbd") and n_restarts:
            ctx.count("runs_with_total_extinction_restart")
            case = dict(case, _restarts=n_restarts)
    res, aux, rng, touched = runs[0]
    rec = full_case(case, rng)
    log = getattr(rng, "log", None)
    nontrivial = False
    problems = []
    # ---- clause (d): no stray generator, equal states -> identical results
    if touched or runs[1][3]:
        problems.append(("global_rng/" + (case["params"]["fn"] if sim == "rv" else sim), "an explicit rng was supplied, yet the call also used: %s" % " and ".join(touched or runs[1][3])))
    if sim == "gsa":
        outs = [r[0] if isinstance(r[0], str) else canon(r[0], exact) for r in runs]
        if outs[0] != outs[1]:
            problems.append(("nondeterministic", "two runs from equal generator states differ: %s vs %s" % (outs[0][:300], outs[1][:300])))
        ctx.case([sim, case["params"], case["rng"]], True,
                 kind=("fgsa/" if case["params"].get("fast") else "gsa/") + case["rng"]["kind"] + ("/raises" if outs[0] == "RAISES" else ""))
        for kind, what in problems:
            ctx.fail(kind, "%s: %s" % (describe(case), what), rec)
        if not isinstance(res, str):
            # the General Sampling Approach promises the same kind of tree (a tree "at a time when it had exactly
            # num_extant_tips leaves"): whenever one is returned it is judged like any other birth-death tree
            o_shape(res, problems)
            o_taxa(res, problems)
            rd = root_dists(res, exact)
            if len(rd) != case["params"]["n"]:
                problems.append(("tip_count", "num_extant_tips=%d with gsa_ntax=%d: tree has %d leaves" % (case["params"]["n"], case["params"]["g"], len(rd))))
            if rd and not all(close(x, rd[0], exact) for x in rd):
                problems.append(("equidistant", "gsa: extant tips are at root distances %s" % sorted(set(str(x) for x in rd))[:6]))
            seen_k = set()
            for kind, what in problems:
                if kind in ("nondeterministic",) or kind.startswith("global_rng") or kind in seen_k:
                    continue
                seen_k.add(kind)
                ctx.fail(kind, "%s: %s" % (describe(case), what), rec)
        if compare and exact and not problems and not case["params"].get("fast"):
            p = case["params"]
            n0 = 0 if p.get("ns") is None else p["ns"][1]
            line = " ".join(["gsa", str(p["n"]), str(p["g"]), str(rate_int(p["b"])), str(rate_int(p["d"])), str(n0)] + log)
            tns = None if isinstance(res, str) else res.taxon_namespace
            want = "raises" if isinstance(res, str) else "ok " + model_text(res, lambda nd: str(tns.accession_index(nd.taxon)))
            pending.append((line, rec, ("RAW", want)))
        return res
    if case.get("d_only"):
        outs = [r[0] if isinstance(r[0], str) else canon(r[0], False) for r in runs]
        if outs[0] != outs[1]:
            problems.append(("nondeterministic", "two runs from equal generator states differ: %s vs %s" % (outs[0][:300], outs[1][:300])))
        elif log is not None and log != runs[1][2].log:
            problems.append(("nondeterministic", "two runs from equal generator states consumed different draws"))
        ctx.case([sim, case["params"], case["rng"]], True, kind=sim + "/" + case.get("d_label", "evolving-rates") + "/" + case["rng"]["kind"])
        for kind, what in problems:
            ctx.fail(kind, "%s: %s" % (describe(case), what), rec)
        if compare and exact and sim == "bd" and not problems and not getattr(rng, "incomparable", False) and not case["params"].get("flags"):
            # rates evolving below zero are modelled too (`wicN`): the code's ZeroDivisionError is the model's `err state`,
            # any tree is compared as usual; other exception classes are left to the double run above
            p = case["params"]
            n0 = 0 if p.get("ns") is None else p["ns"][1]
            line = " ".join(["bd", str(p["n"]), "-", str(rate_int(p["b"])), str(rate_int(p["d"])), str(n0)] + log)
            if isinstance(res, str):
                if res == "EXC ZeroDivisionError":
                    pending.append((line, rec, ("RAW", "err state")))
                    pending.append(("rates " + line, rec, ("RATES", list(rng.rates), "per-rate-unit")))
            else:
                try:
                    tns = res.taxon_namespace
                    pending.append((line, rec, ("RAW", "ok " + model_text(res, lambda nd: str(tns.accession_index(nd.taxon))))))
                    pending.append(("rates " + line, rec, ("RATES", list(rng.rates), "per-rate-unit")))
                except ValueError as e:
                    ctx.note("not comparable: %s" % e)
        return res
    if sim == "rv":
        if repr(runs[0][0]) != repr(runs[1][0]):
            problems.append(("nondeterministic", "two calls from equal generator states returned %r and %r" % (runs[0][0], runs[1][0])))
        if case["params"]["fn"] in ("weighted_index_choice", "weighted_choice"):
            # (sample_multinomial documents that rounding error goes to the last bin, whatever its probability)
            a = case["params"]["args"]
            if not (isinstance(res, int) and 0 <= res < len(a) and a[res] > 0):
                problems.append(("choice", "%s(%r) returned %r: not the index of a positive weight" % (case["params"]["fn"], a, res)))
        nontrivial = True
    else:
        c0, c1 = canon(runs[0][0], exact), canon(runs[1][0], exact)
        if c0 != c1:
            problems.append(("nondeterministic", "two runs from equal generator states returned different trees: %s vs %s" % (c0[:300], c1[:300])))
        elif log is not None and log != runs[1][2].log:
            problems.append(("nondeterministic", "two runs from equal generator states consumed different draws"))
        tree = res
        nl = len(leaves_of(tree.seed_node))
        # ---- clauses (a)-(c)
        o_shape(tree, problems)
        p = case["params"]
        if sim in ("bd", "fbd") and aux == "extinct":
            # repeat_until_success=False: TreeSimTotalExtinctionException is the documented outcome; clause (d) only
            nontrivial = True
            ctx.count("total_extinction_exception_runs")
        elif sim in ("bd", "fbd"):
            lv = leaves_of(tree.seed_node)
            rd = root_dists(tree, exact)
            if p.get("retain"):
                n_dead = len([l for l in lv if is_extinct_leaf(l)])
                live = [x for l, x in zip(lv, rd) if not is_extinct_leaf(l)]
                dead = [x for l, x in zip(lv, rd) if is_extinct_leaf(l)]
            else:
                n_dead, live, dead = 0, rd, []
            n_live = len(live)
            rules = [k for k in ("n", "nx", "nt", "max_time") if p.get(k) is not None]
            if p.get("n") is not None and ((rules == ["n"] and n_live != p["n"]) or n_live > p["n"]):
                problems.append(("tip_count", "num_extant_tips=%d (rules %s): tree has %d extant leaves" % (p["n"], rules, n_live)))
            if p.get("retain") and p.get("nx") is not None and ((rules == ["nx"] and n_dead != p["nx"]) or n_dead > p["nx"]):
                problems.append(("tip_count", "num_extinct_tips=%d (rules %s): tree retains %d extinct leaves" % (p["nx"], rules, n_dead)))
            if p.get("nt") is not None:
                if p.get("retain") and ((rules == ["nt"] and nl != p["nt"]) or nl > p["nt"]):
                    problems.append(("tip_count", "num_total_tips=%d (rules %s): tree has %d leaves" % (p["nt"], rules, nl)))
                if n_live > p["nt"]:
                    problems.append(("tip_count", "num_total_tips=%d: tree has %d extant leaves" % (p["nt"], n_live)))
            o_taxa(tree, problems)
            if live and not all(close(x, live[0], exact) for x in live):
                problems.append(("equidistant", "extant tips are at root distances %s" % sorted(set(str(x) for x in live))[:6]))
            if live and dead and max(dead) > (live[0] if exact else live[0] * (1 + 1e-9) + 1e-12):
                problems.append(("equidistant", "a retained extinct tip lies deeper (%s) than the extant tips (%s)" % (max(dead), live[0])))
            nontrivial = nl >= 4 or bool(case.get("_restarts"))
        elif sim == "dbd":
            nontrivial = nl >= 4     # outside clauses (a)-(c) (generation-wise growth may overshoot): clause (d) only
            problems[:] = [x for x in problems if x[0] in ("nondeterministic", "wellformed") or x[0].startswith("global_rng")]
        elif sim == "pb":
            if nl != max(1, p["ns"][1]):
                problems.append(("tip_count", "namespace of %d taxa, tree has %d leaves" % (p["ns"][1], nl)))
            o_taxa(tree, problems)
            o_equidistant(tree, exact, problems)
            nontrivial = nl >= 4
        elif sim in ("king", "mking"):
            o_taxa(tree, problems)
            if nl != p["ns"][1] or set(id(l.taxon) for l in leaves_of(tree.seed_node)) != set(id(t) for t in tree.taxon_namespace):
                problems.append(("tip_count", "Kingman tree over %d taxa has %d leaves / not one leaf per taxon" % (p["ns"][1], nl)))
            o_equidistant(tree, exact, problems, "leaves")
            nontrivial = nl >= 4
        elif sim in ("cont", "ckt"):
            o_taxa(tree, problems, expect_in_namespace=False)
            want = None
            if sim == "cont":
                want = sum(x for x in p["sp"]["ng"] if x)
            elif p["strategy"] == "random_uniform":
                want = p["num_genes"]
            elif p["strategy"] == "fixed_per_population":
                want = p["num_genes"] * len([i for i in range(len(p["sp"]["par"])) if i not in p["sp"]["par"]])
            else:
                want = sum(x for x in p["sp"]["ng"] if x)
            if nl != want:
                problems.append(("tip_count", "%d genes were to be placed, gene tree has %d leaves" % (want, nl)))
            sp_t, _ = species_tree(dendropy, p["sp"])
            o_contained(tree, sp_t, exact, problems)
            if sp_ultrametric(p["sp"]):
                # all genes are sampled at the tips (time 0) of a containing tree whose tips are equidistant from its root, and a
                # lineage's edges add up to the time it has travelled: the gene tree is ultrametric
                o_equidistant(tree, exact, problems, "gene copies (ultrametric containing tree)")
            nontrivial = nl >= 4
    ctx.case([sim, case["params"], case["rng"]], nontrivial, sample={"case": case} if len(json.dumps(case)) < 1500 else None,
             kind=sim + "/" + case["rng"]["kind"])
    seen = set()
    for kind, what in problems:
        if kind in seen:
            continue
        seen.add(kind)
        ctx.fail(kind, "%s: %s" % (describe(case), what), rec)
    # ---- correspondence with the model (scripted stream only)
    if compare and scripted and sim != "rv" and not problems and not (sim in ("bd", "fbd") and isinstance(aux, str) and aux == "extinct"):
        try:
            ml = model_line(case, log, res, aux)
        except ValueError as e:
            ctx.note("not comparable: %s" % e)
            ml = None
        if ml is not None:
            pending.append((ml[0], rec, ml[1]))
            # intermediate observables: what the simulator handed to rng.expovariate, call by call, against the model's rate trace
            p = case["params"]
            if sim in ("bd", "fbd"):
                pending.append(("rates " + ml[0], rec, ("RATES", list(rng.rates), "per-rate-unit")))
            elif sim == "pb" and p["ns"][1] >= 1:
                pending.append(("rates pb %d %d" % (p["ns"][1], rate_int(p.get("b", "1"))), rec, ("RATES", list(rng.rates), "rate-unit-over")))
            elif sim == "king":
                pending.append(("rates king %d" % p["ns"][1], rec, ("RATES", list(rng.rates), "plain")))
                if p["ns"][1] >= 2:
                    # the coalescent frames read back off the simulated tree (node_waiting_time_pairs / extract_coalescent_frames)
                    from dendropy.model import coalescent
                    try:
                        fr = coalescent.extract_coalescent_frames(res)
                        want = "ok " + " ".join("%d:%s" % (k, scaled(fr[k])) for k in sorted(fr, reverse=True))
                    except ValueError as e:
                        want = None
                        ctx.note("not comparable: %s" % e)
                    except Exception as e:
                        want = "raised %s: %s" % (type(e).__name__, str(e)[:120])
                    if want is not None:
                        pending.append(("frames" + ml[0][4:], rec, ("RAW", want)))
    return res


def full_case(case, rng):
    """the case with the complete tape of decisions actually taken (replays without the fallback generator)"""
    rec = json.loads(json.dumps(case))
    if case["rng"]["kind"] == "script" and isinstance(rng, ScriptRng):
        rec["rng"] = dict(case["rng"], tape=list(rng.picks), seed=None)
    return rec


def rates_agree(answer, logged, degree):
    """the model's exact rates (integers in the rate unit / fractions) against the floats the generator received: a float operation
    on exactly representable operands is correctly rounded, so float(exact value) must be the received number"""
    toks = answer.split()
    if not toks or toks[0] != "ok":
        return False, answer
    vals = []
    for t in toks[1:]:
        a, _, b = t.partition("/")
        if not b:
            f = Fraction(int(a))
            f = f / RS if degree == "per-rate-unit" else f
        else:
            if int(b) == 0:
                return False, answer
            f = Fraction(int(a) * RS, int(b))       # n / (b / RS)
        vals.append(f)
    try:
        same = len(vals) == len(logged) and all(float(v) == float(x) for v, x in zip(vals, logged))
    except (OverflowError, ZeroDivisionError):
        same = False
    return same, " ".join(str(v) for v in vals)


NUM_RX = None


def approx_same(a, b, rel=1e-9):
    """equal up to the numbers, which agree within `rel`"""
    global NUM_RX
    import re
    if NUM_RX is None:
        NUM_RX = re.compile(r"-?\d+(?:\.\d+)?(?:e[-+]?\d+)?")
    if NUM_RX.sub("#", a) != NUM_RX.sub("#", b):
        return False
    xs, ys = NUM_RX.findall(a), NUM_RX.findall(b)
    return len(xs) == len(ys) and all(abs(float(x) - float(y)) <= rel * max(1.0, abs(float(x)), abs(float(y))) for x, y in zip(xs, ys))


def flush(ctx, pending):
    if not pending:
        return
    outs = ctx.ask([p[0] for p in pending])
    for (line, rec, want), m in zip(pending, outs):
        if m is None:
            continue
        ctx.compared()
        if isinstance(want, tuple) and want[0] == "RATES":
            ok, theirs = rates_agree(m.strip(), want[1], want[2])
            if not ok:
                ctx.disagree("rates/" + line.split(" ")[1], {"line": line if len(line) < 3000 else line[:3000] + "...", "case": rec},
                             " ".join(repr(x) for x in want[1])[:600], theirs[:600])
            continue
        if isinstance(want, tuple) and want[0] == "APPROX":
            if not approx_same(m.strip(), want[1]):
                ctx.disagree(line.split(" ", 1)[0], {"line": line, "case": rec}, want[1], m.strip())
            continue
        if isinstance(want, tuple):
            if m.strip() != want[1]:
                ctx.disagree(line.split(" ", 1)[0], {"line": line if len(line) < 3000 else line[:3000] + "...", "case": rec}, want[1], m.strip())
            continue
        if want is None:
            if m.strip() != "err arg":
                ctx.disagree(line.split(" ", 1)[0] + "/refusal", {"line": line, "case": rec}, "raises (inadmissible argument)", m.strip())
            continue
        if m.strip() != "ok " + want:
            ctx.disagree(line.split(" ", 1)[0], {"line": line if len(line) < 3000 else line[:3000] + "...", "case": rec}, want, m.strip())
    del pending[:]


# ------------------------------------------------------------------------------------------------ generators
RATES = ["1", "2", "1/2", "3/2", "3", "3/4", "1/4"]


def gen_script(rng, force=None, **kw):
    spec = {"kind": "script", "seed": rng.getrandbits(32), "tape": []}
    if force:
        spec["force_u"] = force
    spec.update(kw)
    return spec


def gen_rngspec(rng, p_real=0.35, force=None):
    if rng.random() < p_real:
        return {"kind": "real", "seed": rng.getrandbits(32)}
    return gen_script(rng, force)


def gen_ns(rng, n, allow_none=True):
    r = rng.random()
    if allow_none and r < 0.3:
        return None
    style = rng.choice(["t", "T", "mixed", "sp"])
    size = rng.choice([0, 1, max(0, n - 2), n, n, n + 3, rng.randint(0, n + 2)])
    return [style, size]


def gen_bd(rng, max_n, sim="bd"):
    b = Fraction(rng.choice(RATES))
    d = b * rng.choice([Fraction(0), Fraction(1, 4), Fraction(1, 2), Fraction(3, 4), Fraction(7, 8), Fraction(0)])
    p = {"b": str(b), "d": str(d)}
    r = rng.random()
    n = rng.choice([1, 2, 3, rng.randint(2, max_n), rng.randint(2, max_n)])
    if r < 0.78:
        p["n"] = n
    elif r < 0.9:
        p["max_time"] = str(Fraction(rng.randint(1, 8), 4) / max(Fraction(1), b))
    else:
        p["n"] = n
        p["max_time"] = str(Fraction(rng.randint(1, 10), 4) / max(Fraction(1), b))
    p["ns"] = gen_ns(rng, n)
    if sim == "bd":
        p["via"] = rng.choice(["treesim", "birthdeath"])
        if "n" in p and "max_time" not in p and rng.random() < 0.2:
            # continuing a given (ultrametric) tree through `tree=`
            k = rng.randint(1, max(1, min(4, p["n"])))
            p["start"] = gen_start(rng, k)
            p["ns"] = None
        elif rng.random() < 0.3:
            # the other stopping rules and retained extinct tips (outside the statement's quantifier; modelled and proved)
            rr = rng.random()
            if rr < 0.35 and d > 0:
                p.pop("n", None)
                p.pop("max_time", None)
                p["nx"] = rng.randint(1, 4)
            elif rr < 0.6:
                p.pop("n", None)
                p.pop("max_time", None)
                p["nt"] = rng.randint(1, min(12, max_n))
            elif rr < 0.75 and d > 0:
                p["nx"] = rng.randint(1, 4)
            elif rr < 0.85:
                p["nt"] = rng.randint(1, min(12, max_n))
            p["retain"] = rng.random() < 0.7
    if sim == "fbd" and rng.random() < 0.25:
        # the fast variant under the other entry options (judged by the oracle)
        rr = rng.random()
        if rr < 0.4 and "n" in p and "max_time" not in p:
            p["start"] = gen_start(rng, rng.randint(1, max(1, min(4, p["n"]))))
            p["ns"] = None
        elif rr < 0.7 and d > 0:
            p.pop("n", None)
            p.pop("max_time", None)
            p["nx"] = rng.randint(1, 4)
        else:
            p.pop("n", None)
            p.pop("max_time", None)
            p["nt"] = rng.randint(1, min(12, max_n))
    force = None
    if d > 0 and rng.random() < 0.3:
        # force the restart-after-total-extinction path: the single initial lineage dies k times, possibly after a birth
        force = rng.choice([["hi"], ["hi", "hi"], ["lo", "hi", "hi"], ["hi", "lo", "hi", "hi"], ["ulp"], ["lo", "ulp"]])
    elif rng.random() < 0.1:
        force = rng.choice([["ulp"], ["lo", "ulp"], ["lo", "lo", "ulp"], ["zero"]])
    spec = gen_rngspec(rng, 0.3, force)
    if rng.random() < 0.15:
        # entry options that leave the tree as it is: no extinct-attribute bookkeeping; a documented exception instead of the restart
        p["flags"] = rng.choice([{"is_add_extinct_attr": False}, {"repeat_until_success": False},
                                 {"is_add_extinct_attr": False, "repeat_until_success": False}])
        if p.get("retain"):
            p["flags"].pop("is_add_extinct_attr", None)      # the oracle recognises retained extinct tips by that attribute
            if not p["flags"]:
                del p["flags"]
    if sim == "bd" and spec["kind"] == "script" and rng.random() < 0.2:
        # rate evolution (outside the statement's quantifier): only under the scripted generator, whose gauss() never
        # lowers a rate, so that every rate stays admissible
        p["bsd"] = rng.choice(["1/8", "1/4", "0"])
        p["dsd"] = rng.choice(["1/8", "0"])
    return {"sim": sim, "params": p, "rng": spec}


def gen_evolving(rng):
    """rates that evolve along the tree with an sd comparable to / larger than the rate, zero rates included: outside the
    statement's quantifier for clauses (a)-(c) (rates may turn negative), but every such run must still be a function of
    its arguments and the supplied generator's state (clause d)"""
    b = Fraction(rng.choice(RATES))
    d = b * rng.choice([Fraction(0), Fraction(0), Fraction(1, 16), Fraction(1, 4), Fraction(1, 2)])
    bsd = b * rng.choice([Fraction(0), Fraction(0), Fraction(1, 4), Fraction(1, 2), Fraction(1)])
    dsd = (d if d else Fraction(1, 4)) * rng.choice([Fraction(1, 2), Fraction(1), Fraction(2), Fraction(4)])
    if rng.random() < 0.25:
        p = {"b": str(min(b, Fraction(1, 2))), "d": str(min(d, Fraction(1, 4))), "bsd": str(min(bsd, Fraction(1, 2))), "dsd": str(dsd),
             "n": rng.randint(2, 10), "repeat": rng.random() < 0.5}
        return {"sim": "dbd", "params": p, "rng": {"kind": "real", "seed": rng.getrandbits(32)}, "d_only": True}
    p = {"b": str(b), "d": str(d), "bsd": str(bsd), "dsd": str(dsd), "n": rng.randint(2, 9), "ns": gen_ns(rng, 4),
         "via": rng.choice(["treesim", "birthdeath"])}
    if rng.random() < 0.7:
        spec = {"kind": "real", "seed": rng.getrandbits(32)}
    else:
        # no draws at the very ends of [0, 1) here: with weights of both signs a partial sum can equal 0 or 1 exactly, and on such a
        # tie the float loop and exact arithmetic may legitimately differ
        spec = gen_script(rng, gauss_signed=True, limit=4000, special=False)
    return {"sim": "bd", "params": p, "rng": spec, "d_only": True}


def gen_taxon_flags(rng, max_n):
    """is_assign_extant_taxa / is_assign_extinct_taxa switched off (leaves may stay without taxon: outside clauses (a)-(c));
    every such run must still be a function of its arguments and the supplied generator's state (clause d)"""
    case = gen_bd(rng, max_n, rng.choice(["bd", "fbd"]))
    p = case["params"]
    p.pop("bsd", None)
    p.pop("dsd", None)
    p["flags"] = rng.choice([{"is_assign_extant_taxa": False}, {"is_assign_extinct_taxa": False},
                             {"is_assign_extant_taxa": False, "is_assign_extinct_taxa": False}])
    if rng.random() < 0.5 and "start" not in p:
        p["retain"] = True
    case["d_only"] = True
    case["d_label"] = "taxon-flags"
    return case


def gen_gsa(rng, max_n):
    b = Fraction(rng.choice(RATES))
    d = b * rng.choice([Fraction(1, 4), Fraction(1, 2), Fraction(3, 4), Fraction(0), Fraction(7, 8)])
    n = rng.randint(1, min(8, max_n))
    p = {"b": str(b), "d": str(d), "n": n, "g": n + rng.randint(1, 6), "ns": gen_ns(rng, n)}
    if rng.random() < 0.4:
        p["fast"] = True
    return {"sim": "gsa", "params": p, "rng": gen_rngspec(rng, 0.4 if p.get("fast") else 0.25)}


def gen_pb(rng, max_n):
    n = rng.choice([1, 2, 3, rng.randint(1, max_n)])
    return {"sim": "pb", "params": {"ns": [rng.choice(["t", "sp"]), n], "b": rng.choice(RATES)}, "rng": gen_rngspec(rng, 0.3)}


def gen_king(rng, max_n):
    n = rng.choice([1, 2, 3, rng.randint(2, max_n)])
    if rng.random() < 0.25:
        return {"sim": "mking", "params": {"ns": [rng.choice(["t", "sp"]), min(n, 12)], "pop": rng.choice([1, 1, 2, 5, 100, 0])},
                "rng": gen_rngspec(rng, 0.3)}
    pop = rng.choice([1, 1, 2, 5, 100, 0, "1/2", "5/2"])
    return {"sim": "king", "params": {"ns": [rng.choice(["t", "sp"]), n], "pop": pop}, "rng": gen_rngspec(rng, 0.3)}


def gen_species(rng, max_leaves, ultrametric):
    k = rng.randint(1, max_leaves)
    shape = tu.rand_shape(rng, k, p_poly=rng.choice([0.0, 0.0, 0.3]), p_unary=rng.choice([0.0, 0.0, 0.15]))
    par, lens = [], []

    def go(sh, parent):
        i = len(par)
        par.append(parent)
        lens.append(None)
        for c in sh:
            go(c, i)
    go(shape, -1)
    n = len(par)
    for i in range(1, n):
        r = rng.random()
        lens[i] = "0" if r < 0.06 else str(Fraction(rng.randint(1, 12), 4))
    if rng.random() < 0.04 and n > 1:
        lens[rng.randrange(1, n)] = None
    lens[0] = rng.choice([None, "0", "1"])
    pops = [rng.choice([None, None, 1, 2, 3]) for _ in range(n)]
    ng = [0] * n
    for i in range(n):
        if i not in par:
            ng[i] = rng.choice([1, 1, 2, 2, 3, 4])
    return {"par": par, "len": lens, "pop": pops, "ng": ng}


def gen_cont(rng, max_leaves):
    sp = gen_species(rng, max_leaves, False)
    if rng.random() < 0.55:
        return {"sim": "cont", "params": {"sp": sp}, "rng": gen_rngspec(rng, 0.3)}
    strat = rng.choice(["fixed_per_population", "random_uniform", "node_attribute"])
    p = {"sp": sp, "strategy": strat, "decorate": rng.random() < 0.5}
    nleaves = len([i for i in range(len(sp["par"])) if i not in sp["par"]])
    if strat == "fixed_per_population":
        p["num_genes"] = rng.randint(1, 3)
    elif strat == "random_uniform":
        p["num_genes"] = rng.randint(1, 2 * nleaves + 2)
    return {"sim": "ckt", "params": p, "rng": gen_rngspec(rng, 0.3)}


# ------------------------------------------------------------------------------------------------ size sweep
# size-dependent code paths (thresholds such as "32 or more lineages", chunked / deferred bookkeeping, recursion depth) are
# invisible to small instances: every simulator is also run at tip / gene / lineage counts around powers of two and beyond
SIZES = [31, 32, 33, 40, 63, 64, 65, 100, 128, 200, 256]
SWEEP_KINDS = ["cont", "ckt", "cont", "ckt", "bd", "fbd", "king", "pb", "mking", "cont", "dbd", "gsa", "rv", "ckt", "bd", "king"]


def gen_big_species(rng, total):
    """a containing tree of few species with MANY gene copies in which most lineages survive into the ancestral populations:
    short tip branches and / or large populations.  Returns the species spec with `ng` summing to about `total`."""
    k = rng.choice([1, 2, 2, 3, 3, 4])
    shape = tu.rand_shape(rng, k, p_poly=rng.choice([0.0, 0.0, 0.3]), p_unary=rng.choice([0.0, 0.0, 0.2]))
    par, kids_of = [], {}

    def go(sh, parent):
        i = len(par)
        par.append(parent)
        kids_of[i] = [go(c, i) for c in sh]
        return i
    go(shape, -1)
    n = len(par)
    tiny = [Fraction(1, 64), Fraction(1, 32), Fraction(1, 16), Fraction(1, 8), Fraction(1, 4)]
    lens = [None] * n
    if rng.random() < 0.6:
        # ultrametric: node heights; the lowest internal nodes sit just above the tips
        height = [Fraction(0)] * n
        for i in reversed(range(n)):
            if kids_of[i]:
                low = all(not kids_of[c] for c in kids_of[i])
                height[i] = max(height[c] for c in kids_of[i]) + (rng.choice(tiny) if low else Fraction(rng.randint(1, 8), 4))
        for i in range(1, n):
            lens[i] = str(height[par[i]] - height[i])
    else:
        for i in range(1, n):
            lens[i] = str(rng.choice(tiny) if not kids_of[i] else rng.choice(tiny + [Fraction(1, 2), Fraction(1), Fraction(2), Fraction(0)]))
    lens[0] = rng.choice([None, "0", "1"])
    big = rng.random() < 0.5
    pops = [rng.choice([100, 100, 5, 3, None] if big else [None, None, 1, 2, 3, 5, 100]) for _ in range(n)]
    leaves = [i for i in range(n) if not kids_of[i]]
    per = max(1, total // len(leaves))
    ng = [0] * n
    for i in leaves:
        ng[i] = max(1, per + rng.choice([0, 0, 0, 1, -1, 2]))
    return {"par": par, "len": lens, "pop": pops, "ng": ng}


def gen_sweep(rng, kind, max_size):
    """one case of simulator `kind` at a size from SIZES (<= max_size)"""
    size = rng.choice([x for x in SIZES if x <= max_size])
    spec = gen_rngspec(rng, 0.35)
    if kind in ("bd", "fbd"):
        b = Fraction(rng.choice(["1", "2", "1/2", "3"]))
        d = b * rng.choice([Fraction(0), Fraction(0), Fraction(1, 4), Fraction(1, 2)])
        p = {"b": str(b), "d": str(d), "n": size, "ns": rng.choice([None, ["t", size], ["T", size // 2], ["sp", size + 3]])}
        if kind == "bd":
            p["via"] = rng.choice(["treesim", "birthdeath"])
            if rng.random() < 0.25:
                p.pop("n")
                p["nt"] = size
                p["retain"] = True
        return {"sim": kind, "params": p, "rng": spec}
    if kind == "gsa":
        b = Fraction(rng.choice(["1", "2"]))
        n = rng.choice([x for x in SIZES if x <= min(max_size, 65)])
        p = {"b": str(b), "d": str(b * rng.choice([Fraction(0), Fraction(1, 4)])), "n": n, "g": n + rng.randint(1, 4), "ns": None}
        if rng.random() < 0.5:
            p["fast"] = True
        return {"sim": "gsa", "params": p, "rng": spec}
    if kind == "pb":
        return {"sim": "pb", "params": {"ns": [rng.choice(["t", "sp"]), size], "b": rng.choice(RATES)}, "rng": spec}
    if kind == "king":
        return {"sim": "king", "params": {"ns": [rng.choice(["t", "sp"]), size], "pop": rng.choice([1, 2, 5, 100, 0, "1/2"])}, "rng": spec}
    if kind == "mking":
        return {"sim": "mking", "params": {"ns": ["sp", min(size, 128)], "pop": rng.choice([1, 2, 5, 0])}, "rng": spec}
    if kind == "dbd":
        return {"sim": "dbd", "params": {"b": rng.choice(["1/4", "3/8", "1/2"]), "d": rng.choice(["0", "1/8"]), "n": min(size, 128),
                                         "repeat": True}, "rng": spec}
    if kind == "rv":
        k = size
        args = [rng.choice([0.0, 0.5, 1.0, 1.0, 2.0, 0.25]) for _ in range(k)]
        args[rng.randrange(k)] = 1.0
        fn = rng.choice(["weighted_index_choice", "weighted_choice", "star_tree"])
        if fn == "star_tree":
            return {"sim": "rv", "params": {"fn": fn, "args": [size]}, "rng": {"kind": "real", "seed": rng.getrandbits(32)}}
        return {"sim": "rv", "params": {"fn": fn, "args": args},
                "rng": gen_script(rng, [rng.choice(["ulp", "zero", "hi", "lo"])]) if rng.random() < 0.5 else {"kind": "real", "seed": rng.getrandbits(32)}}
    # contained coalescent: lineage counts entering the ancestral populations around the sizes
    sp = gen_big_species(rng, size)
    if kind == "cont":
        return {"sim": "cont", "params": {"sp": sp}, "rng": spec}
    strat = rng.choice(["fixed_per_population", "fixed_per_population", "random_uniform", "node_attribute"])
    p = {"sp": sp, "strategy": strat, "decorate": rng.random() < 0.5}
    nleaves = len([i for i in range(len(sp["par"])) if i not in sp["par"]])
    if strat == "fixed_per_population":
        p["num_genes"] = max(1, size // nleaves)
    elif strat == "random_uniform":
        p["num_genes"] = size
    return {"sim": "ckt", "params": p, "rng": spec}


def size_sweep(ctx, dendropy, pending, count, seconds, max_size=256):
    """`count` cases (at most `seconds`), the simulators taken in turn so that every one is reached in every run"""
    import time as _time
    t_end = _time.time() + seconds
    start = ctx.rng.randrange(len(SWEEP_KINDS))
    for k in range(count):
        if _time.time() > t_end or ctx.out_of_time():
            break
        case = gen_sweep(ctx.rng, SWEEP_KINDS[(start + k) % len(SWEEP_KINDS)], max_size)
        case["sweep"] = True
        one_case(ctx, dendropy, case, pending)
        ctx.count("size_sweep_cases")
        if len(pending) >= 60:
            flush(ctx, pending)
    flush(ctx, pending)


def gen_rv(rng):
    fn = rng.choice(["discrete_time_to_coalescence", "time_to_coalescence", "geometric_rv", "poisson_rv", "binomial_rv",
                     "num_poisson_events", "sample_multinomial", "weighted_index_choice", "weighted_choice", "poisson_rv",
                     "rand_trees", "star_tree"])
    if fn == "discrete_time_to_coalescence":
        args = [rng.randint(3, 12), 1]
    elif fn == "time_to_coalescence":
        args = [rng.randint(2, 12), rng.choice([None, 1, 10])]
    elif fn == "geometric_rv":
        args = [rng.choice([0.5, 0.25, 0.1, 0.01])]
    elif fn == "poisson_rv":
        args = [rng.choice([0.5, 3.0, 20.0, 70.0, 130.0])]
    elif fn == "binomial_rv":
        args = [rng.randint(1, 20), rng.choice([0.25, 0.5, 0.1])]
    elif fn == "num_poisson_events":
        args = [rng.choice([0.5, 1.0, 2.0]), rng.choice([1.0, 3.0])]
    elif fn == "rand_trees":
        args = [rng.randint(2, 6), rng.randint(1, 3), rng.choice(["map", "list"])]
    elif fn == "star_tree":
        args = [rng.randint(0, 9)]
    else:
        k = rng.randint(1, 12)
        args = [rng.choice([0.0, 0.5, 1.0, 1.0, 2.0, 0.25, 3.0]) for _ in range(k)]
        if not any(args):
            args[rng.randrange(k)] = 1.0
        if fn == "sample_multinomial":
            s = sum(args)
            args = [a / s for a in args]
    spec = {"kind": "real", "seed": rng.getrandbits(32)}
    if fn in ("weighted_index_choice", "weighted_choice", "sample_multinomial") and rng.random() < 0.5:
        spec = gen_script(rng, [rng.choice(["ulp", "zero", "hi", "lo"])])
    return {"sim": "rv", "params": {"fn": fn, "args": args}, "rng": spec}


# ------------------------------------------------------------------------------------------------ exhaustive small scope
def enumerate_tapes(ctx, dendropy, base, depth, pending, cap):
    """every decision tape of length <= depth for `base` (decisions beyond the tape are 0 = the first option):
    odometer over the arities observed while running.  Returns the number of tapes; ctx.extra records whether the
    enumeration ran to completion or was cut by the cap / the time budget."""
    tape, count = [], 0
    complete = False
    label = "%s %s depth<=%d" % (base["sim"], json.dumps(base["params"], sort_keys=True)[:60], depth)
    while count < cap and not ctx.out_of_time():
        case = json.loads(json.dumps(base))
        case["rng"] = dict(base["rng"], tape=list(tape), seed=None)
        rng_probe = ScriptRng(case["rng"])
        try:
            with time_limit(30):
                run_sim(dendropy, case, rng_probe)
        except ScriptExhausted:
            pass
        except Exception:
            pass   # reported by one_case below
        one_case(ctx, dendropy, case, pending)
        count += 1
        ar, pk = rng_probe.arity[:depth], rng_probe.picks[:depth]
        j = len(pk) - 1
        while j >= 0 and pk[j] + 1 >= ar[j]:
            j -= 1
        if j < 0:
            complete = True
            break
        tape = pk[:j] + [pk[j] + 1]
        if len(pending) >= 400:
            flush(ctx, pending)
    ctx.extra.setdefault("small_scope_enumerations", []).append("%s: %d tapes, %s" % (label, count, "complete" if complete else "cut"))
    return count


def exhaustive(ctx, dendropy, pending):
    total = 0
    small = {"kind": "script", "seed": None, "tape": [], "ugrid": 4, "wgrid": 2, "special": False, "limit": 400}
    for n in (2, 3):
        for (b, d) in (("1", "1/2"), ("1", "0")):
            base = {"sim": "bd", "params": {"b": b, "d": d, "n": n, "ns": ["t", 1]}, "rng": dict(small)}
            total += enumerate_tapes(ctx, dendropy, base, 4 * n, pending, 6000)
            base = {"sim": "fbd", "params": {"b": b, "d": d, "n": n, "ns": None}, "rng": dict(small)}
            total += enumerate_tapes(ctx, dendropy, base, 4 * n, pending, 6000)
    for n in (2, 3, 4):
        total += enumerate_tapes(ctx, dendropy, {"sim": "pb", "params": {"ns": ["sp", n], "b": "1"}, "rng": dict(small)}, 3 * n, pending, 6000)
        total += enumerate_tapes(ctx, dendropy, {"sim": "king", "params": {"ns": ["sp", n], "pop": 2}, "rng": dict(small)}, 3 * n, pending, 6000)
    sp = {"par": [-1, 0, 0], "len": [None, "1/2", "3/4"], "pop": [None, 2, None], "ng": [0, 2, 2]}
    total += enumerate_tapes(ctx, dendropy, {"sim": "cont", "params": {"sp": sp}, "rng": dict(small)}, 9, pending, 8000)
    sp = {"par": [-1, 0, 1, 1, 0], "len": ["0", "1/4", "1/2", "1/4", "1"], "pop": [None] * 5, "ng": [0, 0, 1, 2, 1]}
    total += enumerate_tapes(ctx, dendropy, {"sim": "cont", "params": {"sp": sp}, "rng": dict(small)}, 9, pending, 8000)
    flush(ctx, pending)
    ctx.extra["exhaustive_small_scope"] = ("%d decision tapes: decision tapes up to a stated depth (see small_scope_enumerations for which "
                                           "ran to completion) for birth_death_tree / fast_birth_death_tree (N=2,3), uniform_pure_birth_tree and "
                                           "pure_kingman_tree (n=2..4), contained_coalescent_tree on two species trees; waiting times in "
                                           "{1/4,1/2}, 4 uniform levels; a bounded enumeration, not a proof" % total)


# ------------------------------------------------------------------------------------------------ fresh interpreter
FRESH = r"""
import sys, json
sys.path.insert(0, %(harness)r)
import common
dendropy = common.import_repo()
from props import c18
out = []
for case in json.load(sys.stdin):
    try:
        tree, aux = c18.run_sim(dendropy, case, c18.make_rng(case["rng"]))
        out.append(c18.canon(tree))
    except Exception as e:
        out.append("EXC " + type(e).__name__)
print(json.dumps(out))
"""


def fresh_interpreter(ctx, dendropy, cases):
    here = os.path.dirname(os.path.dirname(os.path.abspath(__file__)))
    env = dict(os.environ, PYTHONHASHSEED=str(ctx.rng.randint(1, 10 ** 6)), PYTHONDONTWRITEBYTECODE="1")
    try:
        p = subprocess.run([sys.executable, "-c", FRESH % {"harness": here}], input=json.dumps(cases), env=env,
                           stdout=subprocess.PIPE, stderr=subprocess.PIPE, text=True, timeout=300)
        theirs = json.loads(p.stdout.strip().splitlines()[-1])
    except Exception as e:
        ctx.note("fresh interpreter run failed: %s" % e)
        return
    for case, t in zip(cases, theirs):
        try:
            tree, _ = run_sim(dendropy, case, make_rng(case["rng"]))
            mine = canon(tree)
        except Exception as e:
            mine = "EXC " + type(e).__name__
        ctx.count("fresh_interpreter_runs")
        if mine != t:
            ctx.fail("nondeterministic", "%s: a fresh interpreter (other hash seed / memory layout) returned a different tree from the same "
                     "arguments and generator state: %s vs %s" % (describe(case), mine[:200], t[:200]), dict(case, fresh=True))


# ------------------------------------------------------------------------------------------------ entry points
def run(ctx):
    dendropy = __import__("dendropy")
    rng = ctx.rng
    ctx.set_budget(28, 420)
    pending = []
    n_iter = ctx.pick(2400, 150000)
    max_n = ctx.pick(10, 30)
    fresh = []
    # size-dependent code paths: a few large instances of every simulator first
    size_sweep(ctx, dendropy, pending, ctx.pick(64, 900), ctx.pick(12, 150))
    for k in range(n_iter):
        if ctx.out_of_time():
            break
        r = rng.random()
        if r < 0.36:
            case = gen_bd(rng, max_n, "bd")
        elif r < 0.48:
            case = gen_bd(rng, max_n, "fbd")
        elif r < 0.56:
            case = gen_pb(rng, max_n)
        elif r < 0.68:
            case = gen_king(rng, max_n)
        elif r < 0.88:
            case = gen_cont(rng, ctx.pick(5, 8))
        elif r < 0.90:
            case = {"sim": "dbd", "params": {"b": rng.choice(["1/4", "3/8", "1/2"]), "d": rng.choice(["0", "1/8", "1/4"]),
                                             "n": rng.randint(2, 12), "repeat": rng.random() < 0.5},
                    "rng": gen_rngspec(rng, 0.4)}
            if rng.random() < 0.4:
                # the generation limit (`max_time`), alone or together with the tip count
                case["params"]["mg"] = rng.randint(1, 6)
                if rng.random() < 0.4:
                    case["params"]["n"] = None
        else:
            case = gen_rv(rng)
        if rng.random() < 0.10:
            case = gen_evolving(rng)
        if rng.random() < 0.03:
            case = gen_taxon_flags(rng, max_n)
        if rng.random() < 0.05:
            case = gen_hist(rng)
        if rng.random() < 0.06:
            case = gen_wrap_hist(rng) if rng.random() < 0.65 else gen_rt(rng)
        if rng.random() < 0.07:
            case = gen_gsa(rng, max_n)
        if rng.random() < 0.004:
            # the refusal stream: an empty namespace
            sim0 = rng.choice(["pb", "king"])
            case = {"sim": sim0, "params": {"ns": ["sp", 0], "b": "1", "pop": 1}, "rng": gen_script(rng), "expect_error": True}
        one_case(ctx, dendropy, case, pending)
        if case["sim"] not in ("rv", "cont_hist", "gsa", "wrap_hist", "rt") and not case.get("expect_error") and len(fresh) < ctx.pick(16, 60) and rng.random() < 0.2:
            fresh.append(case)
        if len(pending) >= 300:
            flush(ctx, pending)
    flush(ctx, pending)
    fresh_interpreter(ctx, dendropy, fresh)
    if ctx.tier == "thorough":
        ctx.set_budget(28, 800)
        exhaustive(ctx, dendropy, pending)


def search(ctx, broken):
    """a regenerated kernel left the supported subset, a bridge theorem no longer holds, or model and code disagree (rates, frames,
    trees): look for a concrete failing input on the real code in the affected mechanisms - every simulator over small tip counts
    with rates at the edge of the admissible domain (death just below birth, very small / large rates: a wrong rate formula then
    hands expovariate a zero or negative rate), under the scripted and the genuine generator; the oracle judges every run"""
    dendropy = __import__("dendropy")
    rng = ctx.rng
    elapsed = 0 if ctx.budget_s is None else max(0.0, ctx.budget_s - ctx.time_left())
    ctx.budget_s = elapsed + ctx.pick(25, 240)
    pending = []
    cases = []

    def spec(kind):
        return {"kind": "real", "seed": rng.getrandbits(32)} if kind == "real" else gen_script(rng)
    for n in range(1, 9):
        for kind in ("real", "script"):
            for (b, d) in (("1", "63/64"), ("1", "7/8"), ("1/4", "0"), ("3", "3/2"), ("1/64", "0"), ("64", "32")):
                cases.append({"sim": "bd", "params": {"b": b, "d": d, "n": n, "ns": None, "via": "birthdeath"}, "rng": spec(kind)})
                cases.append({"sim": "fbd", "params": {"b": b, "d": d, "n": n, "ns": None}, "rng": spec(kind)})
                # (a time limit in units of the expected time between births, so that the expected tree size stays small)
                cases.append({"sim": "bd", "params": {"b": b, "d": d, "max_time": str(Fraction(3, 2) / Fraction(b)), "ns": None, "via": "treesim"},
                              "rng": spec(kind)})
            for b in RATES + ["1/64", "64"]:
                cases.append({"sim": "pb", "params": {"ns": ["sp", n], "b": b}, "rng": spec(kind)})
            for pop in (0, 1, 2, 100, "1/2"):
                cases.append({"sim": "king", "params": {"ns": ["sp", n], "pop": pop}, "rng": spec(kind)})
                if isinstance(pop, int):
                    cases.append({"sim": "mking", "params": {"ns": ["sp", n], "pop": pop}, "rng": spec(kind)})
            cases.append({"sim": "dbd", "params": {"b": "1/4", "d": "1/8", "n": n + 1, "repeat": True, "mg": n}, "rng": spec(kind)})
            cases.append(gen_cont(rng, 4))
    for case in cases:
        if ctx.out_of_time() or ctx.failures:
            break
        one_case(ctx, dendropy, case, pending)
        ctx.count("search_cases")
    flush(ctx, pending)
    for _ in range(ctx.pick(150, 1500)):
        if ctx.out_of_time() or ctx.failures:
            break
        one_case(ctx, dendropy, gen_wrap_hist(rng), pending)
    if not ctx.failures:
        size_sweep(ctx, dendropy, pending, ctx.pick(64, 600), ctx.pick(12, 120))


def replay(ctx, rec):
    dendropy = __import__("dendropy")
    case = rec["replay"]
    pending = []
    if case.get("fresh"):
        c = dict(case)
        c.pop("fresh")
        fresh_interpreter(ctx, dendropy, [c])
        return
    one_case(ctx, dendropy, case, pending)
    flush(ctx, pending)
