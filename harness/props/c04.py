"""C04 - tree-to-tree distances equal their split-set definitions and are true metrics.

Every op is `generate a self-contained case (harness code)` -> `judge(case)` (library calls + independent oracle);
`replay` is `judge` on the recorded case, so every failure kind reproduces with `./check C04 --replay <file>`.
Exceptions: only an exception raised by a library frame can become a failure; a harness exception ends as exit 2."""
import math
from fractions import Fraction

import common
import treeutil as tu
from props import c01

ID = "C04"
GEN_DEPENDS = ["PyBits", "C04Kernels"]
RULE = ("pairs and triples of random trees (1-10 leaves quick, 25 thorough) over one namespace (extra members, holes), one rooting "
        "state per case (rooted / unrooted / unset), dyadic / None / zero edge lengths, unary nodes and polytomies; re-drawn copies "
        "(children shuffled, unifurcations inserted with the length split, unrooted trees re-seeded through an independent graph "
        "re-rooting); histories of structural edits (taxon swaps, length changes, leaf regrafts, on either tree) interleaved with "
        "calls of all five public functions with default arguments and with is_bipartitions_updated=True; between calls on the same "
        "(already encoded) tree objects also CHANGES OF THE ROOTING STATE of both trees, to rooted / unrooted / unset, through every way "
        "the API offers (is_rooted and is_unrooted setters, deroot(), reroot_at_node / reroot_at_edge / reroot_at_midpoint, "
        "to_outgroup_position followed by a setter; distribution in the evidence) and explicit encode_bipartitions() with non-default "
        "flags, every default call judged from scratch for the CURRENT flag and structure; trees over a second, "
        "equal-looking namespace object; namespace histories (members - mostly not the newest - removed with remove_taxon / "
        "remove_taxon_label / del, then new ones added with new_taxon / require_taxon / add_taxon / by reading Newick) before two "
        "trees are built over the result, judged on leaf-label sets; every pair also through the aliases, the deprecated Tree methods, "
        "edge_weight_attr naming another edge attribute (lengths moved there, `length` left with the complementary None pattern) and "
        "value_type=Fraction; per pair the library's per-split (length1, length2) dictionary (_get_length_diffs(..., "
        "bipartition_length_diff_map=True)) is compared with the model's, and the returned Euclidean float with the model's 60-bit "
        "fixed-point bracket of the real square root. Non-trivial = the two trees differ in at least one split")
MODELLED_NOT_VERIFIED = [
    "C04: the Lean model (Model/C04.lean on top of C01.encode) is hand-written from false_positives_and_negatives / _get_length_diffs; its "
    "closed-form kernels (set-difference orientation, symmetric_difference arithmetic, find_missing_bipartitions filter, the two dist_fn "
    "lambdas, the 32+4-row decision tables of the two loops of _get_length_diffs, the re-encoding protocol, the namespace check, the "
    "delegating aliases) are regenerated from the source on every run (Gen/C04Kernels.lean) and proved equal to the model's (gen_* "
    "theorems); what stays hand-written: the iteration structure around those kernels (dict insertion order, later-edge-wins in "
    "bipartition_edge_map, pop of shared keys) - proved irrelevant for duplicate-free split lists (edgeMap_of_nodup, "
    "dist_order_irrelevant, lengthDiffsK_spec), so only WHICH edge records enter the dictionaries rests on the comparison -, tied by comparing fp, fn, wRF, Euclid^2, the root bracket, the per-split dictionary and "
    "the missing-bipartition set per generated pair",
    "C04: math.sqrt is modelled by its exact fixed-point floor (Model/C04Root.lean rootFix; rootFix_bracket / euclid_bracket: the printed "
    "integer brackets the real root) and the metric theorems are stated on the real root (euclid_*); binary64 rounding is not modelled "
    "(exact comparison on dyadic lengths only; the root is compared up to relative 2^-44), TreeShapeKernel classes",
    "C04: Model/C04State.lean (tree objects with a stored encoding, the is_bipartitions_updated switch, namespace identity) is hand-written "
    "(its prepare / refusal decisions are bridged to the generated prep_* / nsRefuses_* tables); tied by comparing the unweighted functions "
    "in every history step (default and is_bipartitions_updated=True calls, stale answers included) and the namespace refusal; the weighted "
    "functions with is_bipartitions_updated=True (lazily built split->edge map) are not modelled",
]
EXPLANATION = ("Theorems about the definitions the driver runs. Definitions: fp/fn/RF are the cardinalities of the one-sided and symmetric "
               "differences of the split sets; wRF / Euclid^2 are the L1 / squared L2 norm of the split->length functions, and "
               "lenAt_eq_split_sum(_rooted): that function is the total length of the edges of the tree AS DRAWN inducing the split "
               "(unifurcation suppression adds lengths; rooted: rooted_splits_nodup shows no edge is lost). lengthDiffsK_spec: the "
               "per-split dictionary of _get_length_diffs has one entry per split of either tree, (length in tree 1, length in tree 2). "
               "Metric: symmetric (value and definedness), zero on equal inputs and only between equal split->length functions, "
               "triangle. The square root: Aux.euclid is the real square root of the exact sum of squares (gen_euclid: the source puts "
               "math.sqrt around that sum); euclid_eq_l2, euclid_symm, euclid_zero_iff / euclid_self, euclid_root_triangle (Minkowski), "
               "euclid_congr, euclid_redraw_rooted / euclid_redraw_unrooted state the metric and representation clauses on the distance "
               "itself; rootFix_bracket / euclid_bracket: the integer the driver prints is the floor of 2^60 times that root (isqrt proved "
               "correct), which is what the library's float is compared with. Representation, "
               "unweighted: rf_zero_iff_topology (rooted) and rf_zero_iff_unrooted_topology (not rooted, >= 3 taxa, any seed position / "
               "child order / bifurcating seed): RF = 0 iff same topology; fpfn_redraw_rooted / fpfn_redraw_unrooted: a re-drawing changes "
               "no unweighted distance against a third tree. Representation, weighted: dist_child_order_rooted, dist_redraw_rooted "
               "(children reordered + unifurcations inserted with the length split, ROOTED trees; values when both defined). Not rooted: "
               "unrooted_splits_nodup (seed with >= 3 children after encoding, basal collapse included: no two edges share a split), "
               "lenAt_eq_usum (the driver's split->length function is the per-split table of the tree as drawn), dist_redraw_unrooted "
               "(any sequence of child reorderings, unifurcation insertions and seed moves - URedraw - changes no weighted value; end "
               "drawings: seed not bifurcating as drawn, >= 3 children after suppression), dist_child_order_unrooted, dist_seed_move; "
               "reseed_one_edge_is_invertT ties the seed-move step to C07's model of reseed_at (one edge; deeper targets = iteration, "
               "not restated). The collapse case is closed: collapse_inv (collapse_basal_bifurcation keeps the per-split table and the "
               "split set of the drawing: the dissolved edge and the one absorbing its length induce the same split), "
               "lenAt_eq_usum_any_seed, dist_redraw_unrooted_any_seed / euclid_redraw_unrooted_any_seed: ANY two drawings related by "
               "URedraw, bifurcating seeds as drawn included, provided the seed has >= 3 children after encoding (the complement is "
               "exactly the known finding basal-bifurcation-survives-encoding, where the claim is false of the code). "
               "dist_child_order_partial / dist_seed_move_partial are kept, superseded. "
               "fpfn_seed_path / rf_zero_seed_move_partial speak about paths between the ENCODED forms and are superseded by "
               "rf_zero_iff_unrooted_topology. Tie A (gen_rf, gen_fpfn, gen_missing, gen_wrf, gen_euclid, gen_entry, gen_pass2, "
               "gen_prepare, gen_namespace, gen_aliases): the kernels regenerated from treecompare.py / _tree.py on every run are the "
               "model's; a semantic edit of the source breaks one of them, a harmless rewrite (a - b for a.difference(b), x*x for pow(x,2), "
               "nested ifs for `and`, a symmetric alias with its trees swapped) does not. Iteration structure: edgeMap_of_nodup (without duplicate splits later-edge-wins never fires: the dictionary is the keyed edge "
               "list), dist_order_irrelevant (any permutation of a duplicate-free edge list gives the same wRF / Euclid^2 in both argument "
               "positions, definedness included), fpfn_order_irrelevant; lengthDiffsK_spec covers the two passes (pop = the second pass "
               "sees exactly the splits the first tree lacks). defined_of_no_missing_length: trees without a length-less non-seed edge are never refused, and a refusal exhibits a shared "
               "split with such an edge (the clause the oracle judges refusals by). updated_call_on_current_encoding: the flagged unweighted call equals the "
               "default one when the stored encodings are current; gen_prepare_weighted: the weighted functions follow the same "
               "re-encoding protocol as the unweighted ones (why a flagged weighted call is replayed as F1 for its state effect). "
               "Histories (Model/C04State.lean, with rooting-change events rootA / rootB: flag and drawing change, the encoding stored under the old flag stays; the driver's "
               "`hist` and `sdist` ops execute run / step / "
               "weightedCall / fpfnCall / missingCall on every generated history and the harness compares every answer): "
               "history_default_call_is_fresh, default_call_ignores_stored_encoding, updated_call_uses_stored_encoding, namespace_refusal "
               "are bookkeeping over that model (true by construction of `step`); that the library behaves like the model rests on the "
               "correspondence and the oracle, not on a proof.")

ROOT = c01.ROOT
UNROOT = {"R": True, "U": False, "N": None}
FUNCS = ("symmetric_difference", "false_positives_and_negatives", "weighted_robinson_foulds_distance", "euclidean_distance",
         "find_missing_bipartitions")


# ------------------------------------------------------------------ independent oracle
def split_table(tree):
    """from scratch: ({split: total length of the edges inducing it (None = 0)}, {split: set of leafsets of those edges})"""
    masks = tu.leafset_masks(tree)
    L = masks[id(tree.seed_node)]
    low = L & -L
    rooted = bool(tree.is_rooted)
    lens, clades = {}, {}
    for nd in tu.walk(tree.seed_node):
        m = masks[id(nd)]
        s = m if rooted else ((L & ~m) if (m & low) else m)
        lens[s] = lens.get(s, Fraction(0)) + tu.F(nd.edge.length)
        clades.setdefault(s, set()).add(m)
    return lens, clades


def split_lengths(tree):
    return split_table(tree)[0]


def has_missing_length(tree):
    """some edge other than the seed's has no length: the only thing that can justify a refusal"""
    return any(nd.edge.length is None for nd in tu.walk(tree.seed_node) if nd is not tree.seed_node)


def o_rf(d1, d2):
    return len(set(d2) - set(d1)), len(set(d1) - set(d2))


def o_wrf(d1, d2):
    return sum((abs(d1.get(s, 0) - d2.get(s, 0)) for s in set(d1) | set(d2)), Fraction(0))


def o_euclid_sq(d1, d2):
    return sum(((d1.get(s, 0) - d2.get(s, 0)) ** 2 for s in set(d1) | set(d2)), Fraction(0))


def basal_survives(t):
    """decided on the drawing alone (no library call): a tree that is not rooted whose seed, once unifurcations are suppressed, is
    bifurcating, and which `collapse_basal_bifurcation` as documented does not open up (it acts only on a seed that has exactly
    two children as drawn, one of them with >= 2 children).  Its two basal edges induce one and the same split."""
    if t.is_rooted:
        return False
    kids = t.seed_node._child_nodes
    if len(kids) == 2 and (len(kids[1]._child_nodes) >= 2 or len(kids[0]._child_nodes) >= 2):
        return False
    nd = t.seed_node
    while len(nd._child_nodes) == 1:
        nd = nd._child_nodes[0]
    return len(nd._child_nodes) == 2


def close(x, y):
    return abs(x - y) <= 1e-9 * max(1.0, abs(x), abs(y))


# ------------------------------------------------------------------ generators (harness side; nothing here is judged)
def gen_ns(dendropy, rng, n):
    extra = rng.randint(0, 2)
    nholes = 1 if rng.random() < 0.2 else 0
    total = n + extra + nholes
    holes = [rng.randrange(total)] if nholes else []
    return tu.make_namespace(dendropy, 0, labels=["t%d" % i for i in range(total)], holes=holes)


def gen_on(dendropy, rng, tns, taxa, rooted, none_rate):
    taxa = list(taxa)
    rng.shuffle(taxa)
    shape = tu.rand_shape(rng, len(taxa), p_poly=rng.choice([0.0, 0.2, 0.5]), p_unary=rng.choice([0.0, 0.1]))
    lens = (lambda: tu.dyadic(rng, none_rate=none_rate, zero_rate=0.08))
    return tu.build_tree(dendropy, shape, tns, taxa, lens, rooted)


def gen_size(ctx, lo=3):
    rng = ctx.rng
    r = rng.random()
    if r < 0.03:
        return 1
    if r < 0.07:
        return 2
    return rng.randint(lo, ctx.pick(10, 25))


def same_rooting_state(rng, rooted):
    """the statement quantifies over pairs in ONE rooting state; `None` (unset) and `False` both mean unrooted"""
    if rooted is True or rng.random() < 0.8:
        return rooted
    return False if rooted is None else None


def perturb(dendropy, rng, tree):
    """a tree over the same leaves that shares most splits: clone through tokens, then swap two leaf taxa, change lengths"""
    t2 = clone(dendropy, tree)
    leaves = [nd for nd in tu.walk(t2.seed_node) if not nd._child_nodes]
    if len(leaves) >= 2:
        a, b = rng.sample(leaves, 2)
        a.taxon, b.taxon = b.taxon, a.taxon
    for nd in tu.walk(t2.seed_node):
        if rng.random() < 0.3 and nd.edge.length is not None:
            nd.edge.length = tu.dyadic(rng)
    return t2


def redraw_lengths(dendropy, rng, tree):
    """same (un)rooted tree with the same edge lengths, drawn differently, built from the adjacency graph:
    children shuffled; a unifurcation inserted on some edges with the length split in two dyadic parts;
    unrooted: seeded at another internal vertex"""
    adj, bit = c01.graph(tree)
    nodes = {id(nd): nd for nd in tu.walk(tree.seed_node)}
    tns = tree.taxon_namespace
    by_bit = {tns.accession_index(t): t for t in tns}
    unrooted = not tree.is_rooted

    def elen(a, b):
        # length of the undirected edge {a,b} = length stored on the child end
        na, nb = nodes[a], nodes[b]
        child = na if na._parent_node is nb else nb
        return child.edge.length
    root = id(tree.seed_node)
    root_len = tree.seed_node.edge.length
    if unrooted and len(adj) > 2 and len(adj[root]) >= 2:   # a unifurcating seed would become a taxon-less leaf: keep it
        internal = [v for v in adj if v not in bit and len(adj[v]) >= 2]
        if internal:
            root = rng.choice(internal)

    def go(v, parent):
        nd = dendropy.Node()
        if v in bit:
            nd.taxon = by_bit[bit[v]]
        kids = [w for w in adj[v] if w != parent]
        rng.shuffle(kids)
        for w in kids:
            c = go(w, v)
            l = elen(v, w)
            if rng.random() < 0.15:
                u = dendropy.Node()
                u.add_child(c)
                if l is None:
                    c.edge.length = None
                    u.edge.length = None
                else:
                    c.edge.length = l / 2.0
                    u.edge.length = l / 2.0
                c = u
            else:
                c.edge.length = l
            nd.add_child(c)
        return nd
    seed = go(root, None)
    if root == id(tree.seed_node):
        seed.edge.length = root_len
    t = dendropy.Tree(taxon_namespace=tns, seed_node=seed)
    t.is_rooted = tree.is_rooted
    return t, root != id(tree.seed_node)


def clone(dendropy, tree):
    toks, _ = tu.encode_tree(tree, with_labels=False)
    t2, _ = tu.tree_from_tokens(dendropy, toks, rooted=tree.is_rooted, tns=tree.taxon_namespace)
    return t2


# ------------------------------------------------------------------ cases
def case_of(op, trees, **extra):
    """self-contained, JSON-able description: trees as protocol tokens over one recorded namespace"""
    c = {"op": op, "ns": c01.namespace_desc(trees[0].taxon_namespace)}
    for i, t in enumerate(trees):
        suf = "" if i == 0 else str(i + 1)
        c["tree" + suf] = tu.encode_tree(t, with_labels=False)[0]
        c["rooted" + suf] = ROOT[t.is_rooted]
    c["basal_bifurcation_survives"] = any(basal_survives(t) for t in trees)
    c.update(extra)
    return c


class NamespaceBits(Exception):
    """the namespace does not give its members the pairwise distinct bits a case needs: no distance over it can satisfy the statement"""


def check_namespace_bits(tns, want=None):
    """from scratch, through the public accessors only: every member has an accession index and the bitmask 1 << index, no two
    members share one, and (when the case prescribes bits: {label: bit}) they are the prescribed ones"""
    seen = {}
    for t in tns:
        i = tns.accession_index(t)
        m = tns.taxon_bitmask(t)
        if m != (1 << i):
            raise NamespaceBits("taxon %r has accession index %d but bitmask %d" % (t.label, i, m))
        if i in seen:
            raise NamespaceBits("taxa %r and %r of one namespace share accession index %d (leaf bitmask %d)" % (seen[i], t.label, i, m))
        seen[i] = t.label
        if want is not None and want.get(t.label) != i:
            raise NamespaceBits("taxon %r should carry bit %s (it was accession number %s of its namespace) but has %d" % (
                t.label, want.get(t.label), want.get(t.label), i))


def namespace_for_case(dendropy, ns):
    """a namespace whose members carry exactly the recorded bits, built through the public API (all labels in accession order, then the
    non-members removed) and verified from scratch"""
    bits = list(ns["bits"])
    total = max([int(ns.get("count", 0))] + [b + 1 for b in bits])
    tns = dendropy.TaxonNamespace(["t%d" % i for i in range(total)])
    keep = set(bits)
    for i, t in enumerate(list(tns)):
        if i not in keep:
            tns.remove_taxon(t)
    check_namespace_bits(tns, want={"t%d" % b: b for b in bits})
    if sorted(t.label for t in tns) != sorted("t%d" % b for b in bits):
        raise NamespaceBits("members %s, wanted bits %s" % ([t.label for t in tns], bits))
    return tns


def trees_of_case(dendropy, c, tns=None):
    tns = tns or namespace_for_case(dendropy, c["ns"])
    out = []
    for suf in ("", "2", "3"):
        if ("tree" + suf) in c:
            t, _ = tu.tree_from_tokens(dendropy, c["tree" + suf], rooted=UNROOT[c.get("rooted" + suf, c["rooted"])], tns=tns)
            out.append(t)
    return out


# ------------------------------------------------------------------ calling the library
class LibraryCrash(Exception):
    """the library failed with an exception it did not raise on purpose (no `raise` statement at the point of failure): never a
    refusal, always a failure of the case being judged"""


def deliberate(exc):
    """a refusal is an exception that library code RAISES: the innermost frame is library code and the statement executing there
    is a `raise`.  (A TypeError / AttributeError / ... escaping from an expression deep inside is a crash, whatever its type;
    a deliberate `raise` of any exception class is a refusal, whatever its type.)"""
    import linecache
    tb = exc.__traceback__
    while tb.tb_next is not None:
        tb = tb.tb_next
    line = linecache.getline(tb.tb_frame.f_code.co_filename, tb.tb_lineno).strip()
    return line.startswith("raise ") or line == "raise"


def call(fn, *a, **kw):
    """("v", value), or ("E", "<Type>: text") when library code deliberately raised; LibraryCrash when it crashed; an exception
    raised by harness code propagates unchanged"""
    try:
        return "v", fn(*a, **kw)
    except Exception as e:
        if not common.is_library_exception(e):
            raise
        text = "%s: %s" % (type(e).__name__, str(e)[:120])
        if not deliberate(e):
            raise LibraryCrash("%s crashed with %s" % (getattr(fn, "__name__", "call"), text))
        return "E", text


def measure(ctx, dendropy, t1, t2, case):
    """all five public distances on FRESH clones (the calls re-encode and so mutate their arguments).  The unweighted ones must
    return (an exception is a failure); the weighted ones may refuse: value or "E"."""
    from dendropy.calculate import treecompare
    out = {}

    def need(name, *a, **kw):
        st, v = call(getattr(treecompare, name), *a, **kw)
        if st == "E":
            ctx.fail("exception", "%s raised %s on trees over one namespace" % (name, v), dict(case, fn=name))
            return None
        return v
    out["fpfn"] = need("false_positives_and_negatives", clone(dendropy, t1), clone(dendropy, t2))
    out["rf"] = need("symmetric_difference", clone(dendropy, t1), clone(dendropy, t2))
    for key, name in (("wrf", "weighted_robinson_foulds_distance"), ("euclid", "euclidean_distance")):
        st, v = call(getattr(treecompare, name), clone(dendropy, t1), clone(dendropy, t2))
        out[key] = "E" if st == "E" else v
        if st == "E":
            out[key + "_err"] = v
    bps = need("find_missing_bipartitions", clone(dendropy, t1), clone(dendropy, t2))
    out["missing"] = None if bps is None else sorted(set(bp.split_bitmask for bp in bps))
    out["missing_pairs"] = None if bps is None else sorted(set((bp.split_bitmask, bp.leafset_bitmask) for bp in bps))
    if out["fpfn"] is not None:
        out["fpfn"] = tuple(out["fpfn"])
    return out


ROOT_BITS = 60      # Model/C04Root.lean: rootBits


def length_diff_map(dendropy, t1, t2):
    """the library's own intermediate result: the per-bipartition (length1, length2) dictionary of
    `treecompare._get_length_diffs(..., bipartition_length_diff_map=True)` as {split: (Fraction, Fraction)}, "E" when it refuses,
    None when that private helper is not there or has another shape (then nothing is compared: it is not part of the statement)"""
    import inspect
    from dendropy.calculate import treecompare
    fn = getattr(treecompare, "_get_length_diffs", None)
    try:
        if fn is None or "bipartition_length_diff_map" not in inspect.signature(fn).parameters:
            return None
    except (TypeError, ValueError):
        return None
    st, v = call(fn, clone(dendropy, t1), clone(dendropy, t2), bipartition_length_diff_map=True)
    if st == "E":
        return "E"
    if not (isinstance(v, tuple) and len(v) == 2 and isinstance(v[1], dict)):
        return None
    out = {}
    for bp, pair in v[1].items():
        if not (isinstance(pair, tuple) and len(pair) == 2 and hasattr(bp, "split_bitmask")):
            return None
        out[bp.split_bitmask] = (Fraction(pair[0]), Fraction(pair[1]))
    return out


def root_in_bracket(x, s):
    """the float the library returned lies in the model's fixed-point bracket [s, s+1] / 2^ROOT_BITS of the real square root,
    up to a few binary64 roundings (relative 2^-44)"""
    X = Fraction(x)
    tol = abs(X) / (1 << 44)
    return Fraction(s, 1 << ROOT_BITS) - tol <= X <= Fraction(s + 1, 1 << ROOT_BITS) + tol


def check_refusal(ctx, m, t1, t2, case):
    """a refusal needs a missing length somewhere.  (Whether wRF and Euclid refuse the SAME pairs is not in the statement - it only
    asks each function to be symmetric in whether it is defined - so it is left to the model correspondence.)"""
    for k in ("wrf", "euclid"):
        if m[k] == "E" and not (has_missing_length(t1) or has_missing_length(t2)):
            ctx.fail("definedness", "%s refused (%s) although no edge below the seeds lacks a length" % (k, m.get(k + "_err")), case)


def judge_pair(ctx, dendropy, t1, t2, case, pending, label="dist", extras=True, context=""):
    """the definition clauses on one ORDERED pair (+ one correspondence line for the model)"""
    (d1, c1), (d2, _) = split_table(t1), split_table(t2)
    m = measure(ctx, dendropy, t1, t2, case)
    fp, fn = o_rf(d1, d2)
    ctx.case([label, case["tree"], case.get("tree2"), case["rooted"], case.get("rooted2")], fp + fn > 0, sample=case, kind=label)
    unw_kind = "representation" if label == "redraw" else "definition"
    if m["fpfn"] is not None and m["fpfn"] != (fp, fn):
        ctx.fail(unw_kind, "%sfalse_positives_and_negatives = %s, one-sided split differences are (%d, %d)" % (context, m["fpfn"], fp, fn), case)
    if m["rf"] is not None and m["rf"] != fp + fn:
        ctx.fail(unw_kind, "%ssymmetric_difference = %s, splits in exactly one tree: %d" % (context, m["rf"], fp + fn), case)
    if m["missing"] is not None:
        if m["missing"] != sorted(set(d1) - set(d2)):
            ctx.fail(unw_kind, "%sfind_missing_bipartitions = %s, reference-only splits are %s" % (context, m["missing"], sorted(set(d1) - set(d2))), case)
        else:
            bad = [(s, lf) for (s, lf) in m["missing_pairs"] if lf not in c1.get(s, ())]
            if bad:
                ctx.fail("definition", "%sfind_missing_bipartitions returns bipartitions (split, leafset) %s whose leafset is not that of an edge "
                         "of the reference tree inducing the split" % (context, bad[:4]), case)
    if m["wrf"] != "E":
        w = o_wrf(d1, d2)
        if not close(m["wrf"], float(w)):
            ctx.fail("weighted-value", "%sweighted RF = %r, L1 norm of the per-split length differences = %s" % (context, m["wrf"], w), dict(case, fn="weighted_robinson_foulds_distance"))
    if m["euclid"] != "E":
        e2 = o_euclid_sq(d1, d2)
        if not close(m["euclid"], math.sqrt(float(e2))):
            ctx.fail("weighted-value", "%seuclidean_distance = %r, L2 norm of the per-split length differences = sqrt(%s)" % (context, m["euclid"], e2), dict(case, fn="euclidean_distance"))
    check_refusal(ctx, m, t1, t2, case)
    if extras:
        extra_surface(ctx, dendropy, t1, t2, m, case, extras)
    if label in ("dist", "exh") and m["fpfn"] is not None and m["missing"] is not None:
        line = "dist %s %s %s %s" % (case["rooted"], case["rooted2"], " ".join(case["tree"]), " ".join(case["tree2"]))
        pending.append((line, case, m))
        if case.get("diffs", True):
            dm = length_diff_map(dendropy, t1, t2)
            if dm is not None:
                ctx.count("per_split_dictionaries_compared")
                pending.append(("diffs" + line[4:], dict(case, fn="_get_length_diffs"), {"diffs": dm}))
    return m


def extra_surface(ctx, dendropy, t1, t2, m, case, extras=True):
    """the other public entry points must agree with the five judged above: the unweighted/weighted aliases, the deprecated Tree
    methods, and is_bipartitions_updated=True both on trees whose encodings ARE current and on trees never encoded
    (`extras`: which of the four encoded/not-encoded combinations to run; True = all four, as every replay does)"""
    from dendropy.calculate import treecompare

    def fresh(encode):
        a, b = clone(dendropy, t1), clone(dendropy, t2)
        if encode & 1:
            a.encode_bipartitions()
        if encode & 2:
            b.encode_bipartitions()
        return a, b
    unweighted = [
        ("unweighted_robinson_foulds_distance", "rf", 0, lambda a, b: treecompare.unweighted_robinson_foulds_distance(a, b)),
        ("Tree.symmetric_difference", "rf", 0, lambda a, b: a.symmetric_difference(b)),
        ("Tree.false_positives_and_negatives", "fpfn", 0, lambda a, b: tuple(a.false_positives_and_negatives(b))),
    ]
    weighted = [
        ("robinson_foulds_distance", "wrf", 0, lambda a, b: treecompare.robinson_foulds_distance(a, b)),
        ("Tree.robinson_foulds_distance", "wrf", 0, lambda a, b: a.robinson_foulds_distance(b)),
        ("Tree.euclidean_distance", "euclid", 0, lambda a, b: a.euclidean_distance(b)),
        ("weighted_robinson_foulds_distance(edge_weight_attr='length')", "wrf", 0,
         lambda a, b: treecompare.weighted_robinson_foulds_distance(a, b, edge_weight_attr="length")),
    ]
    def moved(a, b):
        """the weights live in another edge attribute; what is left in `length` is the complementary None pattern, so a function
        that still read `length` would refuse or give another value.  The trees are encoded first: suppressing unifurcations and
        opening a basal bifurcation add up `length`s only, so a custom weight is meaningful on the normalised drawing only"""
        for t in (a, b):
            t.encode_bipartitions()
            for nd in tu.walk(t.seed_node):
                nd.edge.c04_weight = nd.edge.length
                nd.edge.length = None if nd.edge.length is not None else 1.0
        return a, b
    weighted += [
        ("weighted_robinson_foulds_distance(edge_weight_attr=<another attribute>)", "wrf", 0,
         lambda a, b: treecompare.weighted_robinson_foulds_distance(*moved(a, b), edge_weight_attr="c04_weight")),
        ("euclidean_distance(edge_weight_attr=<another attribute>)", "euclid", 0,
         lambda a, b: treecompare.euclidean_distance(*moved(a, b), edge_weight_attr="c04_weight")),
        ("robinson_foulds_distance(edge_weight_attr=<another attribute>)", "wrf", 0,
         lambda a, b: treecompare.robinson_foulds_distance(*moved(a, b), edge_weight_attr="c04_weight")),
        ("euclidean_distance(value_type=Fraction)", "euclid", 0, lambda a, b: treecompare.euclidean_distance(a, b, value_type=Fraction)),
    ]
    variants = (3, 0, 1, 2) if extras is True else tuple(extras)
    for enc in variants:          # both encoded / neither ever encoded / one of them
        tag = "is_bipartitions_updated=True, %s" % {3: "both trees encoded", 0: "no tree encoded yet", 1: "only the first tree encoded",
                                                    2: "only the second tree encoded"}[enc]
        unweighted += [
            ("symmetric_difference(%s)" % tag, "rf", enc, lambda a, b: treecompare.symmetric_difference(a, b, is_bipartitions_updated=True)),
            ("false_positives_and_negatives(%s)" % tag, "fpfn", enc,
             lambda a, b: tuple(treecompare.false_positives_and_negatives(a, b, is_bipartitions_updated=True))),
            ("find_missing_bipartitions(%s)" % tag, "missing", enc,
             lambda a, b: sorted(set(bp.split_bitmask for bp in treecompare.find_missing_bipartitions(a, b, is_bipartitions_updated=True)))),
        ]
        weighted += [
            ("weighted_robinson_foulds_distance(%s)" % tag, "wrf", enc,
             lambda a, b: treecompare.weighted_robinson_foulds_distance(a, b, is_bipartitions_updated=True)),
            ("euclidean_distance(%s)" % tag, "euclid", enc, lambda a, b: treecompare.euclidean_distance(a, b, is_bipartitions_updated=True)),
        ]
    for name, key, enc, fn in unweighted:
        if m[key] is None:
            continue
        a, b = fresh(enc)
        st, v = call(fn, a, b)
        if st == "E":
            ctx.fail("exception", "%s raised %s" % (name, v), dict(case, fn=name))
        elif v != m[key]:
            ctx.fail("definition", "%s = %s, the function with default arguments gives %s" % (name, v, m[key]), dict(case, fn=name))
    for name, key, enc, fn in weighted:
        a, b = fresh(enc)
        st, v = call(fn, a, b)
        if st == "E":
            if not (has_missing_length(t1) or has_missing_length(t2)):
                ctx.fail("definedness", "%s refused (%s) although no edge below the seeds lacks a length" % (name, v), dict(case, fn=name))
        elif m[key] != "E" and not close(v, m[key]):
            ctx.fail("weighted-value", "%s = %r, the function with default arguments gives %r" % (name, v, m[key]), dict(case, fn=name))


def flush(ctx, pending):
    outs = ctx.ask([p[0] for p in pending])
    for (line, case, m), o in zip(pending, outs):
        if o is None:
            continue
        ctx.compared()
        if "hist" in m:
            body, _, tail = o.rpartition(" | ")
            outs_m = body.split(";") if body else []
            want = [r for r in m["hist"]]
            ok = len(outs_m) == len(want) and tail == "1 1"
            if ok:
                for om, r in zip(outs_m, want):
                    if r is None:
                        continue
                    name, impl = r
                    f = om.split()
                    if name == "symmetric_difference":
                        good = len(f) == 2 and int(f[0]) + int(f[1]) == impl
                    elif name == "false_positives_and_negatives":
                        good = len(f) == 2 and (int(f[0]), int(f[1])) == impl
                    elif name == "find_missing_bipartitions":
                        good = f[:1] == ["m"] and sorted(set(int(x) for x in f[1:])) == impl
                    else:
                        g = f[0] if name == "weighted_robinson_foulds_distance" else f[1]
                        if (g == "E") != (impl == "E"):
                            good = False
                        elif g == "E":
                            good = True
                        elif name == "weighted_robinson_foulds_distance":
                            good = close(impl, float(Fraction(g)))
                        else:
                            # the square, and the root itself: the library's float inside the model's fixed-point bracket
                            good = close(impl, math.sqrt(float(Fraction(g)))) and len(f) == 3 and f[2] != "E" and root_in_bracket(impl, int(f[2]))
                    ok = ok and good
            if not ok:
                ctx.disagree("hist", case, str(want), o)
            continue
        if "diffs" in m:
            impl = m["diffs"]
            if o == "E" or impl == "E":
                model = o
            else:
                model = {}
                for tok in o.split():
                    k, a, b = tok.split(":")
                    model[int(k)] = (Fraction(a), Fraction(b))
            if model != impl:
                ctx.disagree("diffs", case, str(impl if impl == "E" else sorted(impl.items())), o)
            continue
        if "sdist" in m:
            name, impl = m["sdist"]
            if o == "refused" or impl == "refused":
                model = o
            else:
                head, _, miss = o.partition("|")
                f = head.split()
                if len(f) != 2:
                    model = o
                elif name == "symmetric_difference":
                    model = int(f[0]) + int(f[1])
                elif name == "false_positives_and_negatives":
                    model = (int(f[0]), int(f[1]))
                else:
                    model = sorted(set(int(x) for x in miss.split()))
            if model != impl:
                ctx.disagree("sdist " + name, case, str(impl), o)
            continue
        head, _, miss = o.partition("|")
        f = head.split()
        ok = len(f) == 5 and f[0] == str(m["fpfn"][0]) and f[1] == str(m["fpfn"][1])
        if ok:
            if (f[2] == "E") != (m["wrf"] == "E"):
                ok = False
            elif f[2] != "E" and not (Fraction(m["wrf"]) == Fraction(f[2]) or close(m["wrf"], float(Fraction(f[2])))):
                ok = False
            if (f[3] == "E") != (m["euclid"] == "E"):
                ok = False
            elif f[3] != "E" and not close(m["euclid"], math.sqrt(float(Fraction(f[3])))):
                ok = False
            elif f[3] != "E" and (f[4] == "E" or not root_in_bracket(m["euclid"], int(f[4]))):
                ok = False          # the root itself: the library's float must lie in the model's bracket of the real square root
            if sorted(set(int(x) for x in miss.split())) != m["missing"]:
                ok = False
        if not ok:
            ctx.disagree("dist", case, {k: str(v) for k, v in m.items()}, o)
    del pending[:]


# ------------------------------------------------------------------ judges (shared by run and replay)
def judge_dist(ctx, dendropy, case, pending):
    """an unordered pair: definition clauses in both orders, then symmetry of value and of definedness"""
    t1, t2 = trees_of_case(dendropy, case)[:2]
    extras = case.get("extras", True)
    swapped = case_of(case["op"], [t2, t1], extras=extras)
    m12 = judge_pair(ctx, dendropy, t1, t2, case, pending, "exh" if case["op"] == "exh" else "dist", extras)
    if case["op"] == "exh":
        return
    m21 = judge_pair(ctx, dendropy, t2, t1, swapped, pending, "dist", extras)
    if None not in (m12["rf"], m21["rf"], m12["fpfn"], m21["fpfn"]):
        if m12["rf"] != m21["rf"] or m12["fpfn"] != tuple(reversed(m21["fpfn"])):
            ctx.fail("symmetry", "RF(t,u)=%s fp/fn=%s but RF(u,t)=%s fp/fn=%s" % (m12["rf"], m12["fpfn"], m21["rf"], m21["fpfn"]), case)
    for k in ("wrf", "euclid"):
        if (m12[k] == "E") != (m21[k] == "E"):
            ctx.fail("definedness", "%s(t,u) is %s but %s(u,t) is %s: refusal of missing edge lengths depends on the argument order" % (
                k, "refused" if m12[k] == "E" else "defined", k, "refused" if m21[k] == "E" else "defined"), case)
        elif m12[k] != "E" and not close(m12[k], m21[k]):
            ctx.fail("symmetry", "%s(t,u)=%r but %s(u,t)=%r" % (k, m12[k], k, m21[k]), case)


def judge_redraw(ctx, dendropy, case, pending):
    """tree2 is a re-drawing of tree (the harness checks that from scratch): every distance between them is zero, and the
    distances to a third tree do not change (both follow from the definition clauses, judged on all three pairs)"""
    ts = trees_of_case(dendropy, case)
    t1, t1b = ts[0], ts[1]
    if split_lengths(t1) != split_lengths(t1b):
        raise RuntimeError("harness: tree2 of a redraw case is not a re-drawing of tree (split -> length tables differ)")
    how = "between a tree and a re-drawing of it (children reordered, unifurcations inserted%s): " % (", seed moved" if case.get("moved") else "")
    judge_pair(ctx, dendropy, t1, t1b, case, pending, "redraw", case.get("extras", True), context=how)
    if len(ts) == 3:
        t3 = ts[2]
        for a, nm in ((t1, "the original"), (t1b, "the re-drawing")):
            c3 = case_of("dist", [a, t3], extras=[])
            judge_pair(ctx, dendropy, a, t3, c3, pending, "dist", False, context="(%s of a redraw case against a third tree) " % nm)


def judge_triple(ctx, dendropy, case, pending):
    ts = trees_of_case(dendropy, case)
    ab = measure(ctx, dendropy, ts[0], ts[1], case)
    bc = measure(ctx, dendropy, ts[1], ts[2], case)
    ac = measure(ctx, dendropy, ts[0], ts[2], case)
    for m, (x, y) in ((ab, (0, 1)), (bc, (1, 2)), (ac, (0, 2))):
        check_refusal(ctx, m, ts[x], ts[y], case)
    nontrivial = None not in (ab["rf"], bc["rf"]) and ab["rf"] > 0 and bc["rf"] > 0
    ctx.case(["triple", case["tree"], case["tree2"], case["tree3"]], nontrivial, sample=case, kind="triple")
    if None not in (ab["rf"], bc["rf"], ac["rf"]) and ac["rf"] > ab["rf"] + bc["rf"]:
        ctx.fail("triangle", "RF(a,c)=%s > RF(a,b)+RF(b,c)=%s+%s" % (ac["rf"], ab["rf"], bc["rf"]), case)
    for k in ("wrf", "euclid"):
        if "E" in (ab[k], bc[k], ac[k]):
            continue
        if ac[k] > ab[k] + bc[k] + 1e-9 * max(1.0, ac[k]):
            ctx.fail("triangle", "%s(a,c)=%r > %s(a,b)+%s(b,c)=%r+%r" % (k, ac[k], k, k, ab[k], bc[k]), case)


NS_ENTRY_POINTS = (
    [(n, lambda tc, a, b, n=n: getattr(tc, n)(a, b)) for n in FUNCS + ("unweighted_robinson_foulds_distance", "robinson_foulds_distance")]
    + [(n + "(is_bipartitions_updated=True)", lambda tc, a, b, n=n: getattr(tc, n)(a, b, is_bipartitions_updated=True)) for n in FUNCS]
    + [("Tree." + n, lambda tc, a, b, n=n: getattr(a, n)(b)) for n in ("symmetric_difference", "false_positives_and_negatives",
                                                                       "robinson_foulds_distance", "euclidean_distance")])


def judge_namespace(ctx, dendropy, case, pending):
    """trees over two different namespace OBJECTS (equal labels) are refused by every entry point, whatever the error type;
    also when both trees carry current encodings and is_bipartitions_updated=True"""
    from dendropy.calculate import treecompare
    ctx.case(["namespace", case["tree"], case["tree2"], case["rooted"]], True, sample=case, kind="namespace")
    for name, fn in NS_ENTRY_POINTS:
        if case.get("fn") not in (None, name):
            continue
        for encoded in (False, True):
            t1 = trees_of_case(dendropy, {"ns": case["ns"], "tree": case["tree"], "rooted": case["rooted"]})[0]
            t2 = trees_of_case(dendropy, {"ns": case["ns"], "tree": case["tree2"], "rooted": case.get("rooted2", case["rooted"])})[0]
            # t2: over a second namespace object with the same labels and bits
            if t1.taxon_namespace is t2.taxon_namespace:
                raise RuntimeError("harness: the two trees of a namespace case share their namespace")
            if encoded:
                t1.encode_bipartitions()
                t2.encode_bipartitions()
            try:
                st, v = call(fn, treecompare, t1, t2)
            except LibraryCrash as e:
                ctx.fail("exception", "namespace: %s on trees over different namespaces: %s (a crash is not a refusal)" % (name, e), dict(case, fn=name))
                continue
            if name in UNWEIGHTED and not encoded:
                cur = [snapshot(t1), snapshot(t2)]
                pending.append((sdist_line(False, 0, 1, cur, [None, None]), dict(case, fn=name), {"sdist": (name, canon_unweighted(name, st, v))}))
            if st == "v":
                ctx.fail("namespace", "%s accepted trees over different taxon namespaces%s and returned %r" % (
                    name, " (both already encoded)" if encoded else "", v if not isinstance(v, list) else len(v)), dict(case, fn=name))


# ---- the tree-object model (Model/C04State.lean): stored encodings, is_bipartitions_updated, namespace identity
UNWEIGHTED = ("symmetric_difference", "false_positives_and_negatives", "find_missing_bipartitions")


def snapshot(t):
    return (tu.encode_tree(t, with_labels=False)[0], ROOT[t.is_rooted])


def sdist_line(updated, ns1, ns2, cur, old):
    """cur / old: [(tokens, rooting)] * 2 ; old[i] None = tree i never encoded.  None when the call would read an encoding stored
    under ANOTHER rooting flag than the tree has now (the protocol line has one flag per tree; the `hist` line of the same history
    carries that call)"""
    if updated and any(o is not None and o[1] != c[1] for o, c in zip(old, cur)):
        return None
    parts = ["sdist", "1" if updated else "0", str(ns1), str(ns2), cur[0][1], cur[1][1],
             "0" if old[0] is None else "1", "0" if old[1] is None else "1"]
    parts += cur[0][0] + cur[1][0]
    for o in old:
        if o is not None:
            parts += o[0]
    return " ".join(parts)


def canon_unweighted(name, st, v):
    if st == "E":
        return "refused"
    if name == "symmetric_difference":
        return v
    if name == "false_positives_and_negatives":
        return tuple(v)
    return sorted(set(bp.split_bitmask for bp in v))


def hist_redrawn(hist, before, trees):
    """a call re-draws its arguments in place (unifurcations suppressed, basal bifurcation opened): the model's tree objects do
    not do that by themselves, so the new drawing is handed to them as an edit (which leaves the stored encoding alone)"""
    for k in (0, 1):
        now = snapshot(trees[k])
        if now != before[k]:
            hist["evs"].append("AB"[k] + " " + " ".join(now[0]))


def hist_event(hist, name, updated, st, v):
    """one call event of the model's `run` (Model/C04State.lean) with what the library answered"""
    if name in UNWEIGHTED:
        code = ("M" if name == "find_missing_bipartitions" else "F") + ("1" if updated else "0")
        hist["evs"].append(code)
        hist["res"].append((name, canon_unweighted(name, st, v)))
    elif not updated:
        hist["evs"].append("W")
        hist["res"].append((name, "E" if st == "E" else v))
    else:
        # the weighted functions with is_bipartitions_updated=True are not modelled; their effect on the stored encodings
        # (a tree never encoded is encoded) is that of any other call with the flag: result not compared
        hist["evs"].append("F1")
        hist["res"].append(None)


# ---- histories
def apply_edit(dendropy, trees, step):
    """apply one recorded edit; node numbers are positions in the current pre-order walk.  Returns False when it does not apply
    (possible only when a replay runs against a library that drew the trees differently)."""
    t = trees[step["tree"] % len(trees)]
    nodes = tu.walk(t.seed_node)
    kind = step["edit"]
    if kind == "swap_taxa":
        leaves = [nd for nd in nodes if not nd._child_nodes]
        if len(leaves) < 2:
            return False
        a, b = leaves[step["a"] % len(leaves)], leaves[step["b"] % len(leaves)]
        a.taxon, b.taxon = b.taxon, a.taxon
        return True
    if kind == "set_length":
        nd = nodes[step["node"] % len(nodes)]
        if nd is t.seed_node:
            return False
        nd.edge.length = float(Fraction(step["length"]))
        return True
    if kind == "regraft":
        leaves = [nd for nd in nodes if not nd._child_nodes and nd._parent_node is not None]
        if not leaves:
            return False
        lf = leaves[step["leaf"] % len(leaves)]
        p = lf._parent_node
        targets = [nd for nd in nodes if nd._child_nodes and nd is not p]
        if len(p._child_nodes) < 2 or not targets:
            return False
        tgt = targets[step["target"] % len(targets)]
        p.remove_child(lf)
        tgt.add_child(lf)
        return True
    if kind == "encode_flags":
        # an explicit encoding with non-default flags between two distance calls (the next default call must not trust it)
        t.encode_bipartitions(suppress_unifurcations=bool(step["suppress"]), collapse_unrooted_basal_bifurcation=bool(step["collapse"]))
        return True
    raise RuntimeError("harness: unknown edit %r" % kind)


ROOTING_WAYS = {"R": ["setter", "unrooted_setter", "reroot_at_node", "reroot_at_edge", "reroot_at_midpoint", "to_outgroup_position"],
                "U": ["setter", "unrooted_setter", "deroot", "to_outgroup_position", "reroot_at_node"],
                "N": ["setter", "to_outgroup_position", "reroot_at_edge"]}


def set_rooting(t, target, how, pick):
    """change the rooting state of the LIVE tree object `t` to `target` (True / False / None) the way `how` names: the plain
    setters, `deroot()`, the hard re-rootings (which set is_rooted = True themselves), or a soft re-drawing followed by the setter.
    Whatever the call leaves in `is_rooted`, the setter finally brings it to `target` (a no-op when the call already did)."""
    nodes = tu.walk(t.seed_node)
    nonseed = [nd for nd in nodes if nd is not t.seed_node]
    internal = [nd for nd in nonseed if nd._child_nodes]
    if how == "unrooted_setter" and target is not None:
        t.is_unrooted = not target
    elif how == "deroot" and target is False:
        t.deroot()
    elif how == "reroot_at_node" and internal:
        t.reroot_at_node(internal[pick % len(internal)])
    elif how == "reroot_at_edge" and nonseed:
        nd = nonseed[pick % len(nonseed)]
        l = nd.edge.length
        t.reroot_at_edge(nd.edge, length1=None if l is None else l / 2.0, length2=None if l is None else l / 2.0)
    elif how == "reroot_at_midpoint" and len(nonseed) >= 2 and all(nd.edge.length is not None and nd.edge.length > 0 for nd in nonseed):
        t.reroot_at_midpoint()
    elif how == "to_outgroup_position" and nonseed:
        t.to_outgroup_position(nonseed[pick % len(nonseed)])
    if t.is_rooted is not target:
        t.is_rooted = target


class EditAborted(Exception):
    """a re-rooting call of the library failed while preparing a history (not a distance call: not C04's to judge); the history
    stops there"""


def apply_rooting(trees, step):
    """BOTH trees go to the same new rooting state (the statement is about pairs in one state), each its own way"""
    target = UNROOT[step["to"]]
    for k, t in enumerate(trees[:2]):
        try:
            set_rooting(t, target, step["how"][k], step["pick"][k])
        except Exception as e:
            if not common.is_library_exception(e):
                raise
            raise EditAborted("%s: %s: %s" % (step["how"][k], type(e).__name__, str(e)[:80]))
    return True


def gen_step(rng):
    kind = rng.choice(["swap_taxa", "swap_taxa", "set_length", "regraft", "regraft", "rooting", "rooting", "rooting", "encode_flags"])
    step = {"tree": rng.randrange(2), "edit": kind}
    if kind == "rooting":
        to = rng.choice(["R", "U", "U", "N"])
        step.update(to=to, how=[rng.choice(ROOTING_WAYS[to]) for _ in range(2)], pick=[rng.randrange(64) for _ in range(2)])
    elif kind == "encode_flags":
        step.update(suppress=rng.random() < 0.5, collapse=rng.random() < 0.5)
    elif kind == "swap_taxa":
        step.update(a=rng.randrange(64), b=rng.randrange(64))
    elif kind == "set_length":
        step.update(node=rng.randrange(64), length=tu.frac(tu.dyadic(rng, zero_rate=0.0)))
    else:
        step.update(leaf=rng.randrange(64), target=rng.randrange(64))
    calls = rng.sample(list(FUNCS), rng.randint(1, len(FUNCS)))
    step["updated_first"] = [f for f in FUNCS if rng.random() < 0.15]     # un-judged calls that trust the old encodings
    if kind == "encode_flags":
        step["updated_first"] = []      # the encoding just stored was made with non-default flags: the model has no such encoding
    step["calls"] = calls
    return step


def history_call(ctx, dendropy, name, t1, t2, d1, d2, case, when, edited, old, pending=None, hist=None):
    """one call with default arguments on the LIVE trees, judged against the from-scratch tables of their current structure.
    A wrong answer after an edit is `stale` when the same call on fresh copies of the current trees is right (so the live
    objects' cached data is to blame), otherwise it is a plain definition failure."""
    from dendropy.calculate import treecompare
    fp, fn = o_rf(d1, d2)
    fresh = (clone(dendropy, t1), clone(dendropy, t2)) if edited else None      # copies of the structure the call is about to see
    cur = [snapshot(t1), snapshot(t2)]
    st, v = call(getattr(treecompare, name), t1, t2)
    if name in UNWEIGHTED and pending is not None:      # the model's tree objects: default arguments ignore the stored encodings
        pending.append((sdist_line(False, 0, 0, cur, old), case, {"sdist": (name, canon_unweighted(name, st, v))}))
    old[0], old[1] = cur          # every public function encodes both trees before anything else
    if hist is not None:
        hist_event(hist, name, False, st, v)
        hist_redrawn(hist, cur, (t1, t2))
    fcase = dict(case, fn=name)
    weighted = name in ("weighted_robinson_foulds_distance", "euclidean_distance")
    if st == "E":
        if not weighted:
            ctx.fail("exception", "%s: %s raised %s" % (when, name, v), fcase)
        elif not (has_missing_length(t1) or has_missing_length(t2)):
            ctx.fail("definedness", "%s: %s refused (%s) although no edge lacks a length" % (when, name, v), fcase)
        return
    if name == "weighted_robinson_foulds_distance":
        canon, want = (lambda x: x), float(o_wrf(d1, d2))
    elif name == "euclidean_distance":
        canon, want = (lambda x: x), math.sqrt(float(o_euclid_sq(d1, d2)))
    elif name == "symmetric_difference":
        canon, want = (lambda x: x), fp + fn
    elif name == "false_positives_and_negatives":
        canon, want = tuple, (fp, fn)
    else:
        canon, want = (lambda x: sorted(set(bp.split_bitmask for bp in x))), sorted(set(d1) - set(d2))
    got = canon(v)
    same = (lambda a, b: close(a, b)) if weighted else (lambda a, b: a == b)
    if same(got, want):
        return
    kind = "weighted-value" if weighted else "definition"
    if fresh is not None:
        st2, v2 = call(getattr(treecompare, name), *fresh)
        if st2 == "v" and same(canon(v2), want):
            kind = "stale"
    ctx.fail(kind, "%s: %s with default arguments = %r, the current structure gives %r%s" % (
        when, name, got, want, " (fresh copies of the same two trees give the right answer)" if kind == "stale" else ""), fcase)


def judge_history(ctx, dendropy, case, pending, rng=None, nsteps=0):
    """query - edit - query ... on the same two tree objects.  With `rng`: generates the steps while running them (the library's
    own re-drawing of the trees during a call decides what the next edit can be) and records them in case["steps"]."""
    from dendropy.calculate import treecompare
    t1, t2 = trees_of_case(dendropy, case)[:2]
    trees = [t1, t2]
    if rng is None:
        case = dict(case, steps=list(case.get("steps", [])))
    steps = case.setdefault("steps", [])
    case["basal_bifurcation_survives"] = basal_survives(t1) or basal_survives(t2)
    d1, d2 = split_lengths(t1), split_lengths(t2)
    old = [None, None]        # (tokens, rooting) of each tree when its bipartition encoding was last stored
    start = [snapshot(t1), snapshot(t2)]
    hist = {"evs": [], "res": []}          # the same history as ONE line for the model's `run` / `step` / `weightedCall`
    for name in case.get("first_calls", FUNCS):       # populate encodings and split -> edge maps
        history_call(ctx, dendropy, name, t1, t2, d1, d2, case, "before any edit", False, old, pending, hist)
    i = 0
    while True:
        if rng is not None:
            if i >= nsteps:
                break
            steps.append(gen_step(rng))
        elif i >= len(steps):
            break
        step = steps[i]
        i += 1
        if step["edit"] == "rooting":
            try:
                apply_rooting(trees, step)
            except EditAborted as e:
                ctx.count("history_stopped_at_failed_rerooting")
                ctx.note("history: re-rooting failed (%s); history stopped there" % e)
                del steps[i - 1:]
                i -= 1
                break
            ctx.count("rooting_change_between_calls:" + step["to"] + ":" + "+".join(sorted(set(step["how"]))))
            for k in (0, 1):
                now = snapshot(trees[k])
                hist["evs"].append("R" + "AB"[k] + " " + now[1] + " " + " ".join(now[0]))
        else:
            if not apply_edit(dendropy, trees, step):
                continue
            k_ed = step["tree"] % 2
            hist["evs"].append("AB"[k_ed] + " " + " ".join(snapshot(trees[k_ed])[0]))
        case["basal_bifurcation_survives"] = basal_survives(t1) or basal_survives(t2)     # of the drawings this step's calls start from
        d1, d2 = split_lengths(t1), split_lengths(t2)
        for name in step.get("updated_first", ()):
            # may legitimately be stale: not judged by the oracle, but the unweighted ones are predicted by the model's stored encodings
            cur = [snapshot(t1), snapshot(t2)]
            try:
                st, v = call(getattr(treecompare, name), t1, t2, is_bipartitions_updated=True)
            except LibraryCrash:
                # the caller's claim "the bipartitions are up to date" is false after an edit; an edge created by the edit (e.g. by
                # reroot_at_edge) carries no compiled bipartition at all, and the library may then fail in any way: outside the statement
                ctx.count("updated_call_on_stale_tree_crashed")
                for k in (0, 1):
                    if old[k] is None:
                        old[k] = cur[k]
                hist["evs"].append("F1")
                hist["res"].append(None)
                hist_redrawn(hist, cur, (t1, t2))
                continue
            if name in UNWEIGHTED and sdist_line(True, 0, 0, cur, old) is not None:
                pending.append((sdist_line(True, 0, 0, cur, old), dict(case, steps=steps[:i], fn=name + "(is_bipartitions_updated=True)"),
                                {"sdist": (name, canon_unweighted(name, st, v))}))
            for k in (0, 1):
                if old[k] is None:
                    old[k] = cur[k]      # a tree never encoded is encoded now; an encoded one keeps its stored encoding
            hist_event(hist, name, True, st, v)
            hist_redrawn(hist, cur, (t1, t2))
        for name in step["calls"]:
            history_call(ctx, dendropy, name, t1, t2, d1, d2, dict(case, steps=steps[:i]), "after edit %d (%s)" % (i, ("rooting state of both trees set to %s via %s" % (step["to"], " / ".join(step["how"]))) if step["edit"] == "rooting"
                                                        else "%s of tree %d" % (step["edit"], step["tree"] + 1)), True, old, pending, hist)
    ctx.case(["history", case["tree"], case["tree2"], steps], True, sample=dict(case, steps=steps[:3]), kind="history")
    if hist["evs"]:
        line = "hist 0 0 %s %s %s %s %d %s" % (start[0][1], start[1][1], " ".join(start[0][0]), " ".join(start[1][0]),
                                            len(hist["evs"]), " ".join(hist["evs"]))
        pending.append((line, dict(case, steps=steps[:i]), {"hist": hist["res"]}))
    return case


# ---- namespace histories: members removed and added through the public API before the trees are built; judged on leaf LABELS
def label_table(tree):
    """from scratch and without any bit: {split as label sets: total length}; rooted: the clade; else the unordered pair of sides"""
    rooted = bool(tree.is_rooted)
    below = {}
    order = tu.walk(tree.seed_node)
    for nd in reversed(order):
        if not nd._child_nodes:
            below[id(nd)] = frozenset([nd.taxon.label])
        else:
            below[id(nd)] = frozenset().union(*[below[id(c)] for c in nd._child_nodes])
    everything = below[id(tree.seed_node)]
    out = {}
    for nd in order:
        side = below[id(nd)]
        key = side if rooted else frozenset([side, everything - side])
        out[key] = out.get(key, Fraction(0)) + tu.F(nd.edge.length)
    return out


def newick_of(shape):
    """shape: [label, length] for a leaf, [[children...], length] for an internal node; lengths as protocol fractions or 'N'"""
    def go(sh):
        head, l = sh
        txt = head if isinstance(head, str) else "(" + ",".join(go(c) for c in head) + ")"
        return txt if l == "N" else "%s:%r" % (txt, float(Fraction(l)))
    return go(shape) + ";"


def build_ns_history(dendropy, case):
    """replay the namespace history through the public API, then build the trees of the case over the resulting namespace"""
    tns = dendropy.TaxonNamespace(list(case["labels"]))
    for ev in case["events"]:
        lab, how = ev["label"], ev["how"]
        if ev["do"] == "remove":
            if how == "remove_taxon":
                tns.remove_taxon(tns.get_taxon(lab))
            elif how == "remove_taxon_label":
                tns.remove_taxon_label(lab)
            elif how == "del":
                del tns[[t.label for t in tns].index(lab)]
            else:
                raise RuntimeError("harness: unknown removal %r" % how)
        else:
            if how == "new_taxon":
                tns.new_taxon(lab)
            elif how == "require_taxon":
                tns.require_taxon(label=lab)
            elif how == "add_taxon":
                tns.add_taxon(dendropy.Taxon(label=lab))
            elif how == "read":
                pass          # first mentioned by a tree that is read into the namespace
            else:
                raise RuntimeError("harness: unknown addition %r" % how)
    trees = []
    for shape in case["shapes"]:
        if case["build"] == "newick":
            t = dendropy.Tree.get(data=newick_of(shape), schema="newick", taxon_namespace=tns, preserve_underscores=True)
        else:
            def go(sh):
                head, l = sh
                nd = dendropy.Node()
                nd.edge.length = None if l == "N" else float(Fraction(l))
                if isinstance(head, str):
                    nd.taxon = tns.require_taxon(label=head)
                else:
                    for c in head:
                        nd.add_child(go(c))
                return nd
            t = dendropy.Tree(taxon_namespace=tns, seed_node=go(shape))
        t.is_rooted = UNROOT[case["rooted"]]
        trees.append(t)
    return tns, trees


def judge_nshistory(ctx, dendropy, case, pending):
    from dendropy.calculate import treecompare
    tns, (t1, t2) = build_ns_history(dendropy, case)
    if t1.taxon_namespace is not tns or t2.taxon_namespace is not tns:
        raise RuntimeError("harness: trees of a namespace-history case are not over the case's namespace")
    case = dict(case, basal_bifurcation_survives=basal_survives(t1) or basal_survives(t2))
    tabs = [label_table(t1), label_table(t2)]
    ctx.case(["nshistory", case["labels"], case["events"], case["shapes"], case["rooted"]], set(tabs[0]) != set(tabs[1]), sample=case, kind="nshistory")
    for a, b in ((0, 1), (1, 0)):
        d1, d2 = tabs[a], tabs[b]
        fp, fn = o_rf(d1, d2)
        how = "after a namespace history (members removed, then added), trees %d,%d: " % (a + 1, b + 1)
        for name in FUNCS:
            _, ts = build_ns_history(dendropy, case)          # fresh objects for every call
            st, v = call(getattr(treecompare, name), ts[a], ts[b])
            fcase = dict(case, fn=name)
            if st == "E":
                ctx.fail("exception", "%s%s raised %s" % (how, name, v), fcase)
            elif name == "symmetric_difference" and v != fp + fn:
                ctx.fail("definition", "%ssymmetric_difference = %s, splits (as leaf-label sets) in exactly one tree: %d" % (how, v, fp + fn), fcase)
            elif name == "false_positives_and_negatives" and tuple(v) != (fp, fn):
                ctx.fail("definition", "%sfalse_positives_and_negatives = %s, one-sided differences of the label-set splits are (%d, %d)" % (how, tuple(v), fp, fn), fcase)
            elif name == "find_missing_bipartitions" and len(set(bp.split_bitmask for bp in v)) != fn:
                ctx.fail("definition", "%sfind_missing_bipartitions returns %d distinct bipartitions, the reference tree has %d splits the other lacks" % (
                    how, len(set(bp.split_bitmask for bp in v)), fn), fcase)
            elif name == "weighted_robinson_foulds_distance" and not close(v, float(o_wrf(d1, d2))):
                ctx.fail("weighted-value", "%sweighted RF = %r, L1 norm of the per-split (label sets) length differences = %s" % (how, v, o_wrf(d1, d2)), fcase)
            elif name == "euclidean_distance" and not close(v, math.sqrt(float(o_euclid_sq(d1, d2)))):
                ctx.fail("weighted-value", "%seuclidean_distance = %r, L2 norm of the per-split (label sets) length differences = sqrt(%s)" % (
                    how, v, o_euclid_sq(d1, d2)), fcase)
    check_namespace_bits(tns)      # last, so that the distances are judged even when this already explains them


def gen_nshistory(ctx, dendropy):
    rng = ctx.rng
    n0 = rng.randint(3, 8)
    labels = ["a%d" % i for i in range(n0)]
    members, events, fresh, unread = list(labels), [], 0, set()
    for _ in range(rng.randint(1, 3)):
        for _ in range(rng.randint(1, 2)):
            if len(members) <= 2:
                break
            # mostly NOT the newest member
            present = [m for m in members if m not in unread]     # a label a tree will introduce is not in the namespace yet
            if len(present) < 2:
                break
            lab = present[-1] if rng.random() < 0.15 else rng.choice(present[:-1])
            members.remove(lab)
            events.append({"do": "remove", "how": rng.choice(["remove_taxon", "remove_taxon_label", "del"]), "label": lab})
        for _ in range(rng.randint(1, 3)):
            lab = "b%d" % fresh
            fresh += 1
            members.append(lab)
            how = rng.choice(["new_taxon", "require_taxon", "add_taxon", "read"])
            if how == "read":
                unread.add(lab)
            events.append({"do": "add", "how": how, "label": lab})
    leaves = list(members) if rng.random() < 0.7 else rng.sample(members, rng.randint(min(3, len(members)), len(members)))

    def shape_of(sh, it, top):
        l = "N" if top else tu.frac(tu.dyadic(rng, zero_rate=0.05))
        if not sh:
            return [next(it), l]
        return [[shape_of(c, it, False) for c in sh], l]
    shapes = []
    for _ in range(2):
        order = list(leaves)
        rng.shuffle(order)
        sh = tu.rand_shape(rng, len(order), p_poly=rng.choice([0.0, 0.3]), p_unary=0.0)
        shapes.append(shape_of(sh, iter(order), True))
    return {"op": "nshistory", "labels": labels, "events": events, "shapes": shapes, "rooted": rng.choice(["R", "U", "N"]),
            "build": rng.choice(["newick", "nodes"])}


JUDGES = {"nshistory": judge_nshistory, "dist": judge_dist, "exh": judge_dist, "symmetry": judge_dist, "redraw": judge_redraw, "redraw3": judge_dist,
          "stale": judge_dist, "triple": judge_triple, "namespace": judge_namespace, "history": judge_history}


def judge(ctx, dendropy, case, pending):
    """run one case; a library exception escaping a judge (outside the places where the statement allows a refusal) is a failure"""
    try:
        JUDGES[case["op"]](ctx, dendropy, case, pending)
    except LibraryCrash as e:
        ctx.fail("exception", "%s: %s (an exception that is not raised on purpose is a crash, not a refusal)" % (case["op"], e), case)
    except NamespaceBits as e:
        ctx.fail("namespace-bits", "%s: the taxon namespace built for this case through the public API does not give its members "
                 "pairwise distinct bits: %s" % (case["op"], e), case)
    except Exception as e:
        if not common.is_library_exception(e):
            raise
        ctx.fail("exception", "%s: the library raised %s: %s" % (case["op"], type(e).__name__, str(e)[:200]), case)


# ------------------------------------------------------------------ ops: build a case, then judge it
def gen_pair(ctx, dendropy):
    rng = ctx.rng
    n = gen_size(ctx)
    tns = gen_ns(dendropy, rng, n)
    taxa = rng.sample(list(tns), n)
    rooted = rng.choice([True, False, None])
    t1 = gen_on(dendropy, rng, tns, taxa, rooted, rng.choice([0.0, 0.0, 0.15, 1.0]))
    if rng.random() < 0.45:
        t2 = perturb(dendropy, rng, t1)
        t2.is_rooted = same_rooting_state(rng, rooted)
    else:
        t2 = gen_on(dendropy, rng, tns, taxa, same_rooting_state(rng, rooted), rng.choice([0.0, 0.0, 0.15, 1.0]))
    return case_of("dist", [t1, t2], extras=[rng.randrange(4)] if rng.random() < 0.3 else [])


def gen_redraw(ctx, dendropy):
    rng = ctx.rng
    n = gen_size(ctx)
    tns = gen_ns(dendropy, rng, n)
    taxa = rng.sample(list(tns), n)
    rooted = rng.choice([True, False, None])
    t1 = gen_on(dendropy, rng, tns, taxa, rooted, rng.choice([0.0, 0.0, 0.2]))
    if not rooted:
        t1.seed_node.edge.length = None     # an unrooted tree has no root edge to carry a length when the seed moves
    t1b, moved = redraw_lengths(dendropy, rng, t1)
    t3 = perturb(dendropy, rng, t1)
    return case_of("redraw", [t1, t1b, t3], moved=moved, extras=[rng.randrange(4)] if rng.random() < 0.15 else [])


def gen_triple(ctx, dendropy):
    rng = ctx.rng
    n = rng.randint(3, ctx.pick(9, 20))
    tns = gen_ns(dendropy, rng, n)
    taxa = rng.sample(list(tns), n)
    rooted = rng.choice([True, False, None])
    ts = [gen_on(dendropy, rng, tns, taxa, rooted, 0.0)]
    ts.append(perturb(dendropy, rng, ts[0]) if rng.random() < 0.5 else gen_on(dendropy, rng, tns, taxa, rooted, 0.0))
    ts.append(perturb(dendropy, rng, ts[1]) if rng.random() < 0.5 else gen_on(dendropy, rng, tns, taxa, rooted, 0.0))
    return case_of("triple", ts)


def gen_namespace(ctx, dendropy):
    rng = ctx.rng
    n = rng.randint(1, 6)
    tns = gen_ns(dendropy, rng, n)
    taxa = rng.sample(list(tns), n)
    rooted = rng.choice([True, False, None])
    t1 = gen_on(dendropy, rng, tns, taxa, rooted, 0.0)
    t2 = clone(dendropy, t1) if rng.random() < 0.4 else gen_on(dendropy, rng, tns, taxa, rooted, 0.0)
    return case_of("namespace", [t1, t2])


def gen_history(ctx, dendropy):
    rng = ctx.rng
    n = rng.randint(4, ctx.pick(9, 16))
    tns = gen_ns(dendropy, rng, n)
    taxa = rng.sample(list(tns), n)
    rooted = rng.choice([True, False, None])
    t1 = gen_on(dendropy, rng, tns, taxa, rooted, 0.0)
    t2 = perturb(dendropy, rng, t1) if rng.random() < 0.5 else gen_on(dendropy, rng, tns, taxa, rooted, 0.0)
    first = [f for f in FUNCS if rng.random() < 0.7]
    return case_of("history", [t1, t2], first_calls=first, steps=[])


OPS = [("pair", 0.38), ("redraw", 0.18), ("triple", 0.14), ("history", 0.14), ("namespace", 0.07), ("nshistory", 0.09)]
GENS = {"nshistory": gen_nshistory, "pair": gen_pair, "redraw": gen_redraw, "triple": gen_triple, "history": gen_history, "namespace": gen_namespace}


def run_op(ctx, dendropy, op, pending):
    case = GENS[op](ctx, dendropy)
    if op == "history":
        try:
            judge_history(ctx, dendropy, case, pending, rng=ctx.rng, nsteps=ctx.rng.randint(1, 4))
        except LibraryCrash as e:
            ctx.fail("exception", "history: %s (an exception that is not raised on purpose is a crash, not a refusal)" % e, case)
        except Exception as e:
            if not common.is_library_exception(e):
                raise
            ctx.fail("exception", "history: the library raised %s: %s" % (type(e).__name__, str(e)[:200]), case)
    else:
        judge(ctx, dendropy, case, pending)


def run(ctx):
    dendropy = __import__("dendropy")
    rng = ctx.rng
    ctx.set_budget(35, 420)
    pending = []
    names = [o[0] for o in OPS]
    weights = [o[1] for o in OPS]
    for _ in range(ctx.pick(2500, 60000)):
        if ctx.out_of_time():
            break
        run_op(ctx, dendropy, rng.choices(names, weights)[0], pending)
        if len(pending) >= 400:
            flush(ctx, pending)
    flush(ctx, pending)
    if ctx.tier == "thorough":
        exhaustive(ctx, dendropy, pending)


def exhaustive(ctx, dendropy, pending):
    """all ordered pairs of shapes with <= 5 leaves (identity labelling vs all rotations), both rootings, unit lengths"""
    count = 0
    for n in range(1, 6):
        shapes = tu.all_shapes(n)
        tns = tu.make_namespace(dendropy, n)
        members = list(tns)
        for rooted in (True, False):
            for s1 in shapes:
                for s2 in shapes:
                    for rot in range(n if n <= 4 else 2):
                        t1 = tu.build_tree(dendropy, s1, tns, members, lambda: 1.0, rooted)
                        t2 = tu.build_tree(dendropy, s2, tns, members[rot:] + members[:rot], lambda: 2.0, rooted)
                        judge(ctx, dendropy, case_of("exh", [t1, t2], extras=[]), pending)
                        count += 1
                if len(pending) >= 1500:
                    flush(ctx, pending)
    flush(ctx, pending)
    ctx.extra["exhaustive_small_scope"] = "%d ordered pairs of all shapes <= 5 leaves x rotations of the labelling x rooting" % count


def replay(ctx, rec):
    """re-run ONE recorded case: the judge of its op on the recorded trees (and steps).  Old records carrying only a generator
    state are re-generated from it."""
    dendropy = __import__("dendropy")
    c = rec["replay"]
    pending = []
    if "tree" not in c and "rng_state" in c:
        st = c["rng_state"]
        ctx.rng.setstate((st[0], tuple(st[1]), st[2]))
        ctx.tier = c.get("tier", ctx.tier)
        run_op(ctx, dendropy, {"stale": "history"}.get(c["op"], c["op"]), pending)
    elif c.get("op") in JUDGES:
        case = {k: v for k, v in c.items() if k != "fn" or c.get("op") == "namespace"}
        if "tree2" not in case and case["op"] != "nshistory":
            raise RuntimeError("harness: replay record of op %r has no second tree" % c.get("op"))
        judge(ctx, dendropy, case, pending)
    else:
        raise RuntimeError("harness: cannot replay op %r" % c.get("op"))
    flush(ctx, pending)


# ------------------------------------------------------------------ targeted search (obligations broke / model and code disagree)
def _unknown_failure(ctx, start):
    """a failure recorded since `start` that is not the known basal-bifurcation finding"""
    for f in ctx.failures[start:]:
        if not (f["kind"] == "weighted-value" and f.get("replay", {}).get("basal_bifurcation_survives")):
            return True
    return False


def search(ctx, broken):
    """A kernel of treecompare.py could not be regenerated (Gen/C04Kernels: set differences, the dist_fn lambdas, the decision
    tables of `_get_length_diffs`, the re-encoding protocol, the namespace check, the aliases), its bridge theorem no longer
    holds, or model and code disagree: look for a concrete failing input where those kernels decide.
    (1) small scope, exhaustively: every ordered pair of shapes with <= 3 leaves (then random pairs with 4 - 5), all three rooting
        states, every placement of at most one missing length per tree (the seed's edge included) over distinct lengths, judged in
        both orders with every entry point and every encoded / not-encoded combination of is_bipartitions_updated=True;
    (2) histories (edit between calls: stale encodings), namespace refusals and redraws from the ordinary generators."""
    import itertools
    import time
    dendropy = __import__("dendropy")
    rng = ctx.rng
    pending = []
    start = len(ctx.failures)
    deadline = time.time() + ctx.pick(45, 240)

    def nodes_of(sh):
        return 1 + sum(nodes_of(c) for c in sh)

    def build(shape, tns, taxa, rooted, none_at, base):
        vals = iter(range(10 ** 6))
        t = tu.build_tree(dendropy, shape, tns, taxa, lambda: (lambda i: None if i == none_at else base + i / 4.0)(next(vals)), rooted)
        return t

    def one(s1, s2, taxa1, taxa2, tns, rooted, p1, p2):
        t1 = build(s1, tns, taxa1, rooted, p1, 1.0)
        t2 = build(s2, tns, taxa2, rooted, p2, 3.0)
        judge(ctx, dendropy, case_of("dist", [t1, t2], extras=True), pending)
        if len(pending) >= 300:
            flush(ctx, pending)

    done = False
    for n in (3, 2, 1):
        shapes = tu.all_shapes(n)
        tns = tu.make_namespace(dendropy, n)
        members = list(tns)
        for rooted, s1, s2 in itertools.product((False, True, None), shapes, shapes):
            for rot in range(2 if n > 1 else 1):
                for p1 in range(-1, nodes_of(s1)):
                    for p2 in range(-1, nodes_of(s2)):
                        one(s1, s2, members, members[rot:] + members[:rot], tns, rooted, p1, p2)
                if _unknown_failure(ctx, start) or time.time() > deadline:
                    done = True
                    break
            if done:
                break
        if done:
            break
    flush(ctx, pending)
    names = [o[0] for o in OPS]
    weights = [o[1] for o in OPS]
    while not _unknown_failure(ctx, start) and time.time() < deadline:
        if rng.random() < 0.4:
            n = rng.randint(4, 5)
            shapes = tu.all_shapes(n)
            tns = tu.make_namespace(dendropy, n)
            members = list(tns)
            s1, s2 = rng.choice(shapes), rng.choice(shapes)
            taxa2 = list(members)
            rng.shuffle(taxa2)
            one(s1, s2, members, taxa2, tns, rng.choice([True, False, None]),
                rng.randrange(-1, nodes_of(s1)), rng.randrange(-1, nodes_of(s2)))
        else:
            run_op(ctx, dendropy, rng.choices(names, weights)[0], pending)
        if len(pending) >= 300:
            flush(ctx, pending)
    flush(ctx, pending)
    ctx.extra["targeted_search"] = "ran (broken obligations: %d, disagreements: %d): %s" % (
        len(broken), len(ctx.disagreements), "failing input found" if _unknown_failure(ctx, start) else "no failing input found")
