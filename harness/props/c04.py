"""C04 - tree-to-tree distances equal their split-set definitions and are true metrics."""
import math
from fractions import Fraction

import treeutil as tu
from props import c01

ID = "C04"
GEN_DEPENDS = ["PyBits"]
RULE = ("pairs and triples of random trees (2-10 leaves quick, 25 thorough) over one namespace (extra members, holes), same or different "
        "rooting state, dyadic / None / zero edge lengths, unary nodes and polytomies; re-drawn copies (children shuffled, "
        "unifurcations inserted with the length split, unrooted trees re-seeded through an independent graph re-rooting); edit-then-"
        "measure interleavings; foreign namespaces. Non-trivial = the two trees differ in at least one split")
MODELLED_NOT_VERIFIED = [
    "C04: the Lean model (Model/C04.lean on top of C01.encode) is hand-written from false_positives_and_negatives / _get_length_diffs; "
    "tied by comparing fp, fn, wRF, Euclid^2 and the missing-bipartition list per generated pair",
    "C04: sqrt (the model and the theorems work with the squared Euclidean distance; Minkowski's inequality is stated on square roots in ℝ), "
    "binary64 rounding (exact comparison on dyadic lengths only), TreeShapeKernel classes",
]
EXPLANATION = ("Theorems: fp/fn/RF are the cardinalities of the one-sided and symmetric differences of the split sets; RF and wRF are symmetric, "
               "zero on equal inputs, obey the triangle inequality, depend on the split->length maps only; refusal of missing lengths is symmetric; "
               "Euclid obeys the triangle inequality (Minkowski).")

ROOT = c01.ROOT


# ------------------------------------------------------------------ independent oracle
def split_lengths(tree):
    """{normalised split: total length of the edges inducing it} from scratch (None = 0), plus
    the set of splits on which some non-root inducing edge has length None"""
    masks = tu.leafset_masks(tree)
    L = masks[id(tree.seed_node)]
    low = L & -L
    rooted = bool(tree.is_rooted)
    out, has_none = {}, set()
    for nd in tu.walk(tree.seed_node):
        m = masks[id(nd)]
        s = m if rooted else ((L & ~m) if (m & low) else m)
        out[s] = out.get(s, Fraction(0)) + tu.F(nd.edge.length)
    return out


def o_rf(d1, d2):
    fp = len(set(d2) - set(d1))
    fn = len(set(d1) - set(d2))
    return fp, fn


def o_wrf(d1, d2):
    return sum((abs(d1.get(s, 0) - d2.get(s, 0)) for s in set(d1) | set(d2)), Fraction(0))


def o_euclid_sq(d1, d2):
    return sum(((d1.get(s, 0) - d2.get(s, 0)) ** 2 for s in set(d1) | set(d2)), Fraction(0))


# ------------------------------------------------------------------ generators
def gen_ns(dendropy, rng, n):
    extra = rng.randint(0, 2)
    nholes = 1 if rng.random() < 0.2 else 0
    total = n + extra + nholes
    holes = [rng.randrange(total)] if nholes else []
    return tu.make_namespace(dendropy, 0, labels=["t%d" % i for i in range(total)], holes=holes)


def gen_on(dendropy, rng, tns, taxa, rooted, none_rate):
    taxa = list(taxa)
    rng.shuffle(taxa)
    shape = tu.rand_shape(rng, len(taxa), p_poly=rng.choice([0.0, 0.2, 0.5]), p_unary=rng.choice([0.0, 0.1]))
    lens = (lambda: tu.dyadic(rng, none_rate=none_rate, zero_rate=0.08))
    return tu.build_tree(dendropy, shape, tns, taxa, lens, rooted)


def perturb(dendropy, rng, tree):
    """a tree over the same leaves that shares most splits: clone through tokens, then swap two leaf taxa or regraft"""
    toks, _ = tu.encode_tree(tree, with_labels=False)
    t2, ids = tu.tree_from_tokens(dendropy, toks, rooted=tree.is_rooted, tns=tree.taxon_namespace)
    leaves = [nd for nd in tu.walk(t2.seed_node) if not nd._child_nodes]
    if len(leaves) >= 2:
        a, b = rng.sample(leaves, 2)
        a.taxon, b.taxon = b.taxon, a.taxon
    for nd in tu.walk(t2.seed_node):
        if rng.random() < 0.3 and nd.edge.length is not None:
            nd.edge.length = tu.dyadic(rng)
    return t2


def redraw_lengths(dendropy, rng, tree):
    """same (un)rooted tree with the same edge lengths, drawn differently, built from the adjacency graph:
    children shuffled; a unifurcation inserted on some edges with the length split in two dyadic parts;
    unrooted: seeded at another internal vertex"""
    adj, bit = c01.graph(tree)
    nodes = {id(nd): nd for nd in tu.walk(tree.seed_node)}
    tns = tree.taxon_namespace
    by_bit = {tns.accession_index(t): t for t in tns}
    unrooted = not tree.is_rooted

    def elen(a, b):
        # length of the undirected edge {a,b} = length stored on the child end
        na, nb = nodes[a], nodes[b]
        child = na if na._parent_node is nb else nb
        return child.edge.length
    root = id(tree.seed_node)
    root_len = tree.seed_node.edge.length
    if unrooted and len(adj) > 2 and len(adj[root]) >= 2:   # a unifurcating seed would become a taxon-less leaf: keep it
        internal = [v for v in adj if v not in bit and len(adj[v]) >= 2]
        if internal:
            root = rng.choice(internal)

    def go(v, parent):
        nd = dendropy.Node()
        if v in bit:
            nd.taxon = by_bit[bit[v]]
        kids = [w for w in adj[v] if w != parent]
        rng.shuffle(kids)
        for w in kids:
            c = go(w, v)
            l = elen(v, w)
            if rng.random() < 0.15:
                u = dendropy.Node()
                u.add_child(c)
                if l is None:
                    c.edge.length = None
                    u.edge.length = None
                else:
                    c.edge.length = l / 2.0
                    u.edge.length = l / 2.0
                c = u
            else:
                c.edge.length = l
            nd.add_child(c)
        return nd
    seed = go(root, None)
    if root == id(tree.seed_node):
        seed.edge.length = root_len
    t = dendropy.Tree(taxon_namespace=tns, seed_node=seed)
    t.is_rooted = tree.is_rooted
    return t, root != id(tree.seed_node)


def clone(dendropy, tree):
    toks, _ = tu.encode_tree(tree, with_labels=False)
    t2, _ = tu.tree_from_tokens(dendropy, toks, rooted=tree.is_rooted, tns=tree.taxon_namespace)
    return t2


def measure(dendropy, t1, t2):
    """all public distances on FRESH clones (the calls re-encode and so mutate their arguments)"""
    from dendropy.calculate import treecompare
    out = {}
    a, b = clone(dendropy, t1), clone(dendropy, t2)
    out["fpfn"] = treecompare.false_positives_and_negatives(a, b)
    a, b = clone(dendropy, t1), clone(dendropy, t2)
    out["rf"] = treecompare.symmetric_difference(a, b)
    a, b = clone(dendropy, t1), clone(dendropy, t2)
    try:
        out["wrf"] = treecompare.weighted_robinson_foulds_distance(a, b)
    except ValueError:
        out["wrf"] = "E"
    a, b = clone(dendropy, t1), clone(dendropy, t2)
    try:
        out["euclid"] = treecompare.euclidean_distance(a, b)
    except ValueError:
        out["euclid"] = "E"
    a, b = clone(dendropy, t1), clone(dendropy, t2)
    out["missing"] = sorted(set(bp.split_bitmask for bp in treecompare.find_missing_bipartitions(a, b)))
    return out


def case_of(t1, t2, op="dist"):
    k1, _ = tu.encode_tree(t1, with_labels=False)
    k2, _ = tu.encode_tree(t2, with_labels=False)
    return {"op": op, "tree": k1, "tree2": k2, "rooted": ROOT[t1.is_rooted], "rooted2": ROOT[t2.is_rooted],
            "ns": c01.namespace_desc(t1.taxon_namespace), "basal_bifurcation_survives": basal_survives(t1) or basal_survives(t2)}


def basal_survives(t):
    """an unrooted tree that still has a bifurcating seed after default encoding (two leaves only, or a unifurcating
    seed above a bifurcation: the collapse runs before the unifurcation is suppressed): its two basal edges induce
    one and the same split and the split -> edge map sees only one of their lengths"""
    if t.is_rooted:
        return False
    import dendropy
    c = clone(dendropy, t)
    c.encode_bipartitions()
    return len(c.seed_node._child_nodes) == 2


def trees_of_case(dendropy, c):
    t1, _ = c01.tree_for_case(dendropy, c)
    t2, _ = tu.tree_from_tokens(dendropy, c["tree2"], rooted={"R": True, "U": False, "N": None}[c["rooted2"]], tns=t1.taxon_namespace)
    return t1, t2


def close(x, y):
    return abs(x - y) <= 1e-9 * max(1.0, abs(x), abs(y))


def check_pair(ctx, dendropy, t1, t2, pending, label="dist"):
    """definition clauses (a),(b) on one ordered pair + correspondence line"""
    case = case_of(t1, t2, label)
    d1, d2 = split_lengths(t1), split_lengths(t2)
    m = measure(dendropy, t1, t2)
    fp, fn = o_rf(d1, d2)
    ctx.case(["dist", case["tree"], case["tree2"], case["rooted"], case["rooted2"]], fp + fn > 0, sample=case, kind=label)
    if tuple(m["fpfn"]) != (fp, fn):
        ctx.fail("definition", "false_positives_and_negatives = %s, one-sided split differences are (%d, %d)" % (m["fpfn"], fp, fn), case)
    if m["rf"] != fp + fn:
        ctx.fail("definition", "symmetric_difference = %s, splits in exactly one tree: %d" % (m["rf"], fp + fn), case)
    if m["missing"] != sorted(set(d1) - set(d2)):
        ctx.fail("definition", "find_missing_bipartitions = %s, reference-only splits are %s" % (m["missing"], sorted(set(d1) - set(d2))), case)
    if m["wrf"] != "E":
        w = o_wrf(d1, d2)
        if Fraction(m["wrf"]) != w and not close(m["wrf"], float(w)):
            ctx.fail("definition", "weighted RF = %r, L1 norm of per-split length differences = %s" % (m["wrf"], w), case)
    if m["euclid"] != "E":
        e2 = o_euclid_sq(d1, d2)
        if not close(m["euclid"], math.sqrt(float(e2))):
            ctx.fail("definition", "euclidean_distance = %r, L2 norm = sqrt(%s)" % (m["euclid"], e2), case)
    if (m["wrf"] == "E") != (m["euclid"] == "E"):
        ctx.fail("definedness", "weighted RF and Euclidean distance disagree on whether the pair is refused", case)
    extra_surface(ctx, dendropy, t1, t2, m, case)
    got = "%d %d %s | %s" % (m["fpfn"][0], m["fpfn"][1], "E" if m["wrf"] == "E" else tu.frac(m["wrf"]),
                             " ".join(str(x) for x in m["missing_order"]) if "missing_order" in m else "")
    line = "dist %s %s %s %s" % (case["rooted"], case["rooted2"], " ".join(case["tree"]), " ".join(case["tree2"]))
    pending.append((line, case, m))
    return m, d1, d2


def extra_surface(ctx, dendropy, t1, t2, m, case):
    """the other public entry points must agree with the ones judged above: the unweighted/weighted aliases, the deprecated
    Tree methods, and is_bipartitions_updated=True on trees whose encodings ARE current"""
    from dendropy.calculate import treecompare
    r = ctx.rng.random()
    if r > 0.35:
        return
    a, b = clone(dendropy, t1), clone(dendropy, t2)
    vals = {}
    try:
        vals["unweighted_robinson_foulds_distance"] = treecompare.unweighted_robinson_foulds_distance(a, b)
        a, b = clone(dendropy, t1), clone(dendropy, t2)
        vals["Tree.symmetric_difference"] = a.symmetric_difference(b)
        a, b = clone(dendropy, t1), clone(dendropy, t2)
        vals["Tree.false_positives_and_negatives"] = tuple(a.false_positives_and_negatives(b))
        a, b = clone(dendropy, t1), clone(dendropy, t2)
        a.encode_bipartitions()
        b.encode_bipartitions()
        vals["symmetric_difference(is_bipartitions_updated=True)"] = treecompare.symmetric_difference(a, b, is_bipartitions_updated=True)
        vals["false_positives_and_negatives(is_bipartitions_updated=True)"] = tuple(
            treecompare.false_positives_and_negatives(a, b, is_bipartitions_updated=True))
    except Exception as e:
        ctx.fail("exception", "alias/updated-encoding entry point raised %s: %s" % (type(e).__name__, str(e)[:100]), case)
        return
    want = {"unweighted_robinson_foulds_distance": m["rf"], "Tree.symmetric_difference": m["rf"],
            "Tree.false_positives_and_negatives": tuple(m["fpfn"]),
            "symmetric_difference(is_bipartitions_updated=True)": m["rf"],
            "false_positives_and_negatives(is_bipartitions_updated=True)": tuple(m["fpfn"])}
    for k, v in vals.items():
        if v != want[k]:
            ctx.fail("definition", "%s = %s, symmetric_difference / false_positives_and_negatives with default arguments give %s" % (k, v, want[k]), case)
    if m["wrf"] != "E":
        for name, fn in (("robinson_foulds_distance", lambda x, y: treecompare.robinson_foulds_distance(x, y)),
                         ("Tree.robinson_foulds_distance", lambda x, y: x.robinson_foulds_distance(y)),
                         ("weighted_robinson_foulds_distance(is_bipartitions_updated=True)", None)):
            a, b = clone(dendropy, t1), clone(dendropy, t2)
            try:
                if fn is None:
                    a.encode_bipartitions()
                    b.encode_bipartitions()
                    v = treecompare.weighted_robinson_foulds_distance(a, b, is_bipartitions_updated=True)
                else:
                    v = fn(a, b)
            except Exception as e:
                ctx.fail("exception", "%s raised %s" % (name, type(e).__name__), case)
                continue
            if not close(v, m["wrf"]):
                ctx.fail("definition", "%s = %r, weighted_robinson_foulds_distance with default arguments gives %r" % (name, v, m["wrf"]), case)
    if m["euclid"] != "E":
        a, b = clone(dendropy, t1), clone(dendropy, t2)
        v = a.euclidean_distance(b)
        if not close(v, m["euclid"]):
            ctx.fail("definition", "Tree.euclidean_distance = %r, treecompare.euclidean_distance gives %r" % (v, m["euclid"]), case)


def flush(ctx, pending):
    outs = ctx.ask([p[0] for p in pending])
    for (line, case, m), o in zip(pending, outs):
        if o is None:
            continue
        ctx.compared()
        head, _, miss = o.partition("|")
        f = head.split()
        ok = len(f) == 4 and f[0] == str(m["fpfn"][0]) and f[1] == str(m["fpfn"][1])
        if ok:
            if (f[2] == "E") != (m["wrf"] == "E"):
                ok = False
            elif f[2] != "E" and not (Fraction(m["wrf"]) == Fraction(f[2]) or close(m["wrf"], float(Fraction(f[2])))):
                ok = False
            if (f[3] == "E") != (m["euclid"] == "E"):
                ok = False
            elif f[3] != "E" and not close(m["euclid"], math.sqrt(float(Fraction(f[3])))):
                ok = False
            if sorted(set(int(x) for x in miss.split())) != m["missing"]:
                ok = False
        if not ok:
            ctx.disagree("dist", case, {k: str(v) for k, v in m.items()}, o)
    del pending[:]


# ------------------------------------------------------------------ ops
def op_pair(ctx, dendropy, pending):
    rng = ctx.rng
    n = rng.randint(3, ctx.pick(10, 25)) if rng.random() < 0.97 else 2
    tns = gen_ns(dendropy, rng, n)
    taxa = rng.sample(list(tns), n)
    rooted = rng.choice([True, False, None])
    none_rate = rng.choice([0.0, 0.0, 0.15, 1.0])
    t1 = gen_on(dendropy, rng, tns, taxa, rooted, none_rate)
    r = rng.random()
    if r < 0.45:
        t2 = perturb(dendropy, rng, t1)
    else:
        t2 = gen_on(dendropy, rng, tns, taxa, rooted if rng.random() < 0.9 else rng.choice([True, False, None]),
                    rng.choice([0.0, 0.0, 0.15, 1.0]))
    m12, d1, d2 = check_pair(ctx, dendropy, t1, t2, pending)
    m21, _, _ = check_pair(ctx, dendropy, t2, t1, pending)
    case = case_of(t1, t2, "symmetry")
    if m12["rf"] != m21["rf"] or tuple(m12["fpfn"]) != tuple(reversed(m21["fpfn"])):
        ctx.fail("symmetry", "RF(t,u)=%s fp/fn=%s but RF(u,t)=%s fp/fn=%s" % (m12["rf"], m12["fpfn"], m21["rf"], m21["fpfn"]), case)
    for k in ("wrf", "euclid"):
        if (m12[k] == "E") != (m21[k] == "E"):
            ctx.fail("definedness", "%s(t,u) is %s but %s(u,t) is %s: refusal of missing edge lengths depends on the argument order" % (
                k, "refused" if m12[k] == "E" else "defined", k, "refused" if m21[k] == "E" else "defined"), case)
        elif m12[k] != "E" and not close(m12[k], m21[k]):
            ctx.fail("symmetry", "%s(t,u)=%r but %s(u,t)=%r" % (k, m12[k], k, m21[k]), case)


def op_redraw(ctx, dendropy, pending):
    """zero between a tree and a re-drawing of it; distances to a third tree unchanged by re-drawing"""
    rng = ctx.rng
    n = rng.randint(3, ctx.pick(10, 25)) if rng.random() < 0.97 else 2
    tns = gen_ns(dendropy, rng, n)
    taxa = rng.sample(list(tns), n)
    rooted = rng.choice([True, False, None])
    none_rate = rng.choice([0.0, 0.0, 0.2])
    t1 = gen_on(dendropy, rng, tns, taxa, rooted, none_rate)
    if not rooted:
        t1.seed_node.edge.length = None     # an unrooted tree has no root edge to carry a length when the seed moves
    t1b, moved = redraw_lengths(dendropy, rng, t1)
    t3 = perturb(dendropy, rng, t1)
    case = case_of(t1, t1b, "redraw")
    m = measure(dendropy, t1, t1b)
    ctx.case(["redraw", case["tree"], case["tree2"], case["rooted"]], n >= 4, sample=case, kind="redraw-reseeded" if moved else "redraw")
    if m["rf"] != 0 or tuple(m["fpfn"]) != (0, 0):
        ctx.fail("representation", "RF between a tree and a re-drawing of it (children reordered, unifurcations inserted%s) is %s" % (
            ", seed moved" if moved else "", m["rf"]), case)
    for k in ("wrf", "euclid"):
        if m[k] != "E" and not close(m[k], 0.0):
            ctx.fail("representation", "%s between a tree and a re-drawing of it is %r" % (k, m[k]), case)
    ma, mb = measure(dendropy, t1, t3), measure(dendropy, t1b, t3)
    case3 = dict(case_of(t1b, t3, "redraw3"), original=case["tree"])
    if ma["rf"] != mb["rf"]:
        ctx.fail("representation", "RF to a third tree changes from %s to %s when the first tree is re-drawn" % (ma["rf"], mb["rf"]), case3)
    for k in ("wrf", "euclid"):
        if ma[k] != "E" and mb[k] != "E" and not close(ma[k], mb[k]):
            ctx.fail("representation", "%s to a third tree changes from %r to %r when the first tree is re-drawn" % (k, ma[k], mb[k]), case3)


def op_triple(ctx, dendropy, pending):
    rng = ctx.rng
    n = rng.randint(3, ctx.pick(9, 20))
    tns = gen_ns(dendropy, rng, n)
    taxa = rng.sample(list(tns), n)
    rooted = rng.choice([True, False])
    ts = [gen_on(dendropy, rng, tns, taxa, rooted, 0.0)]
    ts.append(perturb(dendropy, rng, ts[0]) if rng.random() < 0.5 else gen_on(dendropy, rng, tns, taxa, rooted, 0.0))
    ts.append(perturb(dendropy, rng, ts[1]) if rng.random() < 0.5 else gen_on(dendropy, rng, tns, taxa, rooted, 0.0))
    ab, bc, ac = measure(dendropy, ts[0], ts[1]), measure(dendropy, ts[1], ts[2]), measure(dendropy, ts[0], ts[2])
    case = dict(case_of(ts[0], ts[1], "triple"), tree3=tu.encode_tree(ts[2], with_labels=False)[0])
    ctx.case(["triple", case["tree"], case["tree2"], case["tree3"]], ab["rf"] > 0 and bc["rf"] > 0, sample=case, kind="triple")
    if ac["rf"] > ab["rf"] + bc["rf"]:
        ctx.fail("triangle", "RF(a,c)=%s > RF(a,b)+RF(b,c)=%s+%s" % (ac["rf"], ab["rf"], bc["rf"]), case)
    for k in ("wrf", "euclid"):
        if "E" in (ab[k], bc[k], ac[k]):
            continue
        if ac[k] > ab[k] + bc[k] + 1e-9 * max(1.0, ac[k]):
            ctx.fail("triangle", "%s(a,c)=%r > %s(a,b)+%s(b,c)=%r+%r" % (k, ac[k], k, k, ab[k], bc[k]), case)


def op_stale(ctx, dendropy, pending):
    """(d): with default arguments the result reflects the current structure, never a cached encoding"""
    from dendropy.calculate import treecompare
    rng = ctx.rng
    n = rng.randint(4, ctx.pick(9, 16))
    tns = gen_ns(dendropy, rng, n)
    taxa = rng.sample(list(tns), n)
    rooted = rng.choice([True, False])
    t1 = gen_on(dendropy, rng, tns, taxa, rooted, 0.0)
    t2 = gen_on(dendropy, rng, tns, taxa, rooted, 0.0)
    treecompare.symmetric_difference(t1, t2)            # populates encodings and edge maps
    treecompare.weighted_robinson_foulds_distance(t1, t2)
    # edit t1: swap two leaf taxa, change a length, maybe prune/regraft a leaf
    leaves = [nd for nd in tu.walk(t1.seed_node) if not nd._child_nodes]
    a, b = rng.sample(leaves, 2)
    a.taxon, b.taxon = b.taxon, a.taxon
    x = rng.choice(tu.walk(t1.seed_node))
    x.edge.length = tu.dyadic(rng)
    if rng.random() < 0.5 and len(leaves) > 3:
        lf = rng.choice(leaves)
        p = lf._parent_node
        if p is not None and len(p._child_nodes) > 2:
            p.remove_child(lf)
            tgt = rng.choice([nd for nd in tu.walk(t1.seed_node) if nd._child_nodes])
            tgt.add_child(lf)
    case = case_of(t1, t2, "stale")
    d1, d2 = split_lengths(t1), split_lengths(t2)
    fp, fn = o_rf(d1, d2)
    got_rf = treecompare.symmetric_difference(t1, t2)
    got_w = treecompare.weighted_robinson_foulds_distance(t1, t2)
    ctx.case(["stale", case["tree"], case["tree2"]], True, sample=case, kind="stale")
    if got_rf != fp + fn:
        ctx.fail("stale", "after editing a tree, symmetric_difference with default arguments = %s, current structure gives %d" % (got_rf, fp + fn), case)
    if not close(got_w, float(o_wrf(d1, d2))):
        ctx.fail("stale", "after editing a tree, weighted RF with default arguments = %r, current structure gives %s" % (got_w, o_wrf(d1, d2)), case)


def op_namespace(ctx, dendropy, pending):
    from dendropy.calculate import treecompare
    from dendropy.utility import error
    rng = ctx.rng
    n = rng.randint(2, 6)
    tns1 = tu.make_namespace(dendropy, n)
    tns2 = tu.make_namespace(dendropy, n)
    t1 = gen_on(dendropy, rng, tns1, list(tns1), True, 0.0)
    t2 = gen_on(dendropy, rng, tns2, list(tns2), True, 0.0)
    case = {"op": "namespace", "n": n}
    ctx.case(["namespace", n, rng.random()], True, kind="namespace")
    for name in ("symmetric_difference", "false_positives_and_negatives", "weighted_robinson_foulds_distance",
                 "euclidean_distance", "find_missing_bipartitions", "unweighted_robinson_foulds_distance", "robinson_foulds_distance"):
        try:
            getattr(treecompare, name)(t1, t2)
            ctx.fail("namespace", "%s accepted trees over different taxon namespaces" % name, dict(case, fn=name))
        except error.TaxonNamespaceIdentityError:
            pass
    # deprecated aliases on Tree agree with the functions
    t3 = gen_on(dendropy, rng, tns1, list(tns1), True, 0.0)
    import warnings
    with warnings.catch_warnings():
        warnings.simplefilter("ignore")
        if t1.symmetric_difference(t3) != treecompare.symmetric_difference(t1, t3) or \
                t1.false_positives_and_negatives(t3) != treecompare.false_positives_and_negatives(t1, t3):
            ctx.fail("definition", "Tree.symmetric_difference alias disagrees with treecompare.symmetric_difference", case)


OPS = [("pair", 0.45), ("redraw", 0.2), ("triple", 0.15), ("stale", 0.12), ("namespace", 0.08)]


def run_op(ctx, dendropy, op, pending):
    {"pair": op_pair, "redraw": op_redraw, "triple": op_triple, "stale": op_stale, "namespace": op_namespace}[op](ctx, dendropy, pending)


def run(ctx):
    dendropy = __import__("dendropy")
    rng = ctx.rng
    ctx.set_budget(45, 600)
    pending = []
    names = [o[0] for o in OPS]
    weights = [o[1] for o in OPS]
    for _ in range(ctx.pick(2500, 60000)):
        if ctx.out_of_time():
            break
        op = rng.choices(names, weights)[0]
        state = rng.getstate()
        try:
            run_op(ctx, dendropy, op, pending)
        except Exception as e:
            ctx.fail("exception", "%s raised %s: %s" % (op, type(e).__name__, str(e)[:200]),
                     {"op": op, "rng_state": [state[0], list(state[1]), state[2]], "tier": ctx.tier})
        if len(pending) >= 400:
            flush(ctx, pending)
    flush(ctx, pending)
    if ctx.tier == "thorough":
        exhaustive(ctx, dendropy, pending)


def exhaustive(ctx, dendropy, pending):
    """all ordered pairs of shapes with <= 5 leaves (identity labelling vs all rotations), both rootings, unit lengths"""
    count = 0
    for n in range(2, 6):
        shapes = tu.all_shapes(n)
        tns = tu.make_namespace(dendropy, n)
        members = list(tns)
        for rooted in (True, False):
            for s1 in shapes:
                for s2 in shapes:
                    for rot in range(n if n <= 4 else 2):
                        t1 = tu.build_tree(dendropy, s1, tns, members, lambda: 1.0, rooted)
                        t2 = tu.build_tree(dendropy, s2, tns, members[rot:] + members[:rot], lambda: 2.0, rooted)
                        check_pair(ctx, dendropy, t1, t2, pending, "exh")
                        count += 1
                if len(pending) >= 1500:
                    flush(ctx, pending)
    flush(ctx, pending)
    ctx.extra["exhaustive_small_scope"] = "%d ordered pairs of all shapes <= 5 leaves x rotations of the labelling x rooting" % count


def replay(ctx, rec):
    dendropy = __import__("dendropy")
    c = rec["replay"]
    pending = []
    if "rng_state" in c:
        st = c["rng_state"]
        ctx.rng.setstate((st[0], tuple(st[1]), st[2]))
        ctx.tier = c.get("tier", ctx.tier)
        try:
            run_op(ctx, dendropy, c["op"], pending)
        except Exception as e:
            ctx.fail("exception", "%s raised %s: %s" % (c["op"], type(e).__name__, str(e)[:200]), c)
    elif c.get("op") in ("dist", "exh", "symmetry", "redraw", "redraw3", "stale"):
        t1, t2 = trees_of_case(dendropy, c)
        m12, _, _ = check_pair(ctx, dendropy, t1, t2, pending)
        m21, _, _ = check_pair(ctx, dendropy, t2, t1, pending)
        for k in ("wrf", "euclid"):
            if (m12[k] == "E") != (m21[k] == "E"):
                ctx.fail("definedness", "%s refused for one argument order only" % k, c)
        if c["op"] == "redraw" and (m12["rf"] != 0 or (m12["wrf"] != "E" and not close(m12["wrf"], 0.0))):
            ctx.fail("representation", "distance between a tree and its re-drawing: RF %s wRF %s" % (m12["rf"], m12["wrf"]), c)
    flush(ctx, pending)
