"""C16 - parsimony scores are minimal change counts and pure functions of tree and matrix."""
import itertools

import treeutil as tu
from common import time_limit

ID = "C16"
GEN_DEPENDS = ["C16Alphabets", "C16Kernels"]
RULE = ("random fully bifurcating trees (2-9 leaves quick, up to 14 thorough; random taxon->leaf assignment, namespaces larger than the "
        "leaf set) x histories of 1-5 scoring calls on one tree object and its clones (Tree.clone(1), Tree(tree)), each call with its own "
        "matrix (DNA/RNA/nucleotide with IUPAC ambiguity codes, protein with B/Z/X, 10-state standard; 20%: matrices whose columns have their "
        "own state alphabets - fixed ones and custom 2-5 state alphabets with/without gap and missing-data states, in which '?', '-', 'X' "
        "and the digits denote different sets (and indexes) in different columns; 30% of the custom columns use NESTED alphabets - "
        "ambiguous / polymorphic states defined through other multistate symbols 2-4 levels deep (member_states= / nested NeXML members), "
        "cells using the deepest codes most, the oracle and the model get the harness's own recursive expansion to fundamental states - "
        "built through the API (several state_alphabets) or read "
        "from NeXML with one <states> per <char>; '?', '-', lower case and synonyms; 1-6 characters), "
        "gaps_as_missing both ways, weights None or 0..3 per character (12% of weighted calls: a list that is longer or shorter than the "
        "matrix), entry point parsimony_score / treescore.parsimony_score / "
        "fitch_down_pass with and without node attributes; matrix objects that live across calls and are edited in place between them "
        "(single cells via seq[i]=/set_at, whole sequences of equal length) and re-scored on the same, cloned and fresh tree objects in both "
        "gap modes, judged on their current content; re-rooted (every sequence of root slides) and child-shuffled copies; a malformed "
        "stream (polytomies, unary nodes, leaves whose taxon has no row) for the correspondence only. Thorough adds every ordered binary shape "
        "<= 6 leaves x every 2-state column (4 characters per matrix, all matrices scored in sequence on one tree object) x every root position. "
        "22% extended histories (xhist): tree objects of SEVERAL trees over one namespace (fresh, cloned, re-rooted, shuffled, a different random "
        "tree), taxon_state_sets_map objects built once (from a literal matrix or from the current content of a matrix object that is edited "
        "afterwards) and passed to 3-9 direct fitch_down_pass calls with state_sets_attr_name None / default (passed or omitted) / two custom "
        "names, one shared weight list and one shared score_by_character_list object (or None), interleaved with parsimony_score / "
        "treescore.parsimony_score, in-place matrix edits, fitch_up_pass (with and without a map) and dumps of the node attributes; oracle per "
        "call: the independent minimum AND the caller's map and weight list deep-equal to a snapshot taken before the call. "
        "Extended histories also make fitch_down_pass calls WITHOUT a map (leaves must carry their sets; every attribute setting) and "
        "parsimony_score calls with a matrix of another TaxonNamespace (must be refused). Every run opens with the same fixed cases: seven trees with "
        "a polytomy at the root (six basal trifurcations, one root of degree four) x every two-state column x weights 2,3,5,7,11,13, all matrices of a "
        "shape scored in sequence on one tree object through every entry point. "
        "Non-trivial = at least two scoring calls on one tree object (or its clones), or a re-rooted/shuffled copy")
MODELLED_NOT_VERIFIED = [
    "C16: Model/C16.lean (stepNode/foldKids/pairLoop/runNodes, attribute store) is hand-written from parsimony.fitch_down_pass / "
    "parsimony_score; tied to the code by the per-call comparison of score and per-character list over histories",
    "C16: the indexing rules of StateAlphabet (which index a symbol gets, gap/no-data handling, case variants) are re-stated in "
    "harness/gen/c16alphabets.py, only the symbol tables are extracted from charstatemodel.py; the rules are tied to the code by the `sets` "
    "comparison of every generated row with the real taxon_state_sets_map; custom per-column alphabets are described to the model by "
    "their definition (fundamental symbols, ambiguity members, gap/missing flag) and follow the same rules (Model customSet)",
    "C16: the per-character set kernels of fitch_down_pass (intersection/union choice, the +1, the per-character increment, wt=1) and of "
    "fitch_up_pass (final set) are REGENERATED from the source (Gen/C16Kernels, harness/gen/c16kernels.py) and proved equal to the model's "
    "comb / finalSet (comb_eq_source, bychar_eq_source, unit_weight_eq_source, finalSet_eq_source); the loops around them (zip, fold over "
    "children, post-/pre-order, attribute store per attribute name, no store for state_sets_attr_name=None, partial writes before an exception) are "
    "hand-written in Model/C16.lean + Model/C16Ext.lean and tied by comparison of scores, per-character lists AND node attributes after down "
    "and up passes (dumps, up to a renumbering of each character's states)",
    "C16: fitch_up_pass is outside the statement: its model (runUp/upPass) is compared with the code (dumps of the node attributes), its kernel "
    "is tie A, and up_pass_exact proves the model exact on fully bifurcating trees with a binary root; the refusal of a non-binary internal "
    "node below the root is upStep_refuses_nonbinary, a root of any degree is skipped (upStep_skips_root); WHICH sets the up pass leaves below a "
    "basal trifurcation is compared only. Weights are natural numbers (negative weights have no minimum reading); "
    "post-order iteration is taken from C15; which exception class a call outside the statement raises is not compared (only that it raises); "
    "fitch_down_pass with taxon_state_sets_map=None (Model stepNodeN/parsimonyNP; weights=None there is compared only, nomap_after_score is for a "
    "given weight list) and the TaxonNamespaceIdentityError refusal of parsimony_score (scoreForeign) are modelled and compared",
]
EXPLANATION = ("Theorems about the functions the driver runs (parsimony = runNodes/stepNode/foldKids/pairLoop/shortHit over the post-order with "
               "the node-attribute store; reroot; runHist; rowOfSymbols). Refinement for EVERY input: result_independent_of_attrs (any tree "
               "with distinct nodes - polytomies, unary nodes, missing rows, any weight list: exception or (score, per-character list) does "
               "not depend on stored attributes; via run_T: the machine equals the plain recursion accT) and history_eq_fresh (every call of "
               "every history, failing calls included, returns what a fresh copy returns). For fully bifurcating trees with a binary root "
               "or a basal trifurcation (ViewU): score_spec, score_minimal (minimum over all families of assignments), "
               "score_minimal_unrooted (assignments of the trifurcating tree itself), bychar_sum, history_independent. "
               "child_order_independent; root_position_independent (every sequence of root slides) + reroot_reaches_every_edge (every edge is "
               "reached). table_ok / table_nonzero / rowOfSymbols_nonzero: the generated symbol tables never denote an empty set, "
               "gaps-as-missing removes exactly the gap state, every driver-built matrix satisfies the theorems' RectM "
               "(colSymbolSet_nonzero / rowOfCols_nonzero / matrixOf_rectM: also for custom per-column alphabets). Polytomies: "
               "polytomy_score_spec / polytomy_score_minimal (the fold over extra children is Fitch on the ladder resolution, any tree "
               "without unary nodes). Weights: score_linear_add, score_linear_smul, score_unweighted. Gaps: gaps_as_missing_monotone, "
               "table_gap_ok, symbolSet_gapRel, gaps_flag_monotone (gaps_as_missing=True never scores higher, end to end through matrixOf). "
               "Driver inputs: driver_input_in_domain (parseTree ids distinct, matrixOf matrices satisfy RectM), gaps_flag_monotone_driver "
               "(no matrix-shape hypotheses left), weights_longer + WOk relaxed to 'at least one weight per character', "
               "reroot_copy_independent (renumbered/shuffled copies of re-rooted trees, as the harness scores them), "
               "unrooted_child_order_independent. Ambiguity codes: table_members_ok / table_members_complete (every multi-state symbol of the regenerated tables denotes "
               "exactly the union of its members' sets, in both gap modes; fundamental symbols are the singletons in index order). Matrix "
               "objects: editCell_content, editSeq_content, mat_history_eq_fresh (histories with in-place matrix edits: every call = fresh "
               "tree + freshly built matrix of the current content). In-place matrix "
               "edits are made by the model on its own matrix objects (mat_history_eq_fresh) and compared per call; polytomy_score_minimal is the minimum of the "
               "ladder resolution, a lower bound of the polytomy's own minimum. "
               "Extended histories (Model/C16Ext: runXHist/stepX, driver op xhist): xstep_score_eq_fresh (in ANY state - whatever attributes under "
               "whatever attribute names were left by down passes, up passes, failing calls or clone, whatever matrix and map objects exist - a "
               "scoring call with state_sets_attr_name None/default/custom observes what a fresh copy of that object's tree observes with the "
               "matrix the source denotes: literal, current content of a matrix object, or the content a taxon_state_sets_map object was built "
               "from), xstep_inputs_untouched (no pass changes a matrix or map object; a call without attribute store changes nothing). Tie A: "
               "comb_eq_source, bychar_eq_source, unit_weight_eq_source, finalSet_eq_source. Up pass: root_set_mpr (the root's down-pass set = the root "
               "states of most-parsimonious reconstructions), up_pass_mpr (per character: after the up pass every internal node's set = exactly the states it "
               "takes in some most-parsimonious reconstruction, for the recursion finAt over the driver's kernel finalSet), up_pass_machine "
               "(down_stored/up_stored: the machines the driver runs - parsimonyP then upPass on the attribute store, any earlier attributes - "
               "leave on every node the row whose character c is finalAt (col c bv)), up_pass_exact (both combined: all characters, every "
               "internal node, on View trees with distinct nodes). Entry-point glue: xstep_foreign_namespace_refused (matrix of another taxon namespace: "
               "refused, nothing read or written), xstep_nomap_nostore_refused (no map and no attribute store: refused on every tree), "
               "nomap_after_score (a pass without a map on the store a scoring call left returns that call's score, given weights, and rewrites "
               "nothing), upStep_refuses_nonbinary / upStep_skips_root. polytomy_score_spec/_minimal carry the weights (wt w c * Fitch count of the "
               "ladder resolution). No _partial theorem. "
               "Hypotheses: distinct node identities; for the value theorems ViewU, RectM (rows of one length), one weight per character.")

# ------------------------------------------------------------------ independent state-set semantics (the oracle's own tables)
IUPAC = {"A": "A", "C": "C", "G": "G", "T": "T", "R": "AG", "Y": "CT", "M": "AC", "W": "AT", "S": "CG", "K": "GT",
         "V": "ACG", "H": "ACT", "D": "AGT", "B": "CGT", "N": "ACGT", "X": "ACGT"}
ORACLE_ALPHABETS = {}


def _mk_oracle_tables():
    dna = {}
    for k, v in IUPAC.items():
        dna[k] = frozenset(v)
        if k != "X":
            dna[k.lower()] = frozenset(v)
    ORACLE_ALPHABETS["dna"] = ("ACGT", dna)
    rna = {k.replace("T", "U"): frozenset(c.replace("T", "U") for c in v) for k, v in dna.items() if k not in ("T", "t")}
    rna["U"] = frozenset("U")
    rna["u"] = frozenset("U")
    ORACLE_ALPHABETS["rna"] = ("ACGU", rna)
    nuc = {"A": "A", "C": "C", "G": "G", "T": "T", "U": "U", "R": "AG", "Y": "CTU", "M": "AC", "W": "ATU", "S": "CG", "K": "GTU",
           "V": "ACG", "H": "ACTU", "D": "AGTU", "B": "CGTU", "N": "ACGTU"}
    nt = {}
    for k, v in nuc.items():
        nt[k] = frozenset(v)
        nt[k.lower()] = frozenset(v)
    nt["X"] = frozenset("ACGTU")
    ORACLE_ALPHABETS["nucleotide"] = ("ACGTU", nt)
    aa = "ACDEFGHIKLMNPQRSTVWY*"
    prot = {}
    for c in aa:
        prot[c] = frozenset(c)
        prot[c.lower()] = frozenset(c)
    for k, v in (("B", "DN"), ("Z", "EQ"), ("X", aa)):
        prot[k] = frozenset(v)
        prot[k.lower()] = frozenset(v)
    ORACLE_ALPHABETS["protein"] = (aa, prot)
    std = {c: frozenset(c) for c in "0123456789"}
    ORACLE_ALPHABETS["standard"] = ("0123456789", std)


_mk_oracle_tables()
GAP = "-gap-"


def col_descs(alph, nchar):
    """per-column alphabet descriptors of a matrix: `cols:<d>;<d>;...` (one per column) or one fixed alphabet for all"""
    if alph.startswith("cols:"):
        return alph[5:].split(";")
    return [alph] * nchar


def col_info(desc):
    """(fundamental symbols, {symbol: frozenset of state names}, has gap + missing-data states) of one column's alphabet.
    Custom alphabets are written `cg=<fund>~<amb>...` (with gap and missing-data states) or `cn=...` (without); every <amb> is an
    ambiguity symbol followed by its members."""
    if desc in ORACLE_ALPHABETS:
        fund, tab = ORACLE_ALPHABETS[desc]
        return fund, tab, True
    gm = desc.startswith("cg=") or desc.startswith("ng=")
    parts = desc[3:].split("~")
    fund = parts[0]
    tab = {c: frozenset(c) for c in fund}
    for a in parts[1:]:
        if desc[0] == "n":
            # NESTED alphabet (`ng=` / `nn=`): a member may itself be an earlier multistate symbol; the oracle's own recursive expansion
            # down to the fundamental states (earlier entries are already fully expanded)
            out = frozenset()
            for mbr in a[1:]:
                out |= tab[mbr]
            tab[a[0]] = out
        else:
            tab[a[0]] = frozenset(a[1:])
    return fund, tab, gm


def flat_desc(desc):
    """the description handed to the model: a nested alphabet written out with fully expanded member lists (harness-side expansion; the
    code is built from the NESTED definition)"""
    if not (desc.startswith("ng=") or desc.startswith("nn=")):
        return desc
    fund, tab, gm = col_info(desc)
    return ("cg=" if gm else "cn=") + "~".join([fund] + [a[0] + "".join(c for c in fund if c in tab[a[0]]) for a in desc[3:].split("~")[1:]])


def flat_alph(alph):
    if alph.startswith("cols:"):
        return "cols:" + ";".join(flat_desc(d) for d in alph[5:].split(";"))
    return alph


def oracle_set(desc, gaps_as_missing, sym):
    """state set denoted by a symbol IN THE ALPHABET OF ITS COLUMN, as a frozenset of state *names* (independent of any index
    numbering)"""
    fund, tab, gm = col_info(desc)
    if gm and sym == "?":
        return frozenset(fund) if gaps_as_missing else frozenset(fund) | {GAP}
    if gm and sym == "-":
        return frozenset(fund) if gaps_as_missing else frozenset([GAP])
    return tab[sym]


# ------------------------------------------------------------------ token-level trees (harness side, independent of DendroPy)
def toks_struct(toks):
    """(root, children: {id: [ids]}, taxon: {id: bit or None})"""
    n = int(toks[0])
    par = [int(x) for x in toks[1:1 + n]]
    tax = toks[1 + n:1 + 2 * n]
    kids = {i: [] for i in range(n)}
    root = None
    for i in range(n):
        if par[i] < 0:
            root = i
        else:
            kids[par[i]].append(i)
    return root, kids, {i: (None if tax[i] == "-" else int(tax[i])) for i in range(n)}


def nested(toks):
    root, kids, tax = toks_struct(toks)

    def go(i):
        return (i, tax[i], [go(c) for c in kids[i]])
    return go(root)


def nested_tokens(nd):
    """pre-order renumbering -> protocol tokens (lengths None, no labels)"""
    par, tax = [], []

    def go(x, p):
        me = len(par)
        par.append(p)
        tax.append("-" if x[1] is None else str(x[1]))
        for c in x[2]:
            go(c, me)
    go(nd, -1)
    n = len(par)
    return [str(n)] + [str(p) for p in par] + tax + ["N"] * n + ["-"] * n


def render_nested(nd):
    return "(%d %s N%s)" % (nd[0], "-" if nd[1] is None else nd[1], "".join(" " + render_nested(c) for c in nd[2]))


def root_step(step, t):
    """same definition as Lean `rootStep`"""
    r, x, cs = t
    if len(cs) != 2:
        return t
    a, b = cs
    if step in ("LL", "LR") and len(a[2]) == 2:
        a1, a2 = a[2]
        if step == "LL":
            return (r, x, [a1, (a[0], a[1], [a2, b])])
        return (r, x, [(a[0], a[1], [a1, b]), a2])
    if step in ("RL", "RR") and len(b[2]) == 2:
        b1, b2 = b[2]
        if step == "RL":
            return (r, x, [(b[0], b[1], [a, b2]), b1])
        return (r, x, [(b[0], b[1], [a, b1]), b2])
    return t


def shuffle_nested(rng, nd):
    cs = [shuffle_nested(rng, c) for c in nd[2]]
    rng.shuffle(cs)
    return (nd[0], nd[1], cs)


def leaf_bits(nd):
    if not nd[2]:
        return frozenset([nd[1]])
    out = frozenset()
    for c in nd[2]:
        out |= leaf_bits(c)
    return out


def unrooted_splits(nd):
    allb = leaf_bits(nd)
    out = set()

    def go(x):
        b = leaf_bits(x)
        out.add(frozenset([b, allb - b]))
        for c in x[2]:
            go(c)
    for c in nd[2]:
        go(c)
    return out


def is_binary(nd):
    return (not nd[2]) or (len(nd[2]) == 2 and all(is_binary(c) for c in nd[2]))


# ------------------------------------------------------------------ the property oracle: minimum number of changes
def min_changes_bruteforce(nd, leafsets):
    """literal minimum over all assignments of states to internal nodes (each leaf takes the best member of its set),
    by exhaustive search with cut-off at the best value so far.  Two states that are members of exactly the same
    leaf sets are interchangeable (renaming one into the other never adds a change), so one representative per
    membership pattern is enumerated, plus one state that is in no leaf set."""
    member = {}
    for leaf, s in leafsets.items():
        for st in s:
            member.setdefault(st, set()).add(leaf)
    reps = {}
    for st in sorted(member, key=str):
        reps.setdefault(frozenset(member[st]), st)
    states = list(reps.values()) + ["-other-"]
    internals = []   # pre-order: (index of parent internal or None, [leaf child ids])

    def go(x, parent):
        if not x[2]:
            return
        me = len(internals)
        internals.append((parent, [c[0] for c in x[2] if not c[2]]))
        for c in x[2]:
            go(c, me)
    go(nd, None)
    if not internals:
        return 0
    leafcost = [[sum(1 for l in leaves if st not in leafsets[l]) for st in states] for _, leaves in internals]
    ns = len(states)
    best = [None]
    assign = [0] * len(internals)

    def rec(i, cost):
        if best[0] is not None and cost >= best[0]:
            return
        if i == len(internals):
            best[0] = cost
            return
        par = internals[i][0]
        lc = leafcost[i]
        for k in range(ns):
            assign[i] = k
            rec(i + 1, cost + lc[k] + (1 if (par is not None and assign[par] != k) else 0))
    rec(0, 0)
    return best[0]


def min_changes_sankoff(nd, leafsets):
    """cost-per-state dynamic programme (Sankoff), not Fitch's set algorithm"""
    occurring = set()
    for s in leafsets.values():
        occurring |= s
    states = sorted(occurring, key=str) + ["-other-"]

    def go(x):
        if not x[2]:
            return {s: (0 if s in leafsets[x[0]] else None) for s in states}
        tabs = [go(c) for c in x[2]]
        out = {}
        for s in states:
            tot = 0
            for tb in tabs:
                best = None
                for s2, v in tb.items():
                    if v is None:
                        continue
                    cand = v + (0 if s2 == s else 1)
                    if best is None or cand < best:
                        best = cand
                tot += best
            out[s] = tot
        return out
    root = go(nd)
    return min(v for v in root.values() if v is not None)


def expected(nd, call):
    """oracle value of one scoring call: (score, per-character list) or None when the statement makes no claim
    (tree not fully bifurcating, a leaf without a row)"""
    if not nd[2] or not (is_binary(nd) or (len(nd[2]) == 3 and all(is_binary(c) for c in nd[2]))):
        return None      # (a basal trifurcation is the usual form of an unrooted fully bifurcating tree: inside the statement)
    rows = {bit: syms for bit, syms in call["rows"]}
    leaves = []

    def go(x):
        if not x[2]:
            leaves.append(x)
        for c in x[2]:
            go(c)
    go(nd)
    if any(l[1] is None or l[1] not in rows for l in leaves):
        return None
    nchar = len(call["rows"][0][1])
    if call["weights"] is not None and len(call["weights"]) < nchar:
        return None      # fewer weights than characters: no reading of "the given weights" (the code raises when it needs one)
    ws = (call["weights"] or [1] * nchar)[:nchar]
    descs = col_descs(call["alph"], nchar)
    per = []
    for c in range(nchar):
        ls = {l[0]: oracle_set(descs[c], call["gaps"], rows[l[1]][c]) for l in leaves}
        if len(leaves) <= 6:
            k = min_changes_bruteforce(nd, ls)
            if len(leaves) <= 5 and min_changes_sankoff(nd, ls) != k:
                raise RuntimeError("oracle self-check: brute force and Sankoff differ")
        else:
            k = min_changes_sankoff(nd, ls)
        per.append(ws[c] * k)
    return sum(per), per


# ------------------------------------------------------------------ implementation runner
ALPH_CLASS = {"dna": "DnaCharacterMatrix", "rna": "RnaCharacterMatrix", "protein": "ProteinCharacterMatrix",
              "nucleotide": "NucleotideCharacterMatrix", "standard": "StandardCharacterMatrix"}


def make_alphabet(dendropy, desc):
    from dendropy.datamodel import charstatemodel as csm
    fixed = {"dna": "DNA_STATE_ALPHABET", "rna": "RNA_STATE_ALPHABET", "nucleotide": "NUCLEOTIDE_STATE_ALPHABET",
             "protein": "PROTEIN_STATE_ALPHABET"}
    if desc in fixed:
        return getattr(csm, fixed[desc])
    if desc == "standard":
        return dendropy.new_standard_state_alphabet()
    fund, tab, gm = col_info(desc)
    amb = [(a[0], a[1:]) for a in desc[3:].split("~")[1:]]
    if desc[0] == "n":
        sa = dendropy.StateAlphabet(fundamental_states=fund, no_data_symbol="?" if gm else None, gap_symbol="-" if gm else None)
        for i, (sym, members) in enumerate(amb):
            mk = sa.new_ambiguous_state if i % 2 == 0 else sa.new_polymorphic_state
            mk(symbol=sym, member_states=[sa[m] for m in members])         # members may be multistates defined before: nesting
        sa.compile_lookup_mappings()
        return sa
    return dendropy.StateAlphabet(fundamental_states=fund, ambiguous_states=amb, no_data_symbol="?" if gm else None,
                                  gap_symbol="-" if gm else None)


def nexml_text(call, descs):
    """a NeXML standard matrix in which every <char> refers to the <states> definition of its own alphabet"""
    out = ['<?xml version="1.0" encoding="ISO-8859-1"?>',
           '<nex:nexml version="0.9" xmlns="http://www.nexml.org/2009" xmlns:xsi="http://www.w3.org/2001/XMLSchema-instance" '
           'xmlns:nex="http://www.nexml.org/2009">', '<otus id="tax">']
    for bit, _ in call["rows"]:
        out.append('<otu id="o%d" label="t%d"/>' % (bit, bit))
    out.append('</otus><characters id="chars" otus="tax" xsi:type="nex:StandardCells"><format>')
    share = call.get("share", True)
    sid = {}        # column -> states id ; (states id, symbol) -> element id
    ids = {}
    defined = {}
    for c, desc in enumerate(descs):
        if share and desc in defined:
            sid[c] = defined[desc]
            continue
        k = "a%d" % c
        sid[c] = defined[desc] = k
        fund, tab, gm = col_info(desc)
        out.append('<states id="%s">' % k)
        for i, ch in enumerate(fund):
            ids[(k, ch)] = "%ss%d" % (k, i)
            out.append('<state id="%s" symbol="%s"/>' % (ids[(k, ch)], ch))
        for j, a in enumerate(desc[3:].split("~")[1:]):
            ids[(k, a[0])] = "%su%d" % (k, j)
            out.append('<uncertain_state_set id="%s" symbol="%s">%s</uncertain_state_set>' % (
                ids[(k, a[0])], a[0], "".join('<member state="%s"/>' % ids[(k, m)] for m in a[1:])))
        out.append('</states>')
    for c in range(len(descs)):
        out.append('<char id="c%d" states="%s"/>' % (c, sid[c]))
    out.append('</format><matrix>')
    for bit, syms in call["rows"]:
        out.append('<row id="r%d" otu="o%d">%s</row>' % (bit, bit, "".join(
            '<cell char="c%d" state="%s"/>' % (c, ids[(sid[c], ch)]) for c, ch in enumerate(syms))))
    out.append('</matrix></characters></nex:nexml>')
    return "\n".join(out)


def column_alphabets(m, taxon):
    """the state alphabet object each column's cell belongs to (for in-place edits)"""
    out = []
    for cell in m[taxon]:
        out.append([sa for sa in m.state_alphabets if any(st is cell for st in sa.state_iter())][0])
    return out


def build_matrix(dendropy, tns, call):
    alph = call["alph"]
    if alph.startswith("cols:"):
        nchar = len(call["rows"][0][1])
        descs = col_descs(alph, nchar)
        if call.get("route") == "nexml":
            return dendropy.StandardCharacterMatrix.get(data=nexml_text(call, descs), schema="nexml", taxon_namespace=tns)
        made = {}
        sas = []
        for d in descs:
            if not (call.get("share", True) and d in made):
                made[d] = make_alphabet(dendropy, d)
            sas.append(made[d])
        m = dendropy.StandardCharacterMatrix(taxon_namespace=tns, default_state_alphabet=None)
        for sa in sas:
            if not any(sa is x for x in m.state_alphabets):
                m.state_alphabets.append(sa)
        for bit, syms in call["rows"]:
            m[tns[bit]] = [sas[c][ch] for c, ch in enumerate(syms)]
        return m
    d = {}
    for bit, syms in call["rows"]:
        d[tns[bit]] = syms
    cls = getattr(dendropy, ALPH_CLASS[alph])
    kw = {}
    if alph == "standard":
        kw["default_state_alphabet"] = dendropy.new_standard_state_alphabet()
    return cls.from_dict(d, taxon_namespace=tns, **kw)


def exc_name(e):
    """every refusal is one class: which exception a call outside the statement's domain raises (unary node, leaf without a
    row, weight list too short) is an accident of the code, not part of the property"""
    return "Error"


def canon_model(text):
    return " | ".join("Error" if r.strip() in ("KeyError", "ValueError", "IndexError", "AttributeError") else r.strip()
                      for r in text.split("|"))


def apply_edit(dendropy, tns, m, op):
    """edit a matrix object IN PLACE (dimensions unchanged)"""
    taxon = tns[op["bit"]]
    mixed = len(m.state_alphabets) != 1
    if op["how"] == "seq":
        if mixed:
            sas = column_alphabets(m, taxon)
            m[taxon] = [sas[c][ch] for c, ch in enumerate(op["syms"])]
        else:
            m[taxon] = m.coerce_values(op["syms"])           # whole sequence replaced by one of equal length
    else:
        state = (column_alphabets(m, taxon)[op["idx"]] if mixed else m.default_state_alphabet)[op["sym"]]
        if op["how"] == "set_at":
            m[taxon].set_at(op["idx"], state)
        else:
            m[taxon][op["idx"]] = state


def impl_call(dendropy, tree, tns, call, m=None):
    """one scoring call on the real code -> canonical text (m: an existing matrix object to score, else built from call)"""
    from dendropy.model import parsimony
    from dendropy.calculate import treescore
    if m is None:
        m = build_matrix(dendropy, tns, call)
    ws = call["weights"]
    by = []
    try:
        via = call.get("via", "parsimony")
        if via == "parsimony":
            s = parsimony.parsimony_score(tree, m, gaps_as_missing=call["gaps"], weights=ws, score_by_character_list=by)
        elif via == "treescore":
            s = treescore.parsimony_score(tree, m, gaps_as_missing=call["gaps"], weights=ws, score_by_character_list=by)
        else:
            tsm = m.taxon_state_sets_map(gaps_as_missing=call["gaps"])
            kw = {} if via == "down" else {"state_sets_attr_name": None if via == "down_noattr" else "c16_sets"}
            s = parsimony.fitch_down_pass(tree.postorder_node_iter(), taxon_state_sets_map=tsm, weights=ws,
                                          score_by_character_list=by, **kw)
    except Exception as e:
        if not is_library_exception(e):
            raise          # a slip of the harness must end as an infrastructure error, not as a verdict about the library
        return exc_name(e), m
    return "ok %d %s" % (s, ",".join(str(x) for x in by) if by else "-"), m


def fmt_expected(ex):
    return "ok %d %s" % (ex[0], ",".join(str(x) for x in ex[1]) if ex[1] else "-")


def op_line(op):
    if op["op"] == "C":
        return "C %d" % op["obj"]
    if op["op"] == "E":
        return "E %s %s %s %s %s" % (op["mat"], op["how"], op["bit"], op.get("idx", "-"), op.get("sym", op.get("syms")))
    w = "-" if op["weights"] is None else (",".join(str(x) for x in op["weights"]) or ".")
    rows = " ".join("%d =%s" % (bit, syms) for bit, syms in op["rows"])
    return "S %d %s %d %s %s" % (op["obj"], flat_alph(op["alph"]), 1 if op["gaps"] else 0, w, rows)


def mask_of(indexes):
    m = 0
    for i in indexes:
        m |= 1 << i
    return m


def run_case(ctx, dendropy, case, pending):
    """case = {"tree": toks, "base": toks or None, "how": str, "ops": [...]}"""
    toks = case["tree"]
    nd = nested(toks)
    base = nested(case["base"]) if case.get("base") else None
    if base is not None and (unrooted_splits(base) != unrooted_splits(nd)):
        raise RuntimeError("harness: derived tree is not the same unrooted tree as its base")
    bits = [x for x in toks_struct(toks)[2].values() if x is not None]
    for op in case["ops"]:
        if op["op"] == "S" and op.get("rows"):
            bits += [b for b, _ in op["rows"]]
    tns = dendropy.TaxonNamespace(["t%d" % i for i in range(max(bits) + 1 if bits else 1)])
    tree, _ids = tu.tree_from_tokens(dendropy, toks, tns=tns)
    objs = [tree]
    calls_on = [0]          # scoring calls already made on each object (clones inherit)
    mats = {}               # matrix objects that live across calls: key -> {"m": object, "alph", "rows" (current content), "scored", "edited"}
    results = []
    resolved = []           # the ops as the oracle sees them: every scoring call with the CURRENT content of its matrix
    model_ops = []          # the ops as the model sees them: matrix objects are created, edited in place and scored by the model itself
    midx = {}               # harness matrix key -> index of the model's matrix object
    nscore = 0
    nedit = 0
    sets_lines = []
    for k, op in enumerate(case["ops"]):
        if op["op"] == "C":
            src = objs[op["obj"]]
            how = op.get("how", "clone")
            if how == "fresh":
                objs.append(tu.tree_from_tokens(dendropy, toks, tns=tns)[0])     # another tree object, never scored
                calls_on.append(0)
            else:
                objs.append(src.clone(1) if how == "clone" else dendropy.Tree(src))
                calls_on.append(calls_on[op["obj"]])
            results.append("c")
            resolved.append(op)
            model_ops.append(op_line(op))
            continue
        if op["op"] == "E":
            ent = mats[op["mat"]]
            apply_edit(dendropy, tns, ent["m"], op)
            for row in ent["rows"]:
                if row[0] == op["bit"]:
                    if op["how"] == "seq":
                        row[1] = op["syms"]
                    else:
                        row[1] = row[1][:op["idx"]] + op["sym"] + row[1][op["idx"] + 1:]
            ent["edited"] += 1
            nedit += 1
            # the model makes the same edit on its own matrix object (and tracks the content itself)
            if op["how"] == "seq":
                model_ops.append("E %d seq %d =%s" % (midx[op["mat"]], op["bit"], op["syms"]))
            else:
                model_ops.append("E %d cell %d %d =%s" % (midx[op["mat"]], op["bit"], op["idx"], op["sym"]))
            results.append("m")
            continue
        nscore += 1
        obj = objs[op["obj"]]
        ent = None
        if op.get("mat") is not None:
            if op.get("rows"):
                mats[op["mat"]] = {"m": build_matrix(dendropy, tns, op), "alph": op["alph"],
                                   "rows": [list(r) for r in op["rows"]], "scored": 0, "edited": 0}
                midx.setdefault(op["mat"], len(midx))
                model_ops.append("M %d %s %s" % (midx[op["mat"]], flat_alph(op["alph"]), " ".join("%d =%s" % (b, sy) for b, sy in op["rows"])))
                results.append("m")
            ent = mats[op["mat"]]
            w = "-" if op["weights"] is None else (",".join(str(x) for x in op["weights"]) or ".")
            model_ops.append("SM %d %d %d %s" % (op["obj"], midx[op["mat"]], 1 if op["gaps"] else 0, w))
            op = dict(op, alph=ent["alph"], rows=[list(r) for r in ent["rows"]])     # for the oracle: the CURRENT content (harness's own tracking)
        else:
            model_ops.append(op_line(op))
        resolved.append(op)
        with time_limit(30):
            got, m = impl_call(dendropy, obj, tns, op, ent["m"] if ent else None)
        results.append(got)
        ctx.count("result " + got.split()[0])
        if op["alph"].startswith("cols:"):
            ctx.count("per-column alphabets, %s route" % op.get("route", "api"))
        # --- oracle: the statement evaluated on this call, on the CURRENT content of the matrix passed in
        ex = expected(nd, op)
        if base is not None:
            exb = expected(base, op)
            if ex is not None and exb is not None and ex[0] != exb[0]:
                raise RuntimeError("oracle self-check: minimum differs between a tree and its re-rooted/shuffled copy")
        if ex is not None:
            want = fmt_expected(ex)
            if got != want:
                kind = "minimal"
                what = "call %d (%s, gaps_as_missing=%s, weights=%s) returned [%s]; the minimum number of changes gives [%s]" % (
                    k, op["alph"], op["gaps"], op["weights"], got, want)
                decided = False
                if ent is not None and ent["scored"] > 0:
                    # same tree object state is not reproducible; a freshly built identical matrix on a fresh copy of the tree
                    ftree, _ = tu.tree_from_tokens(dendropy, toks, tns=tns)
                    fresh, _ = impl_call(dendropy, ftree, tns, op)
                    f2tree, _ = tu.tree_from_tokens(dendropy, toks, tns=tns)
                    same_obj, _ = impl_call(dendropy, f2tree, tns, op, ent["m"])
                    if fresh != same_obj:
                        kind = "matrix_history"
                        decided = True
                        what += ("; the matrix object was scored %d time(s) before and edited in place %d time(s); on a fresh copy of the "
                                 "tree it scores [%s], a freshly built matrix with identical content scores [%s]" % (
                                     ent["scored"], ent["edited"], same_obj, fresh))
                if not decided and calls_on[op["obj"]] > 0:
                    ftree, _ = tu.tree_from_tokens(dendropy, toks, tns=tns)
                    fresh, _ = impl_call(dendropy, ftree, tns, op)
                    if fresh != got:
                        kind = "history"
                        what += "; a fresh copy of the same tree scores [%s] with the same matrix" % fresh
                elif not decided and base is not None:
                    btree, _ = tu.tree_from_tokens(dendropy, case["base"], tns=tns)
                    bgot, _ = impl_call(dendropy, btree, tns, op)
                    if bgot != got:
                        kind = "rooting"
                        what += "; the %s copy of a tree that scores [%s]" % (case.get("how"), bgot)
                if got.startswith("ok "):
                    parts = got.split()
                    by = [] if parts[2] == "-" else [int(x) for x in parts[2].split(",")]
                    if sum(by) != int(parts[1]) and kind == "minimal":
                        kind = "bychar"
                        what += "; the per-character scores add up to %d, the total is %s" % (sum(by), parts[1])
                ctx.fail(kind, what, dict(case, failed_call=k))
        calls_on[op["obj"]] += 1
        if ent is not None:
            ent["scored"] += 1
        # --- the state sets the matrix hands to the down pass (correspondence of the alphabet tables + rules; for a
        #     long-lived matrix object: of its current content)
        if (op["alph"] in ALPH_CLASS or op["alph"].startswith("cols:")) and (len(sets_lines) < 3 or (ent is not None and ent["edited"] and len(sets_lines) < 8)):
            # one COLUMN (one character, hence one alphabet) over all taxa, compared up to a renumbering of that alphabet's
            # state indexes (which index a state gets is the library's business)
            tsm = m.taxon_state_sets_map(gaps_as_missing=op["gaps"])
            nch = len(op["rows"][0][1])
            if nch:
                c = nscore % nch
                desc = col_descs(op["alph"], nch)[c]
                colsyms = "".join(syms[c] for _, syms in op["rows"])
                sets_lines.append(("sets cols:%s %d =%s" % (";".join([flat_desc(desc)] * len(colsyms)), 1 if op["gaps"] else 0, colsyms),
                                   set_shape([tsm[tns[bit]][c] for bit, _ in op["rows"]])))
    nontrivial = nscore >= 2 or base is not None
    ctx.case([toks, case["ops"]], nontrivial, sample=case,
             kind=_kind(case.get("how")) or ("matrix edited in place" if nedit else ("history" if nscore >= 2 else "single")))
    if nedit:
        ctx.count("in-place matrix edits", nedit)
    line = "hist %s | %s" % (" ".join(toks), " | ".join(model_ops))
    pending.append((line, case, " | ".join(results), "hist"))
    for l, want in sets_lines:
        pending.append((l, case, want, "sets"))


def _kind(how):
    if not how:
        return None
    return how.split()[0] + ("+shuffle" if how.startswith("reroot") and "shuffle" in how else "")


def set_shape(sets):
    """a list of state sets up to renaming of the states: sizes and all pairwise intersection sizes"""
    sets = [frozenset(x) for x in sets]
    return " ".join(str(len(a)) for a in sets) + " / " + " ".join(
        str(len(sets[i] & sets[j])) for i in range(len(sets)) for j in range(i + 1, len(sets)))


def shape_of_masks(text):
    if text.strip() in ("-", ""):
        return set_shape([])
    return set_shape([{i for i in range(int(x).bit_length()) if (int(x) >> i) & 1} for x in text.split()])


def is_library_exception(e):
    """raised from inside the library (innermost frame in $DENDROPY_REPO/src), not by a slip of this harness"""
    import os
    import common
    tb = e.__traceback__
    last = None
    while tb is not None:
        last = tb.tb_frame.f_code.co_filename
        tb = tb.tb_next
    return last is not None and os.path.realpath(last).startswith(os.path.realpath(os.path.join(common.REPO, "src")))


def flush(ctx, pending):
    outs = ctx.ask([p[0] for p in pending])
    for (line, case, got, opname), m in zip(pending, outs):
        if m is None:
            continue
        ctx.compared()
        if opname == "hist":
            m = canon_model(m)
        elif opname == "xhist" and m.strip() != "bad-op":
            m = canon_xmodel(m, case)
        elif opname == "sets" and got != "bad-symbol" and m.strip() not in ("bad-symbol", "bad-op"):
            m = shape_of_masks(m)
        if m.strip() != got.strip():
            ctx.disagree(opname, case if opname in ("hist", "xhist") else {"line": line}, got, m)
    del pending[:]


# ------------------------------------------------------------------ generators
def gen_symbols(rng, alph, nleaves, nchar):
    """columns aimed at the mechanism: few base states per column so that intersections and unions both occur,
    sprinkled with ambiguity codes, '?', '-', synonyms and lower case"""
    fund, tab = ORACLE_ALPHABETS[alph]
    amb = [s for s in tab if len(tab[s]) > 1]
    cols = []
    for _ in range(nchar):
        k = rng.choice([1, 2, 2, 2, 3, 3, 4])
        base = rng.sample(list(fund), min(k, len(fund)))
        p_amb, p_gap, p_q = rng.choice([(0, 0, 0), (0.15, 0.1, 0.05), (0.3, 0.25, 0.1), (0.1, 0.5, 0.0)])
        col = []
        for _ in range(nleaves):
            r = rng.random()
            if r < p_amb and amb:
                s = rng.choice(amb)
            elif r < p_amb + p_gap:
                s = "-"
            elif r < p_amb + p_gap + p_q:
                s = "?"
            else:
                s = rng.choice(base)
                if alph != "standard" and rng.random() < 0.1:
                    s = s.lower()
            col.append(s)
        cols.append(col)
    return ["".join(cols[c][i] for c in range(nchar)) for i in range(nleaves)]


def gen_nested_desc(rng):
    """a custom alphabet whose multistate symbols are defined through OTHER multistate symbols, 2-4 levels deep
    (R = two states, P = R + a state, Q = P + a state or P + another pair, ...), with or without gap / missing-data states"""
    k = rng.choice([3, 4, 4, 5, 5, 6])
    fund = "".join(rng.sample("0123456789", k)) if rng.random() < 0.3 else "0123456789"[:k]
    gm = rng.random() < 0.4
    pool = list(fund)
    rng.shuffle(pool)
    names = list("RPQW")
    amb = [names[0] + pool.pop() + pool.pop()]
    depth = rng.choice([2, 3, 3, 4])
    for lvl in range(1, depth):
        members = [names[lvl - 1]]
        if pool:
            members.append(pool.pop())
        elif lvl >= 2:
            members.append(names[lvl - 2])
        else:
            members.append(rng.choice(fund))
        if rng.random() < 0.3:
            members.append(rng.choice(fund))
        rng.shuffle(members)
        amb.append(names[lvl] + "".join(members))
    if rng.random() < 0.3:
        amb.append("Y" + "".join(rng.sample(fund, 2)))                 # an ordinary flat code beside the nested ones
    if not gm and rng.random() < 0.5:
        amb.append("?" + names[depth - 1] + "".join(rng.sample(fund, rng.randint(1, 2))))
    return ("ng=" if gm else "nn=") + "~".join([fund] + amb)


def gen_col_desc(rng):
    r = rng.random()
    if r < 0.2:
        return rng.choice(["dna", "standard", "rna", "protein", "nucleotide"])
    if r < 0.5:
        return gen_nested_desc(rng)
    fund = "0123456789"[:rng.choice([2, 2, 3, 4, 4, 5])]
    if rng.random() < 0.25:
        fund = "".join(rng.sample("0123456789", len(fund)))       # the same symbol gets another index in this column
    gm = rng.random() < 0.5
    amb = []
    if not gm and rng.random() < 0.8:
        amb.append("?" + fund)                                       # NeXML style: '?' is an ordinary uncertain_state_set
    if rng.random() < 0.5:
        amb.append("X" + "".join(sorted(rng.sample(fund, rng.randint(2, len(fund))))))
    if not gm and rng.random() < 0.3:
        amb.append("-" + "".join(rng.sample(fund, rng.randint(1, len(fund)))))
    return ("cg=" if gm else "cn=") + "~".join([fund] + amb)


def gen_mixed_call(rng, bits, obj, extra_bits=()):
    """a matrix whose columns have their own state alphabets; '?', '-', 'X' and the digits denote different sets in different
    columns"""
    nchar = rng.choice([2, 2, 3, 4, 5])
    pool = [gen_col_desc(rng) for _ in range(rng.choice([2, 2, 3]))]
    descs = [rng.choice(pool) for _ in range(nchar)]
    route = "nexml" if all(d.startswith("cn=") or d.startswith("nn=") for d in descs) and rng.random() < 0.6 else "api"
    allbits = list(bits) + list(extra_bits)
    cols = []
    for d in descs:
        fund, tab, gm = col_info(d)
        shared = [x for x in (["?", "-"] if gm else []) + [k for k in tab if len(tab[k]) > 1]]
        if d[0] == "n":
            shared += [k for k in "PQW" if k in tab] * 3                # cells use the deepest codes most
        base = rng.sample(list(fund), min(rng.choice([1, 2, 2, 3]), len(fund)))
        p = rng.choice([0.15, 0.3, 0.5]) if shared else 0
        cols.append([rng.choice(shared) if rng.random() < p else rng.choice(base) for _ in allbits])
    order = list(range(len(allbits)))
    rng.shuffle(order)
    rows = [[allbits[i], "".join(cols[c][i] for c in range(nchar))] for i in order]
    weights = None if rng.random() < 0.6 else [rng.choice([0, 1, 1, 2, 3]) for _ in range(nchar)]
    return {"op": "S", "obj": obj, "alph": "cols:" + ";".join(descs), "gaps": rng.random() < 0.5, "weights": weights, "rows": rows,
            "route": route, "share": rng.random() < 0.7,
            "via": rng.choice(["parsimony", "parsimony", "treescore", "down", "down_noattr"])}


def gen_call(rng, bits, obj, extra_bits=()):
    if rng.random() < 0.2:
        return gen_mixed_call(rng, bits, obj, extra_bits)
    alph = rng.choice(["dna", "dna", "dna", "standard", "standard", "rna", "protein", "nucleotide"])
    nchar = rng.choice([1, 1, 2, 3, 4, 4, 5, 6])
    allbits = list(bits) + list(extra_bits)
    syms = gen_symbols(rng, alph, len(allbits), nchar)
    order = list(range(len(allbits)))
    rng.shuffle(order)
    rows = [[allbits[i], syms[i]] for i in order]
    weights = None if rng.random() < 0.5 else [rng.choice([0, 1, 1, 2, 3]) for _ in range(nchar)]
    if weights is not None and rng.random() < 0.12:
        # a weight list of another length: longer (extra entries unused) or shorter (refused only when a character past its end changes)
        weights = (weights + [rng.randint(0, 3) for _ in range(rng.randint(1, 2))]) if rng.random() < 0.5 else weights[:rng.randrange(nchar)]
    return {"op": "S", "obj": obj, "alph": alph, "gaps": rng.random() < 0.5, "weights": weights, "rows": rows,
            "via": rng.choice(["parsimony", "parsimony", "parsimony", "treescore", "down", "down_noattr", "down_other"])}


def gen_tree(dendropy, rng, nleaves, binary=True, triroot=False):
    extra = rng.randint(0, 3)
    tns = tu.make_namespace(dendropy, nleaves, extra)
    if binary and triroot and nleaves >= 3:
        cuts = sorted(rng.sample(range(1, nleaves), 2))
        shape = [tu.rand_shape(rng, k, p_poly=0.0, p_unary=0.0) for k in (cuts[0], cuts[1] - cuts[0], nleaves - cuts[1])]
    elif binary:
        shape = tu.rand_shape(rng, nleaves, p_poly=0.0, p_unary=0.0)
    else:
        shape = tu.rand_shape(rng, nleaves, p_poly=rng.choice([0.3, 0.6]), p_unary=rng.choice([0.0, 0.0, 0.2]))
    taxa = rng.sample(list(tns), nleaves)
    tree = tu.build_tree(dendropy, shape, tns, taxa, None, rng.choice([True, False, None]))
    toks, _ = tu.encode_tree(tree, with_labels=False)
    bits = [tns.accession_index(t) for t in taxa]
    spare = [tns.accession_index(t) for t in tns if t not in taxa]
    return toks, bits, spare


def gen_history(dendropy, rng, max_leaves):
    n = rng.randint(2, max_leaves)
    toks, bits, spare = gen_tree(dendropy, rng, n, triroot=rng.random() < 0.12)
    ops = []
    nobj = 1
    for _ in range(rng.choice([1, 2, 2, 3, 3, 4, 5])):
        if ops and rng.random() < 0.3:
            ops.append({"op": "C", "obj": rng.randrange(nobj), "how": rng.choice(["clone", "ctor"])})
            nobj += 1
        ops.append(gen_call(rng, bits, rng.randrange(nobj), spare if rng.random() < 0.3 else ()))
    if rng.random() < 0.3 and len(ops) >= 1:
        # the same matrix again, later, on an object that has seen others
        first = [o for o in ops if o["op"] == "S"][0]
        ops.append(dict(first, obj=rng.randrange(nobj)))
    return {"tree": toks, "base": None, "how": None, "ops": ops}


def gen_matrix_history(dendropy, rng, max_leaves):
    """matrix objects that live across scoring calls and are edited IN PLACE between them (single cells, whole sequences of equal
    length), scored again on the same / a cloned / a fresh tree object, in both gap modes"""
    n = rng.randint(2, max_leaves)
    toks, bits, spare = gen_tree(dendropy, rng, n, triroot=rng.random() < 0.1)
    ops = []
    nobj = 1
    content = {}
    nmat = rng.choice([1, 1, 2])
    for k in range(nmat):
        call = gen_call(rng, bits, 0, spare if rng.random() < 0.2 else ())
        call["mat"] = k
        content[k] = {"alph": call["alph"], "rows": {b: sy for b, sy in call["rows"]}, "nchar": len(call["rows"][0][1])}
        ops.append(call)
    for _ in range(rng.randint(1, 5)):
        k = rng.randrange(nmat)
        c = content[k]
        pools = []
        for d in col_descs(c["alph"], c["nchar"]):
            fund, tab, gm = col_info(d)
            pools.append(list(fund) + (["-", "?"] if gm else []) + [x for x in tab if len(tab[x]) > 1][:6])
        for _ in range(rng.choice([0, 1, 1, 1, 2, 3])):
            bit = rng.choice(sorted(c["rows"]))
            if rng.random() < 0.3:
                syms = "".join(rng.choice(pools[i]) for i in range(c["nchar"]))
                ops.append({"op": "E", "mat": k, "how": "seq", "bit": bit, "syms": syms})
                c["rows"][bit] = syms
            else:
                idx = rng.randrange(c["nchar"])
                old = c["rows"][bit][idx]
                pool = pools[idx]
                sym = rng.choice([x for x in pool if x != old] or pool)
                ops.append({"op": "E", "mat": k, "how": rng.choice(["cell", "cell", "set_at"]), "bit": bit, "idx": idx, "sym": sym})
                c["rows"][bit] = c["rows"][bit][:idx] + sym + c["rows"][bit][idx + 1:]
        if rng.random() < 0.35:
            ops.append({"op": "C", "obj": rng.randrange(nobj), "how": rng.choice(["clone", "ctor", "fresh", "fresh"])})
            nobj += 1
        ops.append({"op": "S", "obj": rng.randrange(nobj), "mat": k, "gaps": rng.random() < 0.5,
                    "weights": None if rng.random() < 0.5 else [rng.choice([0, 1, 1, 2, 3]) for _ in range(c["nchar"])],
                    "via": rng.choice(["parsimony", "parsimony", "parsimony", "treescore", "down", "down_noattr"])})
    return {"tree": toks, "base": None, "how": None, "ops": ops}


def gen_equiv(dendropy, rng, max_leaves):
    n = rng.randint(3, max_leaves)
    toks, bits, spare = gen_tree(dendropy, rng, n)
    nd = nested(toks)
    if rng.random() < 0.65:
        steps = [rng.choice(["LL", "LR", "RL", "RR"]) for _ in range(rng.randint(1, 2 * n))]
        d = nd
        for s in steps:
            d = root_step(s, d)
        how = "reroot " + ",".join(steps)
        if rng.random() < 0.3:
            d = shuffle_nested(rng, d)
            how += " + shuffle"
    else:
        d = shuffle_nested(rng, nd)
        how = "shuffle"
    call = gen_call(rng, bits, 0)
    return {"tree": nested_tokens(d), "base": toks, "how": how, "ops": [call]}, (toks, how, d)


def gen_malformed(dendropy, rng, max_leaves):
    n = rng.randint(1, max_leaves)
    toks, bits, spare = gen_tree(dendropy, rng, n, binary=rng.random() < 0.3)
    r = rng.random()
    use = list(bits)
    if r < 0.4 and len(use) > 1:
        use.remove(rng.choice(use))          # a leaf without a row -> KeyError
    ops = [gen_call(rng, use, 0, spare)]
    if rng.random() < 0.5:
        ops.append(gen_call(rng, bits, 0))
    return {"tree": toks, "base": None, "how": "malformed", "ops": ops}


# ------------------------------------------------------------------ extended histories: several trees, caller-supplied objects reused
ATTR_NAME = {"default": "state_sets", "other": "c16_sets", "third": "c16_b"}
ATTR_STORE = {None: "-", "default": "0", "other": "1", "third": "2"}


def rand_nested(rng, bits, triroot=False):
    """a random fully bifurcating tree (nested form, ids filled in later by nested_tokens) over the given leaf bits"""
    def go(bs):
        if len(bs) == 1:
            return (0, bs[0], [])
        k = rng.randint(1, len(bs) - 1)
        return (0, None, [go(bs[:k]), go(bs[k:])])
    bs = list(bits)
    rng.shuffle(bs)
    if triroot and len(bs) >= 3:
        c = sorted(rng.sample(range(1, len(bs)), 2))
        return (0, None, [go(bs[:c[0]]), go(bs[c[0]:c[1]]), go(bs[c[1]:])])
    return go(bs)


def dump_canon(rows):
    """node attributes in pre-order up to a renumbering of each character's states: per node `x` (no attribute) or the number of sets;
    per character the sizes and pairwise intersection sizes of the sets of the nodes that have that character"""
    head = " ".join("x" if r is None else str(len(r)) for r in rows)
    width = max([len(r) for r in rows if r is not None] or [0])
    cols = []
    for c in range(width):
        cols.append(set_shape([r[c] for r in rows if r is not None and c < len(r)]))
    return head + " :: " + " ; ".join(cols)


def dump_of_model(text):
    text = text.strip()
    if text == "-":
        return dump_canon([])
    rows = []
    for part in text.split(";"):
        part = part.strip()
        if part == "x":
            rows.append(None)
        elif part == "e":
            rows.append([])
        else:
            rows.append([frozenset(i for i in range(int(x).bit_length()) if (int(x) >> i) & 1) for x in part.split(",")])
    return dump_canon(rows)


def snapshot_map(tsm):
    return None if tsm is None else {id(k): (k, [frozenset(x) for x in v]) for k, v in tsm.items()}


def map_unchanged(tsm, snap):
    if tsm is None:
        return True
    if set(id(k) for k in tsm) != set(snap):
        return False
    for k, v in tsm.items():
        old = snap[id(k)][1]
        if len(v) != len(old) or any(frozenset(a) != b for a, b in zip(v, old)):
            return False
    return True


def src_text(src, midx, pidx):
    if "map" in src:
        return "map %d" % pidx[src["map"]]
    if "mat" in src:
        return "mat %d %d" % (midx[src["mat"]], 1 if src["gaps"] else 0)
    return "lit %s %d %s" % (flat_alph(src["alph"]), 1 if src["gaps"] else 0, " ".join("%d =%s" % (b, sy) for b, sy in src["rows"]))


def run_xcase(ctx, dendropy, case, pending):
    """one extended history: tree objects of several trees over one taxon namespace, matrix objects, taxon_state_sets_map objects built
    once and reused, one weight list and one score_by_character_list object reused, every state_sets_attr_name setting, up passes and
    dumps of the node attributes.  Oracle per scoring call: the independent minimum; the caller's map and weight objects are deep-equal
    to a snapshot taken before the call."""
    from dendropy.model import parsimony
    from dendropy.calculate import treescore
    ops = case["ops"]
    bits = []
    for op in ops:
        if op["op"] == "N":
            bits += [x for x in toks_struct(op["tree"])[2].values() if x is not None]
        for holder in (op, op.get("src") or {}):
            if holder.get("rows"):
                bits += [b for b, _ in holder["rows"]]
    tns = dendropy.TaxonNamespace(["t%d" % i for i in range(max(bits) + 1 if bits else 1)])
    objs = []            # (tree object, tokens)
    mats = {}            # key -> {"m", "alph", "rows"}
    maps = {}            # key -> {"tsm", "alph", "rows", "gaps"} : the content at the time the map was built
    midx, pidx = {}, {}
    shared_w = case.get("shared_weights")
    shared_by = []
    results, lines = [], []
    nscore = nreuse = 0
    used_maps = {}
    for k, op in enumerate(ops):
        o = op["op"]
        if o == "N":
            objs.append((tu.tree_from_tokens(dendropy, op["tree"], tns=tns)[0], op["tree"]))
            lines.append("N " + " ".join(op["tree"]))
            results.append("n")
        elif o == "C":
            src, toks = objs[op["obj"]]
            objs.append((src.clone(1) if op.get("how", "clone") == "clone" else dendropy.Tree(src), toks))
            lines.append("C %d" % op["obj"])
            results.append("c")
        elif o == "M":
            mats[op["mat"]] = {"m": build_matrix(dendropy, tns, op), "alph": op["alph"], "rows": [list(r) for r in op["rows"]]}
            midx.setdefault(op["mat"], len(midx))
            lines.append("M %d %s %s" % (midx[op["mat"]], flat_alph(op["alph"]), " ".join("%d =%s" % (b, sy) for b, sy in op["rows"])))
            results.append("m")
        elif o == "E":
            ent = mats[op["mat"]]
            apply_edit(dendropy, tns, ent["m"], op)
            for row in ent["rows"]:
                if row[0] == op["bit"]:
                    row[1] = op["syms"] if op["how"] == "seq" else row[1][:op["idx"]] + op["sym"] + row[1][op["idx"] + 1:]
            if op["how"] == "seq":
                lines.append("E %d seq %d =%s" % (midx[op["mat"]], op["bit"], op["syms"]))
            else:
                lines.append("E %d cell %d %d =%s" % (midx[op["mat"]], op["bit"], op["idx"], op["sym"]))
            results.append("m")
        elif o == "T":
            src = op["src"]
            if "mat" in src:
                ent = mats[src["mat"]]
                content = {"alph": ent["alph"], "rows": [list(r) for r in ent["rows"]], "gaps": src["gaps"]}
                m = ent["m"]
            else:
                content = {"alph": src["alph"], "rows": [list(r) for r in src["rows"]], "gaps": src["gaps"]}
                m = build_matrix(dendropy, tns, src)
            maps[op["map"]] = dict(content, tsm=m.taxon_state_sets_map(gaps_as_missing=src["gaps"]))
            pidx.setdefault(op["map"], len(pidx))
            lines.append("T %d %s" % (pidx[op["map"]], src_text(src, midx, pidx)))
            results.append("m")
        elif o == "S":
            tree, toks = objs[op["obj"]]
            src = op["src"]
            if "map" in src:
                ent = maps[src["map"]]
                call = {"alph": ent["alph"], "rows": ent["rows"], "gaps": ent["gaps"]}
                tsm, m = ent["tsm"], None
                used_maps[src["map"]] = used_maps.get(src["map"], 0) + 1
                if used_maps[src["map"]] > 1:
                    nreuse += 1
            elif "mat" in src:
                ent = mats[src["mat"]]
                call = {"alph": ent["alph"], "rows": [list(r) for r in ent["rows"]], "gaps": src["gaps"]}
                m, tsm = ent["m"], None
            else:
                call = {"alph": src["alph"], "rows": src["rows"], "gaps": src["gaps"]}
                m, tsm = build_matrix(dendropy, tns, src), None
            ws = shared_w if op.get("weights") == "shared" else op.get("weights")
            call["weights"] = None if ws is None else list(ws)
            by = None
            if op.get("by", True):
                by = shared_by if op.get("by") == "shared" else []
                del by[:]
            via = op.get("via", "down")
            attr = op.get("attr")
            if via == "down" and tsm is None:
                tsm = m.taxon_state_sets_map(gaps_as_missing=src["gaps"])
            snap = snapshot_map(tsm)
            wsnap = None if ws is None else list(ws)
            nscore += 1
            try:
                with time_limit(30):
                    if via == "parsimony":
                        sc = parsimony.parsimony_score(tree, m, gaps_as_missing=src["gaps"], weights=ws, score_by_character_list=by)
                    elif via == "treescore":
                        sc = treescore.parsimony_score(tree, m, gaps_as_missing=src["gaps"], weights=ws, score_by_character_list=by)
                    else:
                        kw = {} if attr == "default" and op.get("implicit") else {"state_sets_attr_name": ATTR_NAME.get(attr)}
                        sc = parsimony.fitch_down_pass(tree.postorder_node_iter(), taxon_state_sets_map=tsm, weights=ws,
                                                       score_by_character_list=by, **kw)
                got = "ok %d" % sc + ("" if by is None else " " + (",".join(str(x) for x in by) if by else "-"))
            except Exception as e:
                if not is_library_exception(e):
                    raise
                got = "Error"
            ctx.count("result " + got.split()[0])
            ctx.count("entry point %s%s" % (via, "" if via != "down" else " attr=%s" % attr))
            results.append(got)
            store = "0" if via != "down" else ATTR_STORE[attr]
            w = "-" if ws is None else (",".join(str(x) for x in ws) or ".")
            lines.append("S %d %s %s %s" % (op["obj"], store, w, src_text(src, midx, pidx)))
            # --- oracle 1: the caller's objects are what they were before the call
            if not map_unchanged(tsm, snap):
                ctx.fail("input_mutated", "call %d (%s, state_sets_attr_name=%r) changed the caller's taxon_state_sets_map: the score is to be a "
                         "function of the tree and the data passed in, which are only read" % (k, via, ATTR_NAME.get(attr)), dict(case, failed_call=k))
                if "map" in src:      # later calls are judged against what the caller built, not against the damaged object
                    pass
            if ws is not None and list(ws) != wsnap:
                ctx.fail("input_mutated", "call %d (%s) changed the caller's weight list from %s to %s" % (k, via, wsnap, list(ws)),
                         dict(case, failed_call=k))
            # --- oracle 2: the independent minimum
            ex = expected(nested(toks), call)
            if ex is not None:
                want = "ok %d" % ex[0] + ("" if by is None else " " + (",".join(str(x) for x in ex[1]) if ex[1] else "-"))
                if got != want:
                    kind = "minimal"
                    what = "call %d (%s, state_sets_attr_name=%r, %s, gaps_as_missing=%s, weights=%s) returned [%s]; the minimum number of changes gives [%s]" % (
                        k, via, ATTR_NAME.get(attr) if via == "down" else "state_sets", call["alph"], call["gaps"], call["weights"], got, want)
                    if "map" in src and used_maps[src["map"]] > 1:
                        ftree = tu.tree_from_tokens(dendropy, toks, tns=tns)[0]
                        fm = build_matrix(dendropy, tns, call)
                        fresh, _ = impl_call(dendropy, ftree, tns, dict(call, via="parsimony"), fm)
                        fresh_cmp = fresh if by is not None else " ".join(fresh.split()[:2])
                        if fresh_cmp != got:
                            kind = "map_history"
                        what += ("; the taxon_state_sets_map object was passed to %d earlier call(s); a fresh tree with a freshly built matrix of "
                                 "the same content scores [%s]" % (used_maps[src["map"]] - 1, fresh))
                    elif nscore > 1:
                        kind = "history"
                    ctx.fail(kind, what, dict(case, failed_call=k))
        elif o == "SN":
            # fitch_down_pass without a map: the leaves must already carry their state sets (no per-character list: it needs the map)
            tree, toks = objs[op["obj"]]
            ws = shared_w if op.get("weights") == "shared" else op.get("weights")
            try:
                with time_limit(30):
                    sc = parsimony.fitch_down_pass(tree.postorder_node_iter(), state_sets_attr_name=ATTR_NAME.get(op.get("attr")),
                                                   taxon_state_sets_map=None, weights=ws)
                got = "ok %d" % sc
            except Exception as e:
                if not is_library_exception(e):
                    raise
                got = "Error"
            ctx.count("down pass without a map " + got.split()[0])
            results.append(got)
            lines.append("SN %d %s %s" % (op["obj"], ATTR_STORE[op.get("attr")], "-" if ws is None else (",".join(str(x) for x in ws) or ".")))
        elif o == "SF":
            # parsimony_score with a matrix of ANOTHER taxon namespace (same labels): refused before anything is read
            tree, toks = objs[op["obj"]]
            ent = mats[op["mat"]]
            other = dendropy.TaxonNamespace([t.label for t in tns])
            fm = build_matrix(dendropy, other, {"alph": ent["alph"], "rows": ent["rows"]})
            try:
                parsimony.parsimony_score(tree, fm, gaps_as_missing=True)
                got = "ok"
            except Exception as e:
                if not is_library_exception(e):
                    raise
                got = "Error"
            if got != "Error":
                ctx.fail("namespace", "parsimony_score accepted a matrix whose taxon namespace is not the tree's (op %d): its rows belong to "
                         "other taxon objects, the score is not a function of this tree and this matrix" % k, dict(case, failed_call=k))
            ctx.count("foreign-namespace matrix " + got)
            results.append(got)
            lines.append("SF %d %d" % (op["obj"], midx[op["mat"]]))
        elif o == "U":
            tree, toks = objs[op["obj"]]
            tsm = maps[op["map"]]["tsm"] if op.get("map") is not None else None
            snap = snapshot_map(tsm)
            try:
                with time_limit(30):
                    parsimony.fitch_up_pass(tree.preorder_node_iter(), state_sets_attr_name=ATTR_NAME[op["attr"]], taxon_state_sets_map=tsm)
                got = "u"
            except (Exception, AssertionError) as e:
                if not is_library_exception(e):
                    raise
                got = "Error"
            if not map_unchanged(tsm, snap):
                ctx.fail("input_mutated", "fitch_up_pass (op %d) changed the caller's taxon_state_sets_map" % k, dict(case, failed_call=k))
            ctx.count("up pass " + got)
            results.append(got)
            lines.append("U %d %s %s" % (op["obj"], ATTR_STORE[op["attr"]], "-" if op.get("map") is None else pidx[op["map"]]))
        elif o == "D":
            tree, toks = objs[op["obj"]]
            rows = [getattr(nd, ATTR_NAME[op["attr"]], None) for nd in tree.preorder_node_iter()]
            results.append("D " + dump_canon([None if r is None else [frozenset(x) for x in r] for r in rows]))
            lines.append("D %d %s" % (op["obj"], ATTR_STORE[op["attr"]]))
            ctx.count("node attribute dumps compared")
        else:
            raise RuntimeError("harness: unknown op %r" % (o,))
    ctx.case(["x", ops, shared_w], nscore >= 2, sample=case, kind="extended history (maps reused, attribute names, up pass)")
    if nreuse:
        ctx.count("scoring calls on a taxon_state_sets_map object used before", nreuse)
    pending.append(("xhist " + " | ".join(lines), case, " | ".join(results), "xhist"))


def canon_xmodel(text, case):
    out = []
    parts = [r.strip() for r in text.split("|")]
    ops = case["ops"]
    for i, r in enumerate(parts):
        op = ops[i] if i < len(ops) else {}
        if r in ("KeyError", "ValueError", "IndexError", "AttributeError", "AssertionError", "TypeError", "TaxonNamespaceIdentityError"):
            r = "Error"
        elif op.get("op") == "D" and not r.startswith("bad"):
            r = "D " + dump_of_model(r)
        elif ((op.get("op") == "S" and not op.get("by", True)) or op.get("op") == "SN") and r.startswith("ok "):
            r = " ".join(r.split()[:2])
        out.append(r)
    return " | ".join(out)


def gen_src_lit(rng, bits, spare):
    call = gen_call(rng, bits, 0, spare if rng.random() < 0.2 else ())
    return {"alph": call["alph"], "rows": call["rows"], "gaps": call["gaps"]}


def gen_map_history(dendropy, rng, max_leaves):
    """the documented "build the map once" usage: taxon_state_sets_map objects (and one weight list, one score_by_character_list) reused
    over several direct fitch_down_pass / fitch_up_pass calls with every state_sets_attr_name setting, on the same, cloned, re-rooted,
    shuffled and different trees, interleaved with parsimony_score and in-place matrix edits"""
    n = rng.randint(2, max_leaves)
    toks, bits, spare = gen_tree(dendropy, rng, n, triroot=rng.random() < 0.12)
    ops = [{"op": "N", "tree": toks}]
    nobj = 1
    base = nested(toks)
    nmat = rng.choice([1, 1, 2])
    content = {}
    for k in range(nmat):
        lit = gen_src_lit(rng, bits, spare)
        ops.append({"op": "M", "mat": k, "alph": lit["alph"], "rows": lit["rows"]})
        content[k] = {"alph": lit["alph"], "rows": {b: sy for b, sy in lit["rows"]}, "nchar": len(lit["rows"][0][1])}
    nmap = rng.choice([1, 2, 2, 3])
    for k in range(nmap):
        if rng.random() < 0.6:
            ops.append({"op": "T", "map": k, "src": {"mat": rng.randrange(nmat), "gaps": rng.random() < 0.5}})
        else:
            ops.append({"op": "T", "map": k, "src": gen_src_lit(rng, bits, spare)})
    shared_w = [rng.choice([0, 1, 1, 2, 3]) for _ in range(7)]      # at least one weight per character of any matrix generated here

    def weights():
        r = rng.random()
        return None if r < 0.45 else ("shared" if r < 0.85 else [rng.choice([0, 1, 2, 3]) for _ in range(rng.randint(6, 8))])

    def by():
        r = rng.random()
        return "shared" if r < 0.5 else (True if r < 0.75 else False)

    focus = rng.choice([None, None, "default", "other"])      # some histories stay with one setting, the others mix all of them
    for _ in range(rng.randint(3, 9)):
        r = rng.random()
        if r < 0.55:
            attr = focus if (focus or rng.random() < 0.5) and rng.random() < 0.8 else rng.choice([None, None, "default", "other", "third"])
            if focus is None and rng.random() < 0.5:
                attr = None
            op = {"op": "S", "obj": rng.randrange(nobj), "via": "down", "attr": attr, "src": {"map": rng.randrange(nmap)},
                  "weights": weights(), "by": by()}
            if attr == "default" and rng.random() < 0.5:
                op["implicit"] = True                                   # state_sets_attr_name not passed at all
            ops.append(op)
        elif r < 0.68:
            via = rng.choice(["parsimony", "treescore", "down"])
            src = {"mat": rng.randrange(nmat), "gaps": rng.random() < 0.5} if rng.random() < 0.7 else gen_src_lit(rng, bits, spare)
            ops.append({"op": "S", "obj": rng.randrange(nobj), "via": via, "attr": rng.choice([None, "default", "other"]) if via == "down" else "default",
                        "src": src, "weights": weights(), "by": by()})
        elif r < 0.80:
            q = rng.random()
            if q < 0.3:
                ops.append({"op": "C", "obj": rng.randrange(nobj), "how": rng.choice(["clone", "ctor"])})
            else:
                if q < 0.5 or len(bits) < 3:
                    d = base                                            # a fresh object of the same tree
                elif q < 0.7:
                    d = base
                    for s_ in [rng.choice(["LL", "LR", "RL", "RR"]) for _ in range(rng.randint(1, 2 * n))]:
                        d = root_step(s_, d)
                    if rng.random() < 0.4:
                        d = shuffle_nested(rng, d)
                elif q < 0.8:
                    d = shuffle_nested(rng, base)
                else:
                    d = rand_nested(rng, bits, triroot=rng.random() < 0.15)          # a different tree on the same taxa
                ops.append({"op": "N", "tree": nested_tokens(d)})
            nobj += 1
        elif r < 0.88:
            k = rng.randrange(nmat)
            c = content[k]
            pools = []
            for d_ in col_descs(c["alph"], c["nchar"]):
                fund, tab, gm = col_info(d_)
                pools.append(list(fund) + (["-", "?"] if gm else []) + [x for x in tab if len(tab[x]) > 1][:6])
            bit = rng.choice(sorted(c["rows"]))
            idx = rng.randrange(c["nchar"])
            sym = rng.choice([x for x in pools[idx] if x != c["rows"][bit][idx]] or pools[idx])
            ops.append({"op": "E", "mat": k, "how": rng.choice(["cell", "set_at"]), "bit": bit, "idx": idx, "sym": sym})
            c["rows"][bit] = c["rows"][bit][:idx] + sym + c["rows"][bit][idx + 1:]
            if rng.random() < 0.3:
                ops.append({"op": "T", "map": rng.randrange(nmap), "src": {"mat": k, "gaps": rng.random() < 0.5}})
        elif r < 0.95:
            j = rng.randrange(nobj)
            attr = focus or rng.choice(["default", "default", "other"])
            ops.append({"op": "U", "obj": j, "attr": attr, "map": rng.choice([None, None, rng.randrange(nmap)])})
            ops.append({"op": "D", "obj": j, "attr": attr})
        else:
            ops.append({"op": "D", "obj": rng.randrange(nobj), "attr": rng.choice(["default", "other"])})
        if rng.random() < 0.18:
            ops.append({"op": "SN", "obj": rng.randrange(nobj), "attr": focus or rng.choice([None, "default", "default", "other"]),
                        "weights": rng.choice([None, "shared"])})
        elif rng.random() < 0.05:
            ops.append({"op": "SF", "obj": rng.randrange(nobj), "mat": rng.randrange(nmat)})
    if rng.random() < 0.5:
        j = rng.randrange(nobj)
        attr = focus or rng.choice(["default", "other"])
        ops.append({"op": "D", "obj": j, "attr": attr})
    return {"x": True, "ops": ops, "shared_weights": shared_w}


def reroot_lines(toks, how, d, pending):
    """the harness's root slides are the model's `reroot` (the theorem root_position_independent speaks about it)"""
    if not how.startswith("reroot") or "shuffle" in how:
        return
    steps = how.split()[1]
    pending.append(("reroot %s %s" % (steps, " ".join(toks)), {"tree": toks, "how": how}, render_nested(d), "reroot"))


def binary_shapes(n):
    return [s for s in tu.all_shapes(n) if _shape_binary(s)]


def _shape_binary(s):
    return (not s) or (len(s) == 2 and all(_shape_binary(c) for c in s))


def all_rootings(nd):
    """every root position reachable by root slides (breadth first over rendered forms)"""
    seen = {render_nested(nd): (nd, [])}
    frontier = [(nd, [])]
    while frontier:
        nxt = []
        for t, path in frontier:
            for s in ("LL", "LR", "RL", "RR"):
                u = root_step(s, t)
                key = render_nested(u)
                if key not in seen:
                    seen[key] = (u, path + [s])
                    nxt.append((u, path + [s]))
        frontier = nxt
    return list(seen.values())


def alphabet_sweep(ctx, dendropy, alph, pending):
    """every printable ASCII symbol of one alphabet: accepted by the matrix iff the generated table has it, and then the
    same state sets (both gap modes); for the alphabets the oracle knows, the sets are the ones the symbol denotes"""
    tns = dendropy.TaxonNamespace(["t0"])
    accepted = []
    for code in range(33, 127):
        ch = chr(code)
        call = {"alph": alph, "rows": [[0, ch]]}
        try:
            build_matrix(dendropy, tns, call)
            accepted.append(ch)
        except (KeyError, ValueError):
            pending.append(("sets %s 1 =%s" % (alph, ch), {"sweep": alph}, "bad-symbol", "sets"))
    ctx.case(["sweep", alph], False, kind="alphabet sweep")
    syms = "".join(accepted)
    m = build_matrix(dendropy, tns, {"alph": alph, "rows": [[0, syms]]})
    for gaps in (True, False):
        tsm = m.taxon_state_sets_map(gaps_as_missing=gaps)
        row = tsm[tns[0]]
        pending.append(("sets %s %d =%s" % (alph, 1 if gaps else 0, syms), {"sweep": alph}, set_shape(row), "sets"))
        if alph in ORACLE_ALPHABETS:
            known = set(ORACLE_ALPHABETS[alph][1]) | {"?", "-"}
            # index -> state name, read off the map itself: each fundamental symbol (and the gap when it is a state) must be
            # handed over as a singleton, all different (no use of the library's own index -> state table)
            name_of = {}
            for ch, st in zip(syms, row):
                if ch in ORACLE_ALPHABETS[alph][0] or (ch == "-" and not gaps):
                    if len(st) != 1 or next(iter(st)) in name_of:
                        ctx.fail("state_sets", "%s symbol %r with gaps_as_missing=%s is not handed over as a state of its own: %s" % (
                            alph, ch, gaps, sorted(st)), {"sweep": alph})
                    else:
                        name_of[next(iter(st))] = GAP if ch == "-" else ch
            for ch, st in zip(syms, row):
                names = frozenset(name_of.get(i, "#%d" % i) for i in st)
                if ch not in known:
                    ctx.fail("state_sets", "%s matrix accepts symbol %r, which the %s code does not define" % (alph, ch, alph),
                             {"sweep": alph})
                elif names != oracle_set(alph, gaps, ch):
                    ctx.fail("state_sets", "%s symbol %r with gaps_as_missing=%s is handed to the down pass as %s; it denotes %s" % (
                        alph, ch, gaps, sorted(names), sorted(oracle_set(alph, gaps, ch))), {"sweep": alph})
            for ch in known - set(syms):
                ctx.fail("state_sets", "%s matrix rejects symbol %r" % (alph, ch), {"sweep": alph})


def fixed_opening(ctx, dendropy, pending):
    """the same cases on every run, before anything random: basal trifurcations (the usual unrooted form; the third child goes through the
    fold over extra children) x every two-state column x NON-UNIT weights (distinct primes, so that a change counted with the wrong
    weight - or with 1 - shows in the total and in the per-character list), all matrices of a shape scored in sequence on one tree object
    through parsimony_score and fitch_down_pass with / without node attributes; then the same with a polytomy of four at the root for the
    correspondence"""
    primes = [2, 3, 5, 7, 11, 13]

    def lf(b):
        return (0, b, [])

    def nd(*cs):
        return (0, None, list(cs))
    shapes = [nd(lf(0), lf(1), lf(2)),
              nd(nd(lf(0), lf(1)), lf(2), lf(3)), nd(lf(0), nd(lf(1), lf(2)), lf(3)), nd(lf(0), lf(1), nd(lf(2), lf(3))),
              nd(nd(lf(0), lf(1)), nd(lf(2), lf(3)), lf(4)), nd(nd(nd(lf(0), lf(1)), lf(2)), lf(3), lf(4)),
              nd(lf(0), lf(1), lf(2), lf(3))]
    vias = ["parsimony", "down_noattr", "down", "treescore", "down_other"]
    for shape in shapes:
        n = len(leaf_bits(shape))
        toks = nested_tokens(shape)
        cols = ["".join("01"[(v >> i) & 1] for i in range(n)) for v in range(1, 2 ** n - 1)]
        ops = []
        for g in range(0, len(cols), 6):
            grp = cols[g:g + 6]
            rows = [[b, "".join(c[b] for c in grp)] for b in range(n)]
            ops.append({"op": "S", "obj": 0, "alph": "standard", "gaps": True, "weights": primes[:len(grp)], "rows": rows,
                        "via": vias[(g // 6) % len(vias)]})
        ops.append(dict(ops[0], weights=None, via="down_noattr"))
        run_case(ctx, dendropy, {"tree": toks, "base": None, "how": None, "ops": ops}, pending)
        ctx.count("fixed opening: root polytomy x non-unit weights")
    flush(ctx, pending)


def run(ctx):
    dendropy = __import__("dendropy")
    rng = ctx.rng
    ctx.set_budget(35, 780)
    pending = []
    for alph in sorted(ALPH_CLASS):
        alphabet_sweep(ctx, dendropy, alph, pending)
    fixed_opening(ctx, dendropy, pending)
    ncases = ctx.pick(7000, 400000)
    max_leaves = ctx.pick(9, 14)
    reserve = ctx.pick(0, 420)      # time kept for the exhaustive part
    for k in range(ncases):
        if ctx.time_left() <= reserve:
            break
        r = rng.random()
        ml = max_leaves if rng.random() < 0.5 else 6
        if r < 0.15:
            run_case(ctx, dendropy, gen_matrix_history(dendropy, rng, ml), pending)
        elif r < 0.37:
            run_xcase(ctx, dendropy, gen_map_history(dendropy, rng, ml), pending)
        elif r < 0.60:
            run_case(ctx, dendropy, gen_history(dendropy, rng, ml), pending)
        elif r < 0.85:
            case, (toks, how, d) = gen_equiv(dendropy, rng, ml)
            run_case(ctx, dendropy, case, pending)
            reroot_lines(toks, how, d, pending)
        else:
            run_case(ctx, dendropy, gen_malformed(dendropy, rng, ml), pending)
        if len(pending) >= 400:
            flush(ctx, pending)
    flush(ctx, pending)
    if ctx.tier == "thorough":
        exhaustive(ctx, dendropy, pending)


def exhaustive(ctx, dendropy, pending):
    """every ordered binary shape <= 6 leaves x every 2-state column (grouped 4 per matrix, all matrices scored in sequence on ONE
    tree object = a long history), then every root position of the shape with one matrix of 3-state + ambiguity columns"""
    rng = ctx.rng
    nshape = ncol = nroot = 0
    done = True
    for n in range(2, 7):
        for shape in binary_shapes(n):
            if ctx.out_of_time():
                done = False
                break
            tns = tu.make_namespace(dendropy, n)
            tree = tu.build_tree(dendropy, shape, tns, list(tns), None, None)
            toks, _ = tu.encode_tree(tree, with_labels=False)
            bits = list(range(n))
            cols = ["".join("01"[(v >> i) & 1] for i in range(n)) for v in range(2 ** n)]
            ops = []
            for g in range(0, len(cols), 4):
                grp = cols[g:g + 4]
                rows = [[b, "".join(c[b] for c in grp)] for b in bits]
                ops.append({"op": "S", "obj": 0, "alph": "standard", "gaps": True, "weights": None, "rows": rows, "via": "parsimony"})
                ncol += len(grp)
            run_case(ctx, dendropy, {"tree": toks, "base": None, "how": None, "ops": ops}, pending)
            # one matrix OBJECT per shape walked through all two-state columns by single-cell in-place edits (Gray code), scored after each
            cur = ["0"] * n
            gops = [{"op": "S", "obj": 0, "mat": 0, "alph": "standard", "gaps": True, "weights": None, "via": "parsimony",
                     "rows": [[b, "0"] for b in bits]}]
            for v in range(1, 2 ** n):
                flip = (v & -v).bit_length() - 1
                cur[flip] = "1" if cur[flip] == "0" else "0"
                gops.append({"op": "E", "mat": 0, "how": "cell", "bit": flip, "idx": 0, "sym": cur[flip]})
                gops.append({"op": "S", "obj": 0, "mat": 0, "gaps": bool(v & 2), "weights": None, "via": "parsimony"})
            run_case(ctx, dendropy, {"tree": toks, "base": None, "how": None, "ops": gops}, pending)
            nshape += 1
            nd = nested(toks)
            call = gen_call(rng, bits, 0)
            for d, path in all_rootings(nd):
                if not path:
                    continue
                how = "reroot " + ",".join(path)
                run_case(ctx, dendropy, {"tree": nested_tokens(d), "base": toks, "how": how, "ops": [call]}, pending)
                reroot_lines(toks, how, d, pending)
                nroot += 1
            if len(pending) >= 400:
                flush(ctx, pending)
    flush(ctx, pending)
    ctx.extra["exhaustive_small_scope"] = ("%d ordered binary shapes <= 6 leaves, all %d two-state columns (4 per matrix, one tree object per shape), "
                                           "one matrix object per shape edited in place through all two-state columns (Gray code) and re-scored after every edit, "
                                           "%d re-rooted copies (every root position)%s" % (nshape, ncol, nroot, "" if done else " -- cut short by the time budget"))


# ------------------------------------------------------------------ kernel-level cases: state sets handed over directly
def run_kernel_case(ctx, dendropy, case):
    """fitch_down_pass on a caller-made taxon_state_sets_map (sets of state indexes given directly, no matrix, no alphabet):
    case = {"kernel": True, "tree": toks, "sets": [[bit, [[i, ...], ...]], ...], "weights": None or list, "attr": None/"default", "by": bool}"""
    from dendropy.model import parsimony
    toks = case["tree"]
    nd = nested(toks)
    bits = [b for b, _ in case["sets"]]
    tns = dendropy.TaxonNamespace(["t%d" % i for i in range(max(bits) + 1)])
    tree = tu.tree_from_tokens(dendropy, toks, tns=tns)[0]
    tsm = {tns[b]: [set(x) for x in row] for b, row in case["sets"]}
    by = [] if case.get("by", True) else None
    ws = case.get("weights")
    try:
        sc = parsimony.fitch_down_pass(tree.postorder_node_iter(), state_sets_attr_name=ATTR_NAME.get(case.get("attr")),
                                       taxon_state_sets_map=tsm, weights=ws, score_by_character_list=by)
        got = (sc, by)
    except Exception as e:
        if not is_library_exception(e):
            raise
        got = ("Error", None)
    leaves = []

    def go(x):
        if not x[2]:
            leaves.append(x)
        for c in x[2]:
            go(c)
    go(nd)
    rows = dict((b, row) for b, row in case["sets"])
    nchar = len(case["sets"][0][1])
    per = []
    for c in range(nchar):
        k = min_changes_bruteforce(nd, {l[0]: frozenset(rows[l[1]][c]) for l in leaves})
        per.append((1 if ws is None else ws[c]) * k)
    want = (sum(per), per if by is not None else None)
    ctx.case(["kernel", case], False, kind="kernel sweep (state sets given directly)")
    if got != want:
        ctx.fail("minimal", "fitch_down_pass on leaf state sets %s (weights=%s, state_sets_attr_name=%r) returned %s; the minimum number of "
                 "changes gives %s" % (case["sets"], ws, ATTR_NAME.get(case.get("attr")), got, want), case)
    if [[b, [sorted(x) for x in tsm[tns[b]]]] for b, _ in case["sets"]] != [[b, [sorted(set(x)) for x in row]] for b, row in case["sets"]]:
        ctx.fail("input_mutated", "fitch_down_pass changed the caller's taxon_state_sets_map", case)


def kernel_sweep(ctx, dendropy, max_leaves=4, nstates=3, budget_s=40):
    """every binary shape <= max_leaves x every assignment of non-empty subsets of `nstates` states to the leaves (two characters per
    call: the column and its reverse), unweighted and weighted, with and without node attributes / per-character list"""
    import time
    t0 = time.time()
    subsets = [[i for i in range(nstates) if (v >> i) & 1] for v in range(1, 2 ** nstates)]
    n_done = 0
    for n in range(2, max_leaves + 1):
        for shape in binary_shapes(n):
            tns = tu.make_namespace(dendropy, n)
            tree = tu.build_tree(dendropy, shape, tns, list(tns), None, None)
            toks, _ = tu.encode_tree(tree, with_labels=False)
            for combo in itertools.product(subsets, repeat=n):
                if time.time() - t0 > budget_s or len(ctx.failures) >= 20:
                    return n_done
                k = n_done % 4
                case = {"kernel": True, "tree": toks, "sets": [[b, [combo[b], combo[n - 1 - b]]] for b in range(n)],
                        "weights": None if k < 2 else [2, 3], "attr": None if k % 2 else "default", "by": k != 3}
                run_kernel_case(ctx, dendropy, case)
                n_done += 1
    return n_done


def search(ctx, broken):
    """an obligation broke (a kernel could not be regenerated from the source, or a bridge / property theorem no longer builds) or the model
    and the code disagree: look for a concrete input on which the real code contradicts the statement, at the level of the kernels (every
    small tree x every family of small state sets) and then with more random histories"""
    dendropy = __import__("dendropy")
    n = kernel_sweep(ctx, dendropy)
    ctx.note("search: kernel sweep of %d direct fitch_down_pass calls after %d broken obligation(s) / %d disagreement(s)" % (
        n, len(broken), len(ctx.disagreements)))
    if not ctx.failures:
        pending = []
        import time
        t0 = time.time()
        while time.time() - t0 < 20 and not ctx.failures:
            run_xcase(ctx, dendropy, gen_map_history(dendropy, ctx.rng, 6), pending)
            run_case(ctx, dendropy, gen_history(dendropy, ctx.rng, 6), pending)
        del pending[:]


def replay(ctx, rec):
    dendropy = __import__("dendropy")
    case = rec["replay"]
    pending = []
    if "sweep" in case:
        alphabet_sweep(ctx, dendropy, case["sweep"], pending)
    elif case.get("kernel"):
        run_kernel_case(ctx, dendropy, case)
    elif case.get("x"):
        run_xcase(ctx, dendropy, case, pending)
    else:
        run_case(ctx, dendropy, case, pending)
    flush(ctx, pending)
