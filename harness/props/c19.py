"""C19 - character-matrix row/column operations select exactly what they name; terminate."""
import collections
import io
import itertools
import os
import shutil
import signal
import tempfile

import common
from common import time_limit, Timeout, hex6

ID = "C19"
GEN_DEPENDS = ["C19Kernels"]
RULE = ("histories of 1-10 operations (concatenate, export_character_indices/_subset, fill, fill_taxa, pack, add_/replace_/"
        "update_/extend_sequences, extend_matrix, remove_/discard_/keep_sequences, new_character_subset, matrix[taxon] get/set/del, new_sequence, clear, items, len/max_sequence_size/sequence_size/vector_size, taxon-in-matrix) over a pool of 2-5 matrices of one of the 8 "
        "data types, two namespaces (the second one foreign), partial taxon overlap, ragged and rectangular rows, labels drawn "
        "from a small colliding set (None, equal, equal up to case, generated locusNNN / x_002 forms), the same object passed "
        "twice and as its own argument; every iterable argument (taxa, indices, values, streams, paths) passed as list, tuple, "
        "generator, map, filter, reversed, iter, chain, deque, dict view, set/frozenset or TaxonNamespace, in orders unrelated to the row order; plus concatenate_from_streams / concatenate_from_paths on NEXUS sources; thorough adds the exhaustive small scope "
        "(2 taxa, every row-presence x length pattern, every binary op pair, every fill/pack/remove/discard/keep/export argument, "
        "every label list up to length 3). Every 6th case is a WORLD history (reference semantics): 1-9 calls on a pool of 2-3 matrix "
        "objects named by position — the matrix as its own argument (add/replace/update/extend/extend_matrix(m, m), "
        "remove_/discard_/keep_sequences(m) with a MATRIX as the taxa argument, also m itself), the same object several times in "
        "concatenate, copy construction, exports — and, in half of them, sequence objects shared by the user (m[t] = n's sequence "
        "object, copy.copy) followed by exports / extensions / fills of the matrix that holds an object twice; after every call the "
        "whole pool and the partition of dict entries into shared objects are compared with the heap model. "
        "Every 6th case is a SIZE history (3-14 steps on two matrices over one namespace, the second mostly covering SOME of the taxa "
        "that already have rows in the first): size observables (max_sequence_size, sequence_size, vector_size, fill / pack with and "
        "without a size, fill_taxa, the PHYLIP header) drawn before and after every kind of in-place row edit — extend_sequences / "
        "extend_matrix / update_ / replace_ / add_sequences, and edits made on the row OBJECT m[t] behind the matrix's back "
        "(extend, append, insert, del, m[t][i:j] = equally many values, del m[t][i:j]) — plus, after 60 % of the steps, a probe of the "
        "size observables of every matrix against a from-scratch count. "
        "Every 12th case is a ROW-OBJECT history (seq3): a CharacterDataSequence with values / character types / annotations edited by "
        "1-8 calls of append, extend (with and without type / annotation lists, also of the wrong length), del, del slice, item and "
        "slice assignment, insert, set_at with indices from -len-2 to len+3; values judged against the plain list operation, the "
        "three lists against 'equally long unless the call is one of the two that cannot keep them so' (non-trivial = non-empty). "
        "non-trivial = at least two rows and one non-empty row among the operands, or a "
        "concatenation of >= 2 matrices, or (world) a call after the first on a pool with a non-empty row")
MODELLED_NOT_VERIFIED = [
    "C19: the Lean model of charmatrixmodel.CharacterMatrix (rows as an insertion-ordered association list, subsets as an "
    "ordered caseless association list) is hand-written; it is tied to the code by the per-operation comparison of the full "
    "canonical post-state (rows by taxon, subsets in order with their labels, returned size, exception class); the dict's "
    "insertion order is not in the statement and is deliberately not compared",
    "C19: cells (state identities, floats, None) and character types are carried opaquely as small numbers; "
    "case folding is modelled for ASCII labels only (generated labels are ASCII or uncased)",
    "C19: the reader behind concatenate_from_streams/_paths is abstract in the theorems; the driver instantiates it with the "
    "protocol's matrix parser, and an unreadable NEXUS source / a missing path is compared as ParseError / OpenError only",
    "C19: new_character_subset is generated with non-negative indices only (the model's index sets are lists of naturals)",
    "C19: that the same namespace identity `ns` always carries the same member list is an invariant of the protocol (one Python "
    "object), enforced by the driver (`coherent`, else bad-op) and assumed as `o.taxa = m.taxa` / `OpOK` in wf_preserved, concat_wf, "
    "history_wfn; the model's guards compare `ns` only",
    "C19: spans, namedSpans, selectFrom, iter, Concatenable, WF/WFN, OpOK are specification-side definitions (right-hand sides and "
    "hypotheses); the driver does not execute them",
    "C19: hang detection counts process CPU time (2 s; 40 s wall backstop), so machine load cannot produce a Timeout",
    "C19: concatenate([]) and a namespace without taxa raise IndexError in the library; treated as outside the statement, compared "
    "with the model only (thorough tier)",
    "C19: 'arguments unchanged' in the value-level ops is a fingerprint of every matrix of the pool before and after each call; in "
    "the world histories it is the frame clause of the heap model (Model/C19Heap.lean, hand-written: sequence objects = addresses, "
    "matrix objects = pool positions), proved for pools without shared objects (Sep) and compared with the code after every call "
    "also on pools WITH shared objects; namespaces are not mutated during a history",
    "C19: with sequence objects shared by the user (m[t] = <sequence object>, copy.copy) the in-place operations are outside the "
    "statement (a change through one entry is a change through the other by the language's semantics): there the oracle judges the "
    "frame clause for matrices that share nothing with the target, 'no operation of the library creates sharing', and the "
    "operations that only READ their operands (export_*, concatenate, copy construction) in full; the rest is model comparison",
    "C19: the heap model's export filters every object of the clone once (rows keyed by a taxon outside the namespace, which the "
    "value-level exportIdx leaves unfiltered as the code does, do not occur in world histories: wf_preserved)",
    "C19: an edit made on a row object (seq.extend/append/insert/del/slice) is mirrored in the value-level model as m[t] = <the row "
    "Python's list semantics gives>; slice assignments are generated only with as many values as the slice holds (a longer or "
    "shorter one leaves the parallel character-type / annotation lists of the sequence out of step — outside the statement); the "
    "PHYLIP writer is judged by its header only (oracle, no model counterpart)",
    "C19: Model/C19Seq.lean (CharacterDataSequence as three lists of opaque numbers, 0 = None; Python's index, insert and slice "
    "rules; asserts enabled) is hand-written and tied by the per-call comparison of all three lists and the exception class "
    "(op seq3, a twelfth of the cases); Aligned, SeqOp.breaks, SeqOp.safe are specification-side",
    "C19: Sep, StepOK, FreshOK, metas, validRun, argViews, HCall.library are specification-side definitions",
    "C19: Gen/C19Kernels.lean (label formats, search start/step, the re-bound name of the search loop, guard order, span, padding "
    "test and insert position, export loop bounds) is regenerated from charmatrixmodel.py by harness/gen/c19kernels.py, a hand-written "
    "recogniser of the shapes listed in its docstring (anything else: Unsupported)",
]
EXPLANATION = ("123 theorems in Props/C19.lean about the definitions drv_c19 runs (Model/C19.lean, Model/C19Ext.lean, Model/C19Heap.lean, Model/C19Seq.lean), none _partial. "
               "(d) add_spec, replace_spec, update_spec, extend_spec, extendMatrix_spec/_eq, remove_spec / remove_untouched / remove_ok_iff / "
               "remove_partial_state, discard_spec, keep_spec, rowOp_spec. Element access: getItem_spec (matrix[taxon] creates a missing row), "
               "getItem_idempotent, setItem_spec, newSequence_spec, delItem_spec, itemsOf_spec (namespace order), maxSeqSize_spec. "
               "(c) padLoop_eq / padLoop_id / padLoop_iterate, fill_spec, fill_equal_length, fill_all_equal, fillTaxa_spec, pack_spec, "
               "pack_equal_length(_sized). (b) export_row_spec, export_one_pass, export_index_shift, export_span, export_depends_on_set, "
               "export_spec, exportSub_caseless/_undefined; subsets: mem_idxSet, idxSet_ascending, newSubset_spec/_lookup/_export. "
               "(a) concat_ok_iff / concat_succeeds, concat_error_kind, concat_refuses_foreign, concat_empty_namespace_refused, concat_rows, "
               "concat_subsets, concat_rounds, concat_subset_width/_covers, concat_all_present, concat_subset_labels, concat_labels_kept, "
               "concat_names_distinct, concat_same_namespace, concat_export_roundtrip (exporting the subset recorded for a source gives back "
               "its rows); fromStreams_eq_concatenate, fromStreams_reader_error, fromStreams_rows, fromPaths_eq_fromStreams, "
               "fromPaths_open_error (abstract stateless reader/open: unfoldings of the two loops); fromStreamsNS_eq / "
               "fromStreamsNS_incomplete_refused (the shared namespace that grows while streams are read: a stream lacking a taxon any "
               "stream introduced makes the call a ValueError). concat_get? (exact rows of the result: a row for every namespace "
               "taxon and no other, no missing=empty reading), concat_probe_pure / concat_probes_pure (the cm[0] probe does not write). "
               "Histories: history_wfn (ONE theorem over the history object Op/step/run, which the driver executes as op `history` and the "
               "harness compares per pool slot: along any call sequence the matrix stays WFN = WF + duplicate-free namespace), step_wfn,  keys_nodup_preserved, keys_invariant_preserved, wf_preserved, "
               "concat_wf, concat_keys_nodup (well-formedness is invariant under every operation, so the hypotheses compose along any "
               "history). (e) termination: all model functions total; padLoop and freeFrom are well-founded recursions without fuel; "
               "measures explicit in padLoop_measure_step, freeFrom_probes_bound (Model: pending_decreases), delLoop_length_le; "
               "freeName_fresh / freeName_first. ALIASING (reference semantics, Model/C19Heap.lean = the same operations on matrix objects "
               "over a heap of sequence objects, run by the driver as op `world`): on a pool without shared sequence objects (Sep) "
               "hBin_sim — self.op(other) for the six row operations, other ANY pool object, also self (hBin_self: m.extend_matrix(m), "
               "m.update_sequences(m)…: live reading of the argument = reading a snapshot) — hUnary_sim, hUnaryM_snapshot (the taxa "
               "argument is a matrix, also the matrix itself: the generator consumed while rows are deleted yields what it would have "
               "yielded before), hFill_sim, hElement_sim, hCloneWith_sim (copy construction / export: one new object per row) each "
               "state: the rows of the target = the value-level result, the rows of EVERY other matrix object unchanged (arguments "
               "unchanged), nothing but rows touched, no sharing created; hBin_guard (refusal = rowOp's); hStep_sep / hRun_sep: along any "
               "history of library calls, with any operands, the pool stays without shared objects; hConcat_sim: concatenate on objects "
               "(the same object named several times included) = concatenate on the values of the named matrices, all arguments "
               "unchanged, the new matrix shares nothing; initWorld_sep: the pool a driver history starts from (one object per row) is "
               "without sharing, so the histories the driver runs without setseq/copy are in the scope of these theorems; "
               "initWorld_views: views (initWorld ms) = ms. On pools WITH user-made sharing: writeSlot_sharing (no separation "
               "hypothesis: an in-place change of a sequence object shows under every dict entry that holds the object and under no "
               "other; no dict changes), hBinStep_extend_sharing (a round of extend_matrix on an existing row lengthens the object once, "
               "under all its names). history_maxSeqSize: after ANY history max_sequence_size bounds every row and is attained, and a "
               "fill() without a size then makes every row exactly that long. THE ROW OBJECT (Model/C19Seq.lean, driver op seq3: "
               "CharacterDataSequence = three parallel lists, Python index / insert / slice rules): pyIdx_spec, seqStep_vals (the values "
               "after append/extend/del/insert/set/slice = the list operation), seqStep_aligned (values, character types, annotations "
               "stay equally long under every call — also one that raises IndexError — except the two kinds SeqOp.breaks), "
               "seqStep_breaks (those two do break it: extend raises AssertionError AFTER extending the values, a slice assignment "
               "changes the values only), seqStep_refusal (AssertionError iff extend got a wrong-length list; an IndexError leaves the "
               "object untouched), seqRun_aligned (histories). Not proved: whole-op results (beyond single rounds) on pools with "
               "user-made sharing; a heap-level model in which a matrix row IS a Seq3 (rows of the matrix model carry values only). TIE A (Gen/C19Kernels.lean): "
               "gen_labels, gen_search, gen_concat_round, gen_pad, gen_export bridge the regenerated kernels to locus/cand/freeName/"
               "freeFrom/concatStep/padLoop/delLoop.")

CLASSES = {
    "dna": "DnaCharacterMatrix", "rna": "RnaCharacterMatrix", "nucleotide": "NucleotideCharacterMatrix",
    "protein": "ProteinCharacterMatrix", "restriction": "RestrictionSitesCharacterMatrix",
    "infinite": "InfiniteSitesCharacterMatrix", "standard": "StandardCharacterMatrix",
    "continuous": "ContinuousCharacterMatrix",
}
DTYPES = sorted(CLASSES)
CONT_VALUES = [0.0, 0.5, 1.0, -1.5, 2.25, 3, 7, 1e-05]
LABELS = [None, None, "x", "X", "x", "y", "x_002", "X_002", "x_003", "locus000", "locus001", "LOCUS001", "locus002",
          "locus001_002", "", "a b", "_002", u"数", "x_1000"]
TL = 2.0
ELEMENT = ("getitem", "setitem", "newseq", "delitem", "clear", "items")
MUTATING = ("getitem", "setitem", "newseq", "delitem", "clear", "new_subset", "fill", "fill_taxa", "pack", "add", "replace", "update", "extend", "extend_new", "extend_matrix",
            "remove", "discard", "keep")
BINARY = ("add", "replace", "update", "extend", "extend_new", "extend_matrix")
# edits made directly on the row OBJECT `m[t]` (a CharacterDataSequence), behind the matrix's back
SEQEDIT = ("seq_extend", "seq_append", "seq_insert", "seq_del", "seq_setslice", "seq_delslice")
MUTATING = MUTATING + SEQEDIT


def seq_want(op, row):
    """the row after the edit, by Python's list semantics (None = IndexError, row unchanged)"""
    r = list(row)
    n = op["op"]
    if n == "seq_extend":
        return r + list(op["row"])
    if n == "seq_append":
        return r + [op["c"]]
    if n == "seq_insert":
        r.insert(op["idx"], op["c"])
        return r
    if n == "seq_del":
        if not -len(r) <= op["idx"] < len(r):
            return None
        del r[op["idx"]]
        return r
    if n == "seq_setslice":
        r[op["lo"]:op["hi"]] = list(op["row"])
        return r
    if n == "seq_delslice":
        del r[op["lo"]:op["hi"]]
        return r
    raise RuntimeError("unknown sequence edit " + n)


# ------------------------------------------------------------------------------------------------ environment
class Env(object):
    """one data type, a few namespaces; taxon global id = 100 * namespace + position"""

    def __init__(self, dendropy, dtype, ns_sizes):
        self.dp = dendropy
        self.dtype = dtype
        self.cls = getattr(dendropy, CLASSES[dtype])
        self.nss = [dendropy.TaxonNamespace(["t%d" % i for i in range(n)]) for n in ns_sizes]
        self.gid_of = {}
        self.taxon_of = {}
        self.unknown = []      # keeps unknown taxa alive so that their id() is not reused
        for k, ns in enumerate(self.nss):
            for i, t in enumerate(ns):
                self.gid_of[id(t)] = 100 * k + i
                self.taxon_of[100 * k + i] = t
        if dtype == "continuous":
            self.symbols = [str(v) for v in CONT_VALUES]
            self.values = list(CONT_VALUES)
        elif dtype == "standard":
            probe = self.cls(taxon_namespace=self.nss[0])
            self.symbols = [s.symbol for s in probe.default_state_alphabet]
            self.values = None
        else:
            self.symbols = [s.symbol for s in self.cls.datatype_alphabet]
            self.values = [s for s in self.cls.datatype_alphabet]
        self.sym_code = {s: i + 1 for i, s in enumerate(self.symbols)}
        self.ncodes = len(self.symbols)

    def ns_index(self, ns):
        for k, x in enumerate(self.nss):
            if x is ns:
                return k
        return -1

    def ns_gids(self, k):
        return [100 * k + i for i in range(len(self.nss[k]))]

    def value(self, m, code):
        if code == 0:
            return None
        if self.dtype == "standard":
            return m.default_state_alphabet[self.symbols[code - 1]]
        return self.values[code - 1]

    def code(self, v):
        if v is None:
            return 0
        return self.sym_code.get(str(v), 9999)

    def build(self, spec):
        m = self.cls(taxon_namespace=self.nss[spec["ns"]], label=spec["label"])
        for gid, codes in spec["rows"]:
            m[self.taxon_of[gid]] = [self.value(m, c) for c in codes]
        for lab, idx in spec["subs"]:
            m.new_character_subset(lab, idx)
        return m


class Snap(object):
    """everything the statement mentions about one matrix, read without the routines under test"""

    def __init__(self, env, m):
        self.ns = env.ns_index(m.taxon_namespace)
        self.order = []
        self.rows = {}
        for t, seq in m._taxon_sequence_map.items():
            g = env.gid_of.get(id(t))
            if g is None:       # a taxon of no known namespace: distinct ids from 9000, in order of appearance
                g = env.gid_of[id(t)] = 9000 + len(env.unknown)
                env.unknown.append(t)
            self.order.append(g)
            self.rows[g] = [env.code(v) for v in seq.values()]
        self.subs = [(k, sorted(cs.character_indices)) for k, cs in m.character_subsets.items()]
        self.label = m.label

    def key(self):
        return (self.ns, sorted(self.rows.items()), self.subs, self.label)

    def spec(self):
        return {"ns": self.ns, "label": self.label, "rows": [[g, list(self.rows[g])] for g in self.order],
                "subs": [[k, list(v)] for k, v in self.subs]}

    def state(self):
        return state_string(self.rows, self.subs)


def state_string(rows, subs, order=None):
    toks = ["R"] + ["%d=%s" % (g, ".".join(str(c) for c in rows[g])) for g in sorted(rows)]
    if order is not None:
        toks += ["O"] + [str(g) for g in order]      # dict insertion order: decides `sequence_size`, hence subset widths
    toks += ["S"]
    toks += ["%s=%s" % (hex6(k), ".".join(str(i) for i in idx)) for k, idx in subs]
    return " ".join(toks)


def enc_matrix(env, s):
    taxa = env.ns_gids(s.ns) if s.ns >= 0 else []
    toks = [str(s.ns if s.ns >= 0 else 99), str(len(taxa))] + [str(g) for g in taxa] + [hex6(s.label), str(len(s.order))]
    for g in s.order:
        r = s.rows[g]
        toks += [str(g), str(len(r))] + [str(c) for c in r]
    toks.append(str(len(s.subs)))
    for k, idx in s.subs:
        toks += [hex6(k), str(len(idx))] + [str(i) for i in idx]
    return " ".join(toks)


# ------------------------------------------------------------------------------------------------ hang detection
class cpu_limit(object):
    """raises Timeout after `seconds` of PROCESS CPU time (ITIMER_PROF), so that a loaded or paused machine cannot turn a
    microsecond call into a 'hang'; a generous wall-clock alarm is kept as a backstop for a call that blocks"""

    def __init__(self, seconds, wall=40.0):
        self.seconds, self.wall = seconds, wall

    def _handler(self, signum, frame):
        raise Timeout()

    def __enter__(self):
        self.old_prof = signal.signal(signal.SIGPROF, self._handler)
        self.old_alrm = signal.signal(signal.SIGALRM, self._handler)
        signal.setitimer(signal.ITIMER_REAL, self.wall)
        signal.setitimer(signal.ITIMER_PROF, self.seconds)

    def __exit__(self, *a):
        signal.setitimer(signal.ITIMER_PROF, 0)
        signal.setitimer(signal.ITIMER_REAL, 0)
        signal.signal(signal.SIGPROF, self.old_prof)
        signal.signal(signal.SIGALRM, self.old_alrm)
        return False


# ------------------------------------------------------------------------------------------------ argument kinds
# every parameter documented as "a list or some other iterable" is driven with each of these; the result must not
# depend on the kind.  ONE_SHOT kinds can be traversed only once; DEDUP kinds drop repetitions (used when there are
# none); UNORDERED kinds have no defined order (used when the documented result does not depend on it).
ORDERED_KINDS = ["list", "tuple", "gen", "map", "filter", "reversed", "iter", "chain", "deque"]
DEDUP_KINDS = ["dictkeys", "dictvalues", "namespace"]
UNORDERED_KINDS = ["set", "frozenset"]


def wrap(kind, items, dendropy=None):
    """the same elements in the same order (where the kind has one), as an iterable of the given kind"""
    items = list(items)
    if kind in (None, "list"):
        return items
    if kind == "tuple":
        return tuple(items)
    if kind == "gen":
        return (x for x in items)
    if kind == "map":
        return map(lambda x: x, items)
    if kind == "filter":
        return filter(lambda x: True, items)
    if kind == "reversed":
        return reversed(items[::-1])
    if kind == "iter":
        return iter(items)
    if kind == "chain":
        return itertools.chain(items[:1], items[1:])
    if kind == "deque":
        return collections.deque(items)
    if kind == "dictkeys":
        return dict.fromkeys(items).keys()
    if kind == "dictvalues":
        return {i: x for i, x in enumerate(items)}.values()
    if kind == "namespace":
        return dendropy.TaxonNamespace(items)
    if kind == "set":
        return set(items)
    if kind == "frozenset":
        return frozenset(items)
    raise RuntimeError("unknown argument kind %r" % kind)


def pick_kind(rng, items, order_matters, taxa=False):
    """a kind that denotes exactly `items` (in order, if order matters)"""
    kinds = list(ORDERED_KINDS) + ["dictvalues"]
    if len(set(items)) == len(items):
        kinds += ["dictkeys"] + (["namespace"] if taxa else [])
        if not order_matters:
            kinds += UNORDERED_KINDS
    return rng.choice(kinds) if rng.random() < 0.75 else "list"


# ------------------------------------------------------------------------------------------------ implementation
def execute(env, pool, op):
    """returns (status, result)"""
    name = op["op"]
    try:
        with cpu_limit(TL):
            if name == "concat":
                return "ok", env.cls.concatenate([pool[i] for i in op["args"]])
            m = pool[op["m"]]
            if name == "export_idx":
                return "ok", m.export_character_indices(wrap(op.get("kind"), op["idx"]))
            if name == "export_sub":
                if op["by"] == "label":
                    return "ok", m.export_character_subset(op["label"])
                src = pool[op["from"]]
                return "ok", m.export_character_subset(list(src.character_subsets.values())[op["k"]])
            if name == "getitem":
                return "ok", [env.code(v) for v in m[env.taxon_of[op["t"]]].values()]
            if name == "setitem":
                m[env.taxon_of[op["t"]]] = wrap(op.get("kind"), [env.value(m, c) for c in op["row"]])
                return "ok", None
            if name == "newseq":
                m.new_sequence(env.taxon_of[op["t"]], wrap(op.get("kind"), [env.value(m, c) for c in op["row"]]))
                return "ok", None
            if name == "delitem":
                del m[env.taxon_of[op["t"]]]
                return "ok", None
            if name == "clear":
                m.clear()
                return "ok", None
            if name == "items":
                return "ok", [[env.gid_of.get(id(t), -1), [env.code(v) for v in seq.values()]] for t, seq in m.items()]
            if name == "new_subset":
                m.new_character_subset(op["label"], wrap(op.get("kind"), op["idx"]))
                return "ok", None
            if name == "sizes":
                return "ok", [len(m), m.max_sequence_size, m.sequence_size, m.vector_size]
            if name == "phylip":
                head = m.as_string("phylip").split("\n", 1)[0].split()
                return "ok", [int(x) for x in head]
            if name in SEQEDIT:
                seq = m[env.taxon_of[op["t"]]]
                if name == "seq_extend":
                    seq.extend(wrap(op.get("kind"), [env.value(m, c) for c in op["row"]]))
                elif name == "seq_append":
                    seq.append(env.value(m, op["c"]))
                elif name == "seq_insert":
                    seq.insert(op["idx"], env.value(m, op["c"]))
                elif name == "seq_del":
                    del seq[op["idx"]]
                elif name == "seq_setslice":
                    seq[op["lo"]:op["hi"]] = [env.value(m, c) for c in op["row"]]
                else:
                    del seq[op["lo"]:op["hi"]]
                return "ok", None
            if name == "contains":
                t = env.taxon_of[op["t"]]
                return "ok", [t in m, (t.label in m) if op["t"] in env.ns_gids(env.ns_index(m.taxon_namespace)) else None,
                              t in list(iter(m))]
            if name == "fill":
                return "ok", m.fill(env.value(m, op["value"]), size=op["size"], append=op["append"])
            if name == "fill_taxa":
                return "ok", m.fill_taxa()
            if name == "pack":
                return "ok", m.pack(value=env.value(m, op["value"]), size=op["size"], append=op["append"])
            if name in BINARY:
                o = pool[op["o"]]
                if name == "add":
                    m.add_sequences(o)
                elif name == "replace":
                    m.replace_sequences(o)
                elif name == "update":
                    m.update_sequences(o)
                elif name == "extend":
                    m.extend_sequences(o)
                elif name == "extend_new":
                    m.extend_sequences(o, is_add_new_sequences=True)
                else:
                    m.extend_matrix(o)
                return "ok", None
            taxa = wrap("set" if op.get("as_set") else op.get("kind"), [env.taxon_of[g] for g in op["taxa"]], env.dp)
            if name == "remove":
                m.remove_sequences(taxa)
            elif name == "discard":
                m.discard_sequences(taxa)
            elif name == "keep":
                m.keep_sequences(taxa)
            else:
                raise RuntimeError("unknown op " + name)
            return "ok", None
    except Timeout:
        return "Timeout", None
    except ValueError:
        return "ValueError", None
    except KeyError:
        return "KeyError", None
    except IndexError:
        return "IndexError", None
    except RuntimeError:
        raise
    except Exception as e:
        return "Internal(%s)" % type(e).__name__, None


# ------------------------------------------------------------------------------------------------ oracle
def select(row, idx):
    return [row[i] for i in sorted(set(idx)) if 0 <= i < len(row)]


def check_padded(old, new, value, eff, append):
    want = max(len(old), eff)
    if len(new) != want:
        return "length %d, expected %d" % (len(new), want)
    k = want - len(old)
    if append:
        if new[:len(old)] != old or any(c != value for c in new[len(old):]):
            return "cells altered: %s -> %s" % (old, new)
    else:
        if new[k:] != old or any(c != value for c in new[:k]):
            return "cells altered: %s -> %s" % (old, new)
    return None


def oracle(env, op, pre, post, status, res, ret, pool_ids, res_id):
    """the statement of C19 evaluated on snapshots; returns [(kind, what)]"""
    bad = []
    name = op["op"]
    if status == "Timeout":
        return [("Timeout", "%s did not return within %.0f s" % (name, TL))]
    if status.startswith("Internal"):
        return [("exception", "%s raised %s" % (name, status))]
    target = op["m"] if name in MUTATING else None
    for j in range(len(pre)):
        if j != target and pre[j].key() != post[j].key():
            bad.append(("argument-changed", "%s changed matrix %d of the pool, which is not the matrix it was called on: %s -> %s" % (
                name, j, pre[j].state(), post[j].state())))
    if name in ("concat", "export_idx", "export_sub") and status == "ok":
        if res_id in pool_ids:
            bad.append(("aliasing", "%s returned one of the existing matrices" % name))
    if target is not None:
        s, p = pre[target], post[target]
        if (s.subs, s.label, s.ns) != (p.subs, p.label, p.ns) and name != "new_subset":
            bad.append(("argument-changed", "%s changed subsets/label/namespace of its matrix" % name))

    if name == "concat":
        ms = [pre[i] for i in op["args"]]
        if not ms or not env.ns_gids(ms[0].ns):
            # boundary outside the statement (nothing to concatenate / a namespace without taxa): the library raises
            # IndexError today; only termination, unchanged arguments and agreement with the model are required
            return bad
        ns0 = ms[0].ns
        taxa = env.ns_gids(ns0)
        same = all(m.ns == ns0 for m in ms)
        full = all(sorted(m.rows) == taxa for m in ms)
        rect = all(len(set(len(r) for r in m.rows.values())) <= 1 for m in ms)
        if not same:
            if status != "ValueError":
                bad.append(("namespace", "concatenate accepted a matrix over a different namespace (%s)" % status))
        elif status == "ok":
            union = sorted(set(g for m in ms for g in m.rows))
            if sorted(res.rows) != union or res.ns != ns0:
                bad.append(("concat-rows", "result has rows for %s over namespace %s, sources have %s over %s" % (
                    sorted(res.rows), res.ns, union, ns0)))
            else:
                for g in union:
                    want = [c for m in ms for c in m.rows.get(g, [])]
                    if res.rows[g] != want:
                        bad.append(("concat-rows", "taxon %d: got %s, concatenation in argument order is %s" % (g, res.rows[g], want)))
                        break
            if rect:
                widths = [(len(next(iter(m.rows.values()))) if m.rows else 0) for m in ms]
                spans, off = [], 0
                for w in widths:
                    spans.append(list(range(off, off + w)))
                    off += w
                got = [idx for _, idx in res.subs]
                if got != spans:
                    bad.append(("concat-subsets", "recorded subsets %s, expected one per source matrix: %s" % (res.subs, spans)))
                low = [k.lower() for k, _ in res.subs]
                if len(set(low)) != len(low):
                    bad.append(("concat-subsets", "subset names not distinct: %s" % low))
        elif status == "ValueError":
            if full and rect:
                bad.append(("exception", "concatenate refused complete, rectangular matrices over one namespace"))
        else:
            bad.append(("exception", "concatenate raised %s" % status))
        return bad

    s = pre[op["m"]]
    if name in ("export_idx", "export_sub"):
        idx = None
        if name == "export_idx":
            idx = op["idx"]
        elif op["by"] == "obj":
            idx = pre[op["from"]].subs[op["k"]][1]
        else:
            hit = [v for k, v in s.subs if k.lower() == op["label"].lower()]
            if not hit:
                if status != "KeyError":
                    bad.append(("exception", "export_character_subset of an undefined name: %s" % status))
                return bad
            idx = hit[0]
        if status != "ok":
            bad.append(("exception", "%s raised %s" % (name, status)))
            return bad
        if sorted(res.rows) != sorted(s.rows) or res.ns != s.ns:
            bad.append(("export", "exported matrix has rows %s / namespace %s, source %s / %s" % (sorted(res.rows), res.ns, sorted(s.rows), s.ns)))
            return bad
        for g in s.rows:
            want = select(s.rows[g], idx)
            if res.rows[g] != want:
                bad.append(("export", "taxon %d: exporting columns %s of %s gave %s, selected columns ascending are %s" % (
                    g, sorted(set(idx)), s.rows[g], res.rows[g], want)))
                break
        return bad

    p = post[op["m"]]
    if name in ELEMENT:
        own = env.ns_gids(s.ns)
        t = op.get("t")
        want_rows, want_status, want_ret = dict(s.rows), "ok", None
        if name == "getitem":
            if t in s.rows:
                want_ret = s.rows[t]
            elif t in own:
                want_rows[t] = []       # documented: "a new one will be created"
                want_ret = []
            else:
                want_status = "ValueError"
        elif name == "setitem":
            if t in own:
                want_rows[t] = list(op["row"])
            else:
                want_status = "ValueError"
        elif name == "newseq":
            if t in s.rows or t not in own:
                want_status = "ValueError"
            else:
                want_rows[t] = list(op["row"])
        elif name == "delitem":
            if t in s.rows:
                del want_rows[t]
            else:
                want_status = "KeyError"
        elif name == "clear":
            want_rows = {}
        else:
            want_ret = [[g, s.rows[g]] for g in own if g in s.rows]
        if status != want_status:
            bad.append(("element", "%s(%s): %s, expected %s" % (name, t, status, want_status)))
        elif p.rows != want_rows or (p.subs, p.label, p.ns) != (s.subs, s.label, s.ns):
            bad.append(("element", "%s(%s): %s -> %s, expected rows %s" % (name, t, s.state(), p.state(), state_string(want_rows, []))))
        elif status == "ok" and name in ("getitem", "items") and ret != want_ret:
            bad.append(("element", "%s(%s) returned %s, the rows say %s" % (name, t, ret, want_ret)))
        return bad
    if name == "sizes":
        if status != "ok":
            return bad + [("exception", "len / max_sequence_size raised %s" % status)]
        first = len(s.rows[s.order[0]]) if s.order else 0      # "number of characters in *first* sequence"
        want = [len(s.rows), max([len(r) for r in s.rows.values()] or [0]), first, first]
        if list(ret) != want:
            bad.append(("sizes", "len, max_sequence_size, sequence_size, vector_size = %s, the rows say %s" % (ret, want)))
        if p.key() != s.key():
            bad.append(("argument-changed", "reading len / max_sequence_size changed the matrix"))
        return bad
    if name == "phylip":
        if status != "ok":
            return bad + [("exception", "writing PHYLIP raised %s" % status)]
        want = [len(s.rows), max([len(r) for r in s.rows.values()] or [0])]
        if list(ret) != want:
            bad.append(("sizes", "PHYLIP header says %s sequences x sites, the rows say %s" % (ret, want)))
        if p.key() != s.key():
            bad.append(("argument-changed", "writing PHYLIP changed the matrix"))
        return bad
    if name in SEQEDIT:
        want_row = seq_want(op, s.rows[op["t"]])
        want_rows = dict(s.rows)
        if want_row is not None:
            want_rows[op["t"]] = want_row
        want_status = "ok" if want_row is not None else "IndexError"
        if status != want_status:
            bad.append(("element", "%s on the row of taxon %d: %s, expected %s" % (name, op["t"], status, want_status)))
        elif p.rows != want_rows:
            bad.append(("element", "%s on the row of taxon %d: %s -> %s, expected rows %s" % (
                name, op["t"], s.state(), p.state(), state_string(want_rows, []))))
        return bad
    if name == "contains":
        if status != "ok":
            return bad + [("exception", "`taxon in matrix` raised %s" % status)]
        want = op["t"] in s.rows
        if ret[0] != want or ret[1] not in (None, want) or (ret[2] != want and op["t"] in env.ns_gids(s.ns)):
            bad.append(("sizes", "taxon in matrix / label in matrix / taxon in iter(matrix) = %s, the rows say %s" % (ret, want)))
        if p.key() != s.key():
            bad.append(("argument-changed", "`taxon in matrix` changed the matrix"))
        return bad
    if name == "new_subset":
        taken = op["label"].lower() in [k.lower() for k, _ in s.subs]
        if (p.rows, p.label, p.ns) != (s.rows, s.label, s.ns):
            bad.append(("argument-changed", "new_character_subset changed rows/label/namespace"))
        if taken:
            if status != "ValueError":
                bad.append(("subset", "new_character_subset accepted the taken name %r (%s)" % (op["label"], status)))
            elif p.subs != s.subs:
                bad.append(("subset", "new_character_subset refused the name but changed the subsets"))
        elif status != "ok":
            bad.append(("exception", "new_character_subset raised %s" % status))
        elif p.subs != s.subs + [(op["label"], sorted(set(op["idx"])))]:
            bad.append(("subset", "new_character_subset(%r, %s): subsets %s -> %s" % (op["label"], op["idx"], s.subs, p.subs)))
        return bad
    if name in ("fill", "fill_taxa", "pack"):
        if status != "ok":
            return bad + [("exception", "%s raised %s" % (name, status))]
        taxa = env.ns_gids(s.ns)
        want_keys = sorted(s.rows) if name == "fill" else sorted(set(s.rows) | set(taxa))
        if sorted(p.rows) != want_keys:
            return bad + [("fill", "%s: rows afterwards %s, expected %s" % (name, sorted(p.rows), want_keys))]
        if name == "fill_taxa":
            for g in want_keys:
                if p.rows[g] != s.rows.get(g, []):
                    bad.append(("fill", "fill_taxa: taxon %d: %s -> %s" % (g, s.rows.get(g), p.rows[g])))
                    break
            return bad
        mx = max([len(r) for r in s.rows.values()] or [0])
        eff = op["size"] if op["size"] is not None else mx
        if name == "fill" and ret != eff:
            bad.append(("fill", "fill returned %r, the target size is %r" % (ret, eff)))
        for g in want_keys:
            msg = check_padded(s.rows.get(g, []), p.rows[g], op["value"], eff, op["append"])
            if msg:
                bad.append(("fill", "%s(size=%s): taxon %d: %s" % (name, op["size"], g, msg)))
                break
        if eff >= mx and len(set(len(r) for r in p.rows.values())) > 1:
            bad.append(("fill", "%s: sequences not equally long afterwards" % name))
        return bad

    if name in BINARY:
        o = pre[op["o"]]
        if o.ns != s.ns:
            if status != "ValueError":
                bad.append(("namespace", "%s accepted a matrix over a different namespace (%s)" % (name, status)))
            elif p.key() != s.key():
                bad.append(("namespace", "%s refused the matrix but changed itself" % name))
            return bad
        if status != "ok":
            return bad + [("exception", "%s raised %s" % (name, status))]
        want = {}
        for g in set(s.rows) | set(o.rows):
            a, b = s.rows.get(g), o.rows.get(g)
            if name == "add":
                r = a if a is not None else b
            elif name == "replace":
                r = None if a is None else (b if b is not None else a)
            elif name == "update":
                r = b if b is not None else a
            elif name == "extend":
                r = None if a is None else a + (b or [])
            else:  # extend_new, extend_matrix
                r = (a or []) + (b or []) if (a is not None or b is not None) else None
            if r is not None:
                want[g] = r
        if p.rows != want:
            bad.append(("rows", "%s: %s with other %s gave %s, documented result %s" % (
                name, state_string(s.rows, []), state_string(o.rows, []), state_string(p.rows, []), state_string(want, []))))
        return bad

    taxa = op["taxa"]
    if name == "remove":
        must_fail = len(set(taxa)) != len(taxa) or any(g not in s.rows for g in taxa)
        if must_fail and status != "KeyError":
            bad.append(("rows", "remove_sequences of a taxon without a sequence: %s instead of KeyError" % status))
        if not must_fail and status != "ok":
            bad.append(("exception", "remove_sequences raised %s" % status))
        for g in s.rows:
            if g not in taxa and p.rows.get(g) != s.rows[g]:
                bad.append(("rows", "remove_sequences(%s) touched the row of taxon %d" % (taxa, g)))
                break
        if any(g not in s.rows for g in p.rows):
            bad.append(("rows", "remove_sequences created rows"))
        if status == "ok" and any(g in p.rows for g in taxa):
            bad.append(("rows", "remove_sequences(%s) left rows %s" % (taxa, sorted(p.rows))))
        return bad
    if status != "ok":
        return bad + [("exception", "%s raised %s" % (name, status))]
    if name == "discard":
        want = {g: r for g, r in s.rows.items() if g not in taxa}
    else:
        want = {g: r for g, r in s.rows.items() if g in taxa}
    if p.rows != want:
        bad.append(("rows", "%s_sequences(%s of %s): %s -> %s, documented result %s" % (
            name, op.get("kind", "list"), taxa, state_string(s.rows, []), state_string(p.rows, []), state_string(want, []))))
    return bad


# ------------------------------------------------------------------------------------------------ model line
def call_tokens(env, op, pre):
    """one call of a `history` line: the single-operation syntax without the matrix it is applied to"""
    name = op["op"]
    if name in BINARY:
        return "%s %s" % (name, enc_matrix(env, pre[op["o"]]))
    if name in ("remove", "discard", "keep"):
        return "%s %d %s" % (name, len(op["taxa"]), " ".join(str(g) for g in op["taxa"]))
    if name in ("fill", "pack"):
        return "%s %d %s %d" % (name, op["value"], "N" if op["size"] is None else op["size"], 1 if op["append"] else 0)
    if name in ("fill_taxa", "clear"):
        return name
    if name == "new_subset":
        return "new_subset %s %d %s" % (hex6(op["label"]), len(op["idx"]), " ".join(str(i) for i in op["idx"]))
    if name in ("getitem", "delitem"):
        return "%s %d" % (name, op["t"])
    if name in ("setitem", "newseq"):
        return "%s %d %d %s" % (name, op["t"], len(op["row"]), " ".join(str(c) for c in op["row"]))
    if name in SEQEDIT:
        w = seq_want(op, pre[op["m"]].rows[op["t"]])
        return "setitem %d %d %s" % (op["t"], len(w), " ".join(str(c) for c in w))
    raise RuntimeError("not a mutating call: " + name)


def model_line(env, op, pre):
    name = op["op"]
    if name == "concat":
        return "concat %d %s" % (len(op["args"]), " ".join(enc_matrix(env, pre[i]) for i in op["args"]))
    m = enc_matrix(env, pre[op["m"]])
    if name == "export_idx":
        return "export_idx %s %d %s" % (m, len(op["idx"]), " ".join(str(i) for i in op["idx"]))
    if name == "export_sub":
        if op["by"] == "label":
            return "export_sub %s %s" % (m, hex6(op["label"]))
        idx = pre[op["from"]].subs[op["k"]][1]
        return "export_idx %s %d %s" % (m, len(idx), " ".join(str(i) for i in idx))
    if name in ("fill", "pack"):
        return "%s %s %d %s %d" % (name, m, op["value"], "N" if op["size"] is None else op["size"], 1 if op["append"] else 0)
    if name == "fill_taxa":
        return "fill_taxa " + m
    if name in ("getitem", "delitem"):
        return "%s %s %d" % (name, m, op["t"])
    if name in ("setitem", "newseq"):
        return "%s %s %d %d %s" % (name, m, op["t"], len(op["row"]), " ".join(str(c) for c in op["row"]))
    if name in ("clear", "items"):
        return "%s %s" % (name, m)
    if name in SEQEDIT:
        w = seq_want(op, pre[op["m"]].rows[op["t"]])
        return "setitem %s %d %d %s" % (m, op["t"], len(w), " ".join(str(c) for c in w))
    if name == "sizes":
        return "sizes " + m
    if name == "contains":
        return "contains %s %d" % (m, op["t"])
    if name == "new_subset":
        return "new_subset %s %s %d %s" % (m, hex6(op["label"]), len(op["idx"]), " ".join(str(i) for i in op["idx"]))
    if name in BINARY:
        return "%s %s %s" % (name, m, enc_matrix(env, pre[op["o"]]))
    return "%s %s %d %s" % (name, m, len(op["taxa"]), " ".join(str(g) for g in op["taxa"]))


def impl_line(op, status, post, res, ret):
    name = op["op"]
    if status not in ("ok", "ValueError", "KeyError", "IndexError"):
        return None
    if name in ("concat", "export_idx", "export_sub"):
        return "ok " + res.state() if status == "ok" else status
    if name == "phylip" or (name in SEQEDIT and status != "ok"):
        return None         # no counterpart in the model (a writer) / the edit raised before touching the row
    p = post[op["m"]]
    if name == "getitem":
        return "ok row=%s %s" % (".".join(str(c) for c in ret), p.state()) if status == "ok" else status
    if name == "items":
        return " ".join(["ok"] + ["%d=%s" % (g, ".".join(str(c) for c in r)) for g, r in ret]) if status == "ok" else status
    if name == "sizes":
        return "ok %s %s %s" % (ret[0], ret[1], ret[2]) if status == "ok" else status
    if name == "contains":
        return "ok %d" % (1 if ret[0] else 0) if status == "ok" else status
    if name == "fill":
        return "ok %s %s" % (ret, p.state()) if status == "ok" else status
    if name == "remove":
        return "%s %s" % (status, p.state())
    return "ok " + p.state() if status == "ok" else status


# ------------------------------------------------------------------------------------------------ running a history
class Quiet(object):
    """stand-in context used while shrinking: collects failures, counts nothing, no model"""

    def __init__(self):
        self.failures = []

    def fail(self, kind, what, replay):
        self.failures.append({"kind": kind, "what": what, "replay": replay})

    def case(self, *a, **k):
        pass

    def count(self, *a, **k):
        pass


def nontrivial(op, pre):
    if op["op"] == "concat":
        return len(op["args"]) >= 2
    if "m" not in op:
        return False
    ms = [pre[op["m"]]] + ([pre[op["o"]]] if "o" in op else [])
    return sum(len(m.rows) for m in ms) >= 2 and any(r for m in ms for r in m.rows.values())


def run_history(ctx, dendropy, hist, pending, shrink=True, gen=None, nops=0):
    """hist = {dtype, ns_sizes, init: [spec], ops: [op]}.  Executes every op on the implementation, evaluates the oracle,
    queues the model comparison.  With `gen`, `nops` operations are drawn one by one (each sees the current pool) and
    appended to hist["ops"].  Returns False when the history had to be abandoned (hang)."""
    env = Env(dendropy, hist["dtype"], hist["ns_sizes"])
    pool = [env.build(spec) for spec in hist["init"]]
    # per pool slot: the matrix as it entered the pool and the mutating calls made on it since (the model re-runs them as
    # ONE history, `run`, and must arrive at the same final state)
    tracks = {j: {"start": enc_matrix(env, Snap(env, m)), "calls": []} for j, m in enumerate(pool)}
    for k in range(nops if gen is not None else len(hist["ops"])):
        pre = [Snap(env, m) for m in pool]
        if gen is not None:
            hist["ops"].append(gen(env, pre))
        op = hist["ops"][k]
        pool_ids = [id(m) for m in pool]
        status, out = execute(env, pool, op)
        if status == "Timeout":
            del pool[:]   # rows may have grown without bound
            rep = {"dtype": hist["dtype"], "ns_sizes": hist["ns_sizes"], "init": [s.spec() for s in pre], "ops": [op],
                   "op": op["op"], "status": status}
            ctx.fail("Timeout-" + op["op"], "%s did not return within %.0f s of CPU time (pool state in the replay)" % (op["op"], TL), rep)
            ctx.case([hist["dtype"], [s.key() for s in pre], op], True, kind=op["op"])
            return False
        creating = op["op"] in ("concat", "export_idx", "export_sub")
        res = Snap(env, out) if (creating and status == "ok") else None
        ret = out if op["op"] in ("fill", "sizes", "phylip", "contains", "getitem", "items") else None
        post = [Snap(env, m) for m in pool]
        problems = oracle(env, op, pre, post, status, res, ret, pool_ids, id(out) if creating else None)
        if op.get("probe"):
            # size observables of EVERY matrix of the pool right after the step, against a from-scratch count over the rows
            for j, mj in enumerate(pool):
                sj = post[j]
                try:
                    with cpu_limit(TL):
                        got = [len(mj), mj.max_sequence_size, mj.sequence_size, mj.vector_size]
                except Timeout:
                    problems.append(("Timeout", "len / max_sequence_size / sequence_size after %s did not return" % op["op"]))
                    continue
                except Exception as e:
                    if not common.is_library_exception(e):
                        raise
                    problems.append(("exception", "len / max_sequence_size / sequence_size after %s raised %s" % (op["op"], type(e).__name__)))
                    continue
                first = len(sj.rows[sj.order[0]]) if sj.order else 0
                want = [len(sj.rows), max([len(r) for r in sj.rows.values()] or [0]), first, first]
                if got != want:
                    problems.append(("sizes", "after %s: len, max_sequence_size, sequence_size, vector_size of matrix %d = %s, the rows say %s (%s)" % (
                        op["op"], j, got, want, sj.state())))
                elif Snap(env, mj).key() != sj.key():
                    problems.append(("argument-changed", "reading the size observables of matrix %d changed it" % j))
        ctx.case([hist["dtype"], [s.key() for s in pre], op], nontrivial(op, pre),
                 sample={"dtype": hist["dtype"], "op": op, "pre": [s.state() for s in pre], "status": status}, kind=op["op"])
        ctx.count("%s:%s" % (op["op"], status))
        if op["op"] == "concat" and status == "ok":
            want = [pre[i].label for i in op["args"]]
            if any(w is not None and w != k for w, (k, _) in zip(want, res.subs)):
                ctx.count("concat:ok with a renamed subset")
        if problems:
            full = {"dtype": hist["dtype"], "ns_sizes": hist["ns_sizes"], "init": hist["init"], "ops": hist["ops"][:k + 1],
                    "op": op["op"], "status": status}
            rep = full
            if shrink:
                one = {"dtype": hist["dtype"], "ns_sizes": hist["ns_sizes"], "init": [s.spec() for s in pre], "ops": [op],
                       "op": op["op"], "status": status}
                q = Quiet()
                try:
                    run_history(q, dendropy, one, [], shrink=False)
                except Exception:
                    q.failures = []
                if {f["kind"] for f in q.failures} >= {kd for kd, _ in problems}:
                    rep = one
            for kind, what in problems:
                ctx.fail(kind, what, rep)
        line = impl_line(op, status, post, res, ret)
        if line is not None and pending is not None:
            pending.append((model_line(env, op, pre), {"dtype": hist["dtype"], "op": op, "pre": [s.spec() for s in pre]}, line))
        if op["op"] in MUTATING and op["op"] != "items" and op["m"] in tracks and line is not None:
            tracks[op["m"]]["calls"].append(call_tokens(env, op, pre))
        if creating and status == "ok":
            dst = op.get("dst", len(pool))
            if dst >= len(pool):
                dst = len(pool)
                pool.append(out)
            else:
                pool[dst] = out
            tracks[dst] = {"start": enc_matrix(env, res), "calls": []}
    if pending is not None:
        for j, tr in sorted(tracks.items()):
            if len(tr["calls"]) >= 2:
                pending.append(("history %s %d %s" % (tr["start"], len(tr["calls"]), " ".join(tr["calls"])),
                                {"dtype": hist["dtype"], "op": {"op": "history"}, "slot": j, "ops": hist["ops"]},
                                "ok " + Snap(env, pool[j]).state()))
    return True


def flush(ctx, pending):
    if not pending:
        return
    outs = ctx.ask([p[0] for p in pending])
    for (line, case, got), m in zip(pending, outs):
        if m is None:
            continue
        ctx.compared()
        if m.strip() != got.strip():
            ctx.disagree(case["op"]["op"], case, got, m)
    del pending[:]


# ------------------------------------------------------------------------------------------------ generators
def gen_rows(rng, env_ncodes, taxa, p_full, p_rect, max_w):
    if rng.random() < p_full:
        present = list(taxa)
    else:
        present = [g for g in taxa if rng.random() < rng.choice([0.3, 0.6, 0.9])]
    rng.shuffle(present)
    w = rng.randint(0, max_w)
    rect = rng.random() < p_rect
    rows = []
    for g in present:
        n = w if rect else rng.randint(0, max_w)
        rows.append([g, [rng.randint(0 if rng.random() < 0.1 else 1, env_ncodes) for _ in range(n)]])
    return rows


def gen_subs(rng, max_w):
    subs, seen = [], set()
    for _ in range(rng.choice([0, 0, 1, 2, 3])):
        lab = rng.choice([l for l in LABELS if l is not None])
        if lab.lower() in seen:
            continue
        seen.add(lab.lower())
        subs.append([lab, sorted(set(rng.randint(0, max_w + 1) for _ in range(rng.randint(0, 4))))])
    return subs


def gen_init(rng, ncodes_of, max_taxa, max_w):
    dtype = rng.choice(DTYPES)
    ncodes = ncodes_of[dtype]
    n0 = rng.randint(1, max_taxa)
    ns_sizes = [n0, n0 if rng.random() < 0.7 else rng.randint(1, max_taxa)]
    style = rng.random()       # < 0.45: mostly complete rectangular matrices (concatenation succeeds), else anything
    p_full, p_rect = (0.9, 0.9) if style < 0.45 else (0.4, 0.5)
    init = []
    for _ in range(rng.randint(2, 4)):
        ns = 1 if rng.random() < 0.15 else 0
        taxa = [100 * ns + i for i in range(ns_sizes[ns])]
        init.append({"ns": ns, "label": rng.choice(LABELS if rng.random() < 0.8 else ["x", "X", None]),
                     "rows": gen_rows(rng, ncodes, taxa, p_full, p_rect, max_w), "subs": gen_subs(rng, max_w)})
    return {"dtype": dtype, "ns_sizes": ns_sizes, "init": init, "ops": []}


def gen_op(rng, env, pre, max_w):
    """next operation of a history, chosen with a view of the current pool (so that most calls are valid)"""
    n = len(pre)
    m = rng.randrange(n)
    s = pre[m]
    own = env.ns_gids(s.ns)
    r = rng.random()
    op = None
    if r < 0.22:
        def concatenable(x):
            return x.ns == s.ns and sorted(x.rows) == own and len(set(len(v) for v in x.rows.values())) <= 1
        good = [i for i in range(n) if concatenable(pre[i])]
        u = rng.random()
        if good and u < 0.75:
            cand = good
        elif u < 0.9:
            cand = [i for i in range(n) if pre[i].ns == s.ns]
        else:
            cand = list(range(n))
        k = rng.choice([1, 2, 2, 3, 3, 4])
        args = [rng.choice(cand) for _ in range(k)]
        if rng.random() < 0.25 and k >= 2:
            args[-1] = args[0]          # the same object twice
        op = {"op": "concat", "args": args}
    elif r < 0.32:
        op = {"op": "export_idx", "m": m, "idx": [rng.randint(-2, max_w * 2 + 2) for _ in range(rng.randint(0, 6))]}
        op["kind"] = pick_kind(rng, op["idx"], False)
    elif r < 0.40:
        with_subs = [i for i in range(n) if pre[i].subs]
        u = rng.random()
        if with_subs and u < 0.35:
            src = rng.choice(with_subs)
            op = {"op": "export_sub", "m": m, "by": "obj", "from": src, "k": rng.randrange(len(pre[src].subs))}
        else:
            if s.subs and u < 0.8:
                lab = rng.choice(s.subs)[0]
            else:
                lab = rng.choice([l for l in LABELS if l is not None])
            op = {"op": "export_sub", "m": m, "by": "label", "label": rng.choice([lab, lab, lab.upper(), lab.lower()])}
    elif r < 0.50:
        op = {"op": rng.choice(["fill", "fill", "pack"]), "m": m, "value": rng.randint(0 if rng.random() < 0.2 else 1, env.ncodes),
              "size": None if rng.random() < 0.5 else rng.randint(0, max_w + 2), "append": rng.random() < 0.6}
    elif r < 0.53:
        op = {"op": "fill_taxa", "m": m}
    elif r < 0.55:
        op = {"op": rng.choice(["sizes", "items", "contains"]), "m": m}
        if op["op"] == "contains":
            op["t"] = rng.choice(own if (own and rng.random() < 0.8) else sorted(env.taxon_of))
    elif r < 0.585:
        univ = own if rng.random() < 0.85 else sorted(env.taxon_of)
        name = rng.choice(["getitem", "getitem", "setitem", "newseq", "delitem", "clear"])
        op = {"op": name, "m": m}
        if name != "clear":
            op["t"] = rng.choice(univ)
        if name in ("setitem", "newseq"):
            op["row"] = [rng.randint(1, env.ncodes) for _ in range(rng.randint(0, max_w))]
            op["kind"] = rng.choice(["list", "tuple", "gen", "map", "iter", "deque"])
    elif r < 0.625:
        u = rng.random()
        lab = rng.choice(s.subs)[0] if (s.subs and u < 0.3) else rng.choice([l for l in LABELS if l is not None])
        op = {"op": "new_subset", "m": m, "label": rng.choice([lab, lab, lab.upper(), lab.lower()]),
              "idx": [rng.randint(0, max_w * 2 + 1) for _ in range(rng.randint(0, 5))]}
        op["kind"] = pick_kind(rng, op["idx"], False)
    elif r < 0.82:
        op = {"op": rng.choice(BINARY), "m": m, "o": rng.randrange(n) if rng.random() < 0.9 else m}
    else:
        name = rng.choice(["remove", "discard", "keep"])
        u = rng.random()
        if u < 0.5 and s.rows:
            taxa = rng.sample(sorted(s.rows), rng.randint(0, len(s.rows)))
        else:
            univ = own if u < 0.85 else sorted(env.taxon_of)
            taxa = [rng.choice(univ) for _ in range(rng.randint(0, len(own) + 1))]
            if rng.random() < 0.6:
                taxa = list(dict.fromkeys(taxa))
        op = {"op": name, "m": m, "taxa": taxa}
        # remove_sequences stops at the first missing taxon: its partial result depends on the order unless all are present
        order_matters = name == "remove" and not all(g in s.rows for g in taxa)
        op["kind"] = pick_kind(rng, taxa, order_matters, taxa=True)
    if op["op"] in ("concat", "export_idx", "export_sub"):
        op["dst"] = n if n < 6 else rng.randrange(n)
    return op


def gen_size_init(rng, ncodes_of, max_taxa, max_w):
    """two matrices over one namespace; the second mostly has rows for SOME of the taxa the first has rows for, so that
    extending / updating the first lengthens or replaces existing rows without adding any"""
    dtype = rng.choice(DTYPES)
    ncodes = ncodes_of[dtype]
    n0 = rng.randint(2, max_taxa)
    taxa = list(range(n0))
    rows0 = gen_rows(rng, ncodes, taxa, 0.7, 0.5, max_w)
    present = [g for g, _ in rows0]
    sub = [g for g in present if rng.random() < 0.6] or present[:1]
    if rng.random() < 0.2:
        sub = sub + [g for g in taxa if g not in present][:1]
    rows1 = [[g, [rng.randint(1, ncodes) for _ in range(rng.randint(1, max_w))]] for g in sub]
    init = [{"ns": 0, "label": None, "rows": rows0, "subs": []}, {"ns": 0, "label": None, "rows": rows1, "subs": []}]
    return {"dtype": dtype, "ns_sizes": [n0, n0], "init": init, "ops": []}


def gen_size_op(rng, env, pre, max_w):
    """size observables (max_sequence_size, sequence_size, fill, pack, fill_taxa, the PHYLIP header) used before and after every
    kind of in-place row edit"""
    m = 0 if rng.random() < 0.85 else rng.randrange(len(pre))
    s = pre[m]
    own = env.ns_gids(s.ns)
    r = rng.random()
    if r < 0.36:
        u = rng.random()
        if u < 0.55:
            op = {"op": rng.choice(["fill", "fill", "pack"]), "m": m, "value": rng.randint(1, env.ncodes),
                  "size": None if rng.random() < 0.75 else rng.randint(0, max_w + 2), "append": rng.random() < 0.6}
        elif u < 0.75:
            op = {"op": "sizes", "m": m}
        elif u < 0.9 and env.dtype != "continuous" and own:
            op = {"op": "phylip", "m": m}
        else:
            op = {"op": "fill_taxa", "m": m}
    elif r < 0.60:
        o = rng.randrange(len(pre)) if rng.random() < 0.15 else (1 if m == 0 else 0)
        op = {"op": rng.choice(["extend", "extend_matrix", "extend_new", "extend", "extend_matrix", "update", "replace", "add"]), "m": m, "o": o}
    elif r < 0.84 and s.rows:
        t = rng.choice(sorted(s.rows))
        n = len(s.rows[t])
        name = rng.choice(SEQEDIT)
        op = {"op": name, "m": m, "t": t}
        if name == "seq_extend":
            op["row"] = [rng.randint(1, env.ncodes) for _ in range(rng.randint(0, max_w))]
            op["kind"] = rng.choice(["list", "tuple", "gen", "iter"])
        elif name in ("seq_append", "seq_insert"):
            op["c"] = rng.randint(1, env.ncodes)
            op["idx"] = rng.randint(-n - 1, n + 1)
        elif name == "seq_del":
            op["idx"] = rng.randint(-n, n - 1) if (n and rng.random() < 0.85) else rng.choice([n, -n - 1])
        else:
            lo = rng.randint(0, n)
            hi = rng.randint(lo, n)
            op["lo"], op["hi"] = lo, hi
            if name == "seq_setslice":      # as long as the slice it replaces: the parallel lists of the sequence stay aligned
                op["row"] = [rng.randint(1, env.ncodes) for _ in range(hi - lo)]
    else:
        name = rng.choice(["remove", "discard", "keep", "delitem", "setitem", "newseq", "getitem", "clear"] if rng.random() < 0.9 else ["clear"])
        op = {"op": name, "m": m}
        if name in ("remove", "discard", "keep"):
            op["taxa"] = rng.sample(sorted(s.rows), rng.randint(0, len(s.rows))) if s.rows else []
            op["kind"] = "list"
        elif name != "clear":
            op["t"] = rng.choice(own)
            if name in ("setitem", "newseq"):
                op["row"] = [rng.randint(1, env.ncodes) for _ in range(rng.randint(0, max_w + 1))]
                op["kind"] = "list"
    op["probe"] = rng.random() < 0.6
    return op


def nexus_doc(labels, title, rows):
    n = len(labels)
    w = len(rows[0])
    out = ["#NEXUS", "BEGIN TAXA;", "  DIMENSIONS NTAX=%d;" % n, "  TAXLABELS %s;" % " ".join(labels), "END;", "BEGIN CHARACTERS;"]
    if title is not None:
        out.append("  TITLE '%s';" % title)
    out += ["  DIMENSIONS NCHAR=%d;" % w, "  FORMAT DATATYPE=DNA GAP=- MISSING=?;", "  MATRIX"]
    for l, r in zip(labels, rows):
        out.append("    %s %s" % (l, r))
    out += ["  ;", "END;"]
    return "\n".join(out) + "\n"


BAD_DOCS = {"garbage": "garbage\n", "empty": ""}


def stream_case(ctx, dendropy, case, pending):
    """concatenate_from_streams / concatenate_from_paths on NEXUS documents.
    case = {labels, titles, rows: [[str per taxon] per source], via, bad: {index: kind} unreadable sources,
            missing: [index] paths that do not exist}"""
    labels, titles, mats = case["labels"], case["titles"], case["rows"]
    bad = {int(k): v for k, v in case.get("bad", {}).items()}
    missing = set(case.get("missing", []))
    docs = []
    for i, (t, rows) in enumerate(zip(titles, mats)):
        if bad.get(i) == "taxon":
            docs.append(nexus_doc(labels[:-1] + ["zz"], t, rows))   # a taxon the shared namespace does not have
        elif i in bad:
            docs.append(BAD_DOCS[bad[i]])
        else:
            docs.append(nexus_doc(labels, t, rows))
    via = case.get("via", "streams")
    entry = "concatenate_from_" + via
    rep = dict(case, op=entry, stream=True)
    status, res = "ok", None
    tmp = tempfile.mkdtemp(prefix="c19-") if via == "paths" else None
    try:
        with cpu_limit(TL * 2):
            if via == "paths":
                paths = []
                for i, d in enumerate(docs):
                    paths.append(os.path.join(tmp, "m%d.nex" % i))
                    if i not in missing:
                        with open(paths[-1], "w") as f:
                            f.write(d)
                res = dendropy.DnaCharacterMatrix.concatenate_from_paths(wrap(case.get("kind"), paths), "nexus")
            else:
                res = dendropy.DnaCharacterMatrix.concatenate_from_streams(
                    wrap(case.get("kind"), [io.StringIO(d) for d in docs]), "nexus")
    except Timeout:
        status = "Timeout"
    except OSError:
        status = "OpenError"
    except dendropy.utility.error.DataParseError:
        status = "ParseError"
    except ValueError:
        status = "ValueError"
    except Exception as e:
        status = "Internal(%s)" % type(e).__name__
    finally:
        if tmp is not None:
            shutil.rmtree(tmp, ignore_errors=True)
    rep["status"] = status
    readable = not bad and not (via == "paths" and missing)
    ctx.case([via, case], len(mats) >= 2, kind=entry, sample={"op": entry, "titles": titles, "rows": mats})
    ctx.count("%s:%s" % (entry, status))
    got, subs = {}, []
    if status == "Timeout" or status.startswith("Internal") or (readable and status != "ok"):
        # the statement: the call terminates, and readable complete rectangular sources over one namespace are concatenated
        ctx.fail("Timeout-" + entry if status == "Timeout" else "exception",
                 "%s of %d NEXUS sources titled %s: %s" % (entry, len(docs), titles, status), rep)
        return
    if status == "ok" and readable:
        got = {t.label: "".join(str(v) for v in seq.values()) for t, seq in res._taxon_sequence_map.items()}
        want = {l: "".join(rows[i] for rows in mats) for i, l in enumerate(labels)}
        if got != want:
            ctx.fail("concat-rows", entry + ": rows %s, concatenation in argument order is %s" % (got, want), rep)
        spans, off = [], 0
        for rows in mats:
            spans.append(list(range(off, off + len(rows[0]))))
            off += len(rows[0])
        subs = [(k, sorted(cs.character_indices)) for k, cs in res.character_subsets.items()]
        if [i for _, i in subs] != spans or len(set(k.lower() for k, _ in subs)) != len(subs):
            ctx.fail("concat-subsets", entry + ": subsets %s, expected spans %s under distinct names" % (subs, spans), rep)
    # the model runs concatFromStreams / concatFromPaths with the protocol's matrix parser as the reader
    if pending is not None and (status != "ok" or readable):
        sym = {s: i + 1 for i, s in enumerate(x.symbol for x in dendropy.DnaCharacterMatrix.datatype_alphabet)}
        taxa = list(range(len(labels)))
        srcs = []
        for i, (t, rows) in enumerate(zip(titles, mats)):
            if i in bad:
                toks = ["unreadable"] if bad[i] != "empty" else []
            else:
                toks = ["0", str(len(taxa))] + [str(g) for g in taxa] + [hex6(t), str(len(taxa))]
                for g, r in zip(taxa, rows):
                    toks += [str(g), str(len(r))] + [str(sym[c]) for c in r]
                toks.append("0")
            src = " ".join([str(len(toks))] + toks)
            if via == "paths":
                src = "0" if i in missing else "1 " + src
            srcs.append(src)
        line = "concat_%s %d %s" % (via, len(srcs), " ".join(srcs))
        if status == "ok":
            rows_now = {labels.index(l): [sym[c] for c in s] for l, s in got.items()}
            want_line = "ok " + state_string(rows_now, subs)
        else:
            want_line = status
        pending.append((line, {"op": {"op": entry}, "case": case}, want_line))


def fasta_case(ctx, dendropy, case, pending):
    """concatenate_from_streams on FASTA sources that are read into ONE namespace which grows with every new label:
    case = {fasta: [[[label, seq], …] per stream], kind}"""
    srcs = case["fasta"]
    docs = ["".join(">%s\n%s\n" % (l, q) for l, q in src) for src in srcs]
    rep = dict(case, op="concatenate_from_streams(fasta)", stream=True)
    status, res = "ok", None
    try:
        with cpu_limit(TL * 2):
            res = dendropy.DnaCharacterMatrix.concatenate_from_streams(
                wrap(case.get("kind"), [io.StringIO(d) for d in docs]), "fasta")
    except Timeout:
        status = "Timeout"
    except dendropy.utility.error.DataParseError:
        status = "ParseError"
    except ValueError:
        status = "ValueError"
    except Exception as e:
        status = "Internal(%s)" % type(e).__name__
    rep["status"] = status
    sets = [sorted(l for l, _ in src) for src in srcs]
    complete = all(x == sets[0] for x in sets)
    ctx.case(["fasta", case], len(srcs) >= 2, kind="concatenate_from_streams(fasta)",
             sample={"op": "concatenate_from_streams(fasta)", "sources": srcs})
    ctx.count("concatenate_from_streams(fasta):%s:%s" % ("complete" if complete else "growing-namespace", status))
    order = list(dict.fromkeys(l for src in srcs for l, _ in src))      # labels in order of first appearance
    got, subs = {}, []
    if status == "Timeout" or status.startswith("Internal") or status == "ParseError" or (complete and status != "ok"):
        ctx.fail("Timeout-concatenate_from_streams" if status == "Timeout" else "exception",
                 "concatenate_from_streams of FASTA sources %s: %s" % (srcs, status), rep)
        return
    if status == "ok":
        got = {t.label: "".join(str(v) for v in seq.values()) for t, seq in res._taxon_sequence_map.items()}
        want = {l: "".join(dict(src).get(l, "") for src in srcs) for l in order}
        if got != want:
            ctx.fail("concat-rows", "concatenate_from_streams(fasta): rows %s, concatenation in argument order is %s" % (got, want), rep)
        spans, off = [], 0
        for src in srcs:
            spans.append(list(range(off, off + len(src[0][1]))))
            off += len(src[0][1])
        subs = [(k, sorted(cs.character_indices)) for k, cs in res.character_subsets.items()]
        if complete and ([i for _, i in subs] != spans or len(set(k.lower() for k, _ in subs)) != len(subs)):
            ctx.fail("concat-subsets", "concatenate_from_streams(fasta): subsets %s, expected spans %s" % (subs, spans), rep)
    if pending is not None:
        sym = {x: i + 1 for i, x in enumerate(y.symbol for y in dendropy.DnaCharacterMatrix.datatype_alphabet)}
        gid = {l: i for i, l in enumerate(order)}
        toks = []
        for src in srcs:
            t = ["-", str(len(src))]
            for l, q in src:
                t += [str(gid[l]), str(len(q))] + [str(sym[c]) for c in q]
            toks.append("%d %s" % (len(t), " ".join(t)))
        want_line = status
        if status == "ok":
            want_line = "ok " + state_string({gid[l]: [sym[c] for c in q] for l, q in got.items()}, subs)
        pending.append(("concat_streams_ns %d %s" % (len(toks), " ".join(toks)),
                        {"op": {"op": "concatenate_from_streams(fasta)"}, "case": case}, want_line))


def gen_fasta_case(rng):
    labels = ["t%d" % i for i in range(rng.randint(1, 4))]
    k = rng.randint(1, 4)
    same = rng.random() < 0.55
    srcs = []
    for _ in range(k):
        ls = list(labels) if same else ([l for l in labels if rng.random() < 0.7] or [labels[0]])
        rng.shuffle(ls)
        w = rng.randint(1, 3)
        srcs.append([[l, "".join(rng.choice("ACGT-?N") for _ in range(w))] for l in ls])
    return {"fasta": srcs, "kind": rng.choice(["list", "tuple", "gen", "iter"])}


def gen_stream_case(rng):
    n = rng.randint(1, 4)
    labels = ["t%d" % i for i in range(n)]
    k = rng.randint(1, 4)
    titles = [rng.choice([None, None, "x", "X", "y", "locus001", "x_002"]) for _ in range(k)]
    mats = []
    for _ in range(k):
        w = rng.randint(1, 4)
        mats.append(["".join(rng.choice("ACGT-?N") for _ in range(w)) for _ in range(n)])
    case = {"labels": labels, "titles": titles, "rows": mats, "via": rng.choice(["streams", "streams", "paths"]),
            "kind": rng.choice(["list", "tuple", "gen", "map", "iter", "deque"])}
    if rng.random() < 0.15:
        i = rng.randrange(k)
        case["bad"] = {str(i): rng.choice(["garbage", "empty", "taxon"] if i > 0 else ["garbage", "empty"])}
    if case["via"] == "paths" and rng.random() < 0.1:
        case["missing"] = [rng.randrange(k)]
    return case



# ------------------------------------------------------------------------------------------------ reference semantics ("world")
# The pool as OBJECTS: operands are named by pool position (equal positions = the matrix is its own argument, or occurs twice in
# a list), sequence objects may be shared between dict entries (`m[t] = n._taxon_sequence_map[u]`, `copy.copy(m)`), and the whole
# pool — every matrix and the partition of dict entries into shared objects — is compared with `Model/C19Heap.lean` after EVERY call.
WBIN = {"add": "add_sequences", "replace": "replace_sequences", "update": "update_sequences", "extend": "extend_sequences",
        "extend_new": "extend_sequences", "extend_matrix": "extend_matrix"}
WFRESH = ("clone", "export_idx", "export_sub", "concat", "copy")


def share_slots(env, pool):
    """[(pool position, taxon gid, id of the sequence object)] in canonical order"""
    out = []
    for i, m in enumerate(pool):
        ent = sorted((env.gid_of.get(id(t), -1), id(seq)) for t, seq in m._taxon_sequence_map.items())
        out += [(i, g, a) for g, a in ent]
    return out


def share_groups(slots):
    groups, seen = [], set()
    for i, g, a in slots:
        if a in seen:
            continue
        seen.add(a)
        grp = [(x, y) for x, y, b in slots if b == a]
        if len(grp) >= 2:
            groups.append(grp)
    return groups


def groups_string(groups):
    return ",".join("+".join("%d:%d" % s for s in grp) for grp in groups)


def world_string(snaps, groups):
    return " ".join(["M " + s.state() for s in snaps] + (["A", groups_string(groups)] if groups else ["A"]))


def wcall_tokens(c):
    n = c["op"]
    if n in WBIN or n in ("remove_m", "discard_m", "keep_m"):
        return "%s %d %d" % (n, c["i"], c["j"])
    if n in ("remove", "discard", "keep"):
        return "%s %d %d %s" % (n, c["i"], len(c["taxa"]), " ".join(str(g) for g in c["taxa"]))
    if n in ("fill", "pack"):
        return "%s %d %d %s %d" % (n, c["i"], c["value"], "N" if c["size"] is None else c["size"], 1 if c["append"] else 0)
    if n in ("fill_taxa", "clear", "clone", "copy"):
        return "%s %d" % (n, c["i"])
    if n in ("getitem", "delitem"):
        return "%s %d %d" % (n, c["i"], c["t"])
    if n in ("setitem", "newseq"):
        return "%s %d %d %d %s" % (n, c["i"], c["t"], len(c["row"]), " ".join(str(x) for x in c["row"]))
    if n == "new_subset":
        return "new_subset %d %s %d %s" % (c["i"], hex6(c["label"]), len(c["idx"]), " ".join(str(x) for x in c["idx"]))
    if n == "export_idx":
        return "export_idx %d %d %s" % (c["i"], len(c["idx"]), " ".join(str(x) for x in c["idx"]))
    if n == "export_sub":
        return "export_sub %d %s" % (c["i"], hex6(c["label"]))
    if n == "concat":
        return "concat %d %s" % (len(c["args"]), " ".join(str(x) for x in c["args"]))
    if n == "setseq":
        return "setseq %d %d %d %d" % (c["i"], c["t"], c["j"], c["u"])
    raise RuntimeError("unknown world call " + n)


def wexecute(env, pool, c):
    """one call on the objects of the pool; returns (status, new matrix or None, returned value or None)"""
    import copy as _copy
    n = c["op"]
    try:
        with cpu_limit(TL):
            if n == "concat":
                return "ok", env.cls.concatenate([pool[k] for k in c["args"]]), None
            m = pool[c["i"]]
            if n in WBIN:
                if n == "extend_new":
                    m.extend_sequences(pool[c["j"]], is_add_new_sequences=True)
                else:
                    getattr(m, WBIN[n])(pool[c["j"]])
                return "ok", None, None
            if n in ("remove_m", "discard_m", "keep_m"):
                getattr(m, n[:-2] + "_sequences")(pool[c["j"]])
                return "ok", None, None
            if n in ("remove", "discard", "keep"):
                getattr(m, n + "_sequences")(wrap(c.get("kind"), [env.taxon_of[g] for g in c["taxa"]], env.dp))
                return "ok", None, None
            if n == "fill":
                return "ok", None, m.fill(env.value(m, c["value"]), size=c["size"], append=c["append"])
            if n == "pack":
                m.pack(value=env.value(m, c["value"]), size=c["size"], append=c["append"])
                return "ok", None, None
            if n == "fill_taxa":
                m.fill_taxa()
                return "ok", None, None
            if n == "getitem":
                return "ok", None, [env.code(v) for v in m[env.taxon_of[c["t"]]].values()]
            if n == "setitem":
                m[env.taxon_of[c["t"]]] = [env.value(m, x) for x in c["row"]]
                return "ok", None, None
            if n == "setseq":
                m[env.taxon_of[c["t"]]] = pool[c["j"]]._taxon_sequence_map[env.taxon_of[c["u"]]]
                return "ok", None, None
            if n == "newseq":
                m.new_sequence(env.taxon_of[c["t"]], [env.value(m, x) for x in c["row"]])
                return "ok", None, None
            if n == "delitem":
                del m[env.taxon_of[c["t"]]]
                return "ok", None, None
            if n == "clear":
                m.clear()
                return "ok", None, None
            if n == "new_subset":
                m.new_character_subset(c["label"], list(c["idx"]))
                return "ok", None, None
            if n == "clone":
                return "ok", env.cls(m), None
            if n == "copy":
                return "ok", _copy.copy(m), None
            if n == "export_idx":
                return "ok", m.export_character_indices(wrap(c.get("kind"), c["idx"])), None
            if n == "export_sub":
                return "ok", m.export_character_subset(c["label"]), None
            raise RuntimeError("unknown world call " + n)
    except Timeout:
        return "Timeout", None, None
    except ValueError:
        return "ValueError", None, None
    except KeyError:
        return "KeyError", None, None
    except IndexError:
        return "IndexError", None, None
    except RuntimeError:
        raise
    except Exception as e:
        return "Internal(%s)" % type(e).__name__, None, None


def as_pool_op(env, c, pre):
    """the call in the vocabulary of `oracle` (pool positions as operands), or None for the two sharing calls"""
    n = c["op"]
    if n in WBIN:
        return {"op": n, "m": c["i"], "o": c["j"]}
    if n in ("remove_m", "discard_m", "keep_m"):
        o = pre[c["j"]]
        return {"op": n[:-2], "m": c["i"], "taxa": [g for g in env.ns_gids(o.ns) if g in o.rows]}
    if n in ("remove", "discard", "keep"):
        return {"op": n, "m": c["i"], "taxa": c["taxa"]}
    if n in ("fill", "pack"):
        return {"op": n, "m": c["i"], "value": c["value"], "size": c["size"], "append": c["append"]}
    if n in ("fill_taxa", "clear"):
        return {"op": n, "m": c["i"]}
    if n in ("getitem", "delitem"):
        return {"op": n, "m": c["i"], "t": c["t"]}
    if n in ("setitem", "newseq"):
        return {"op": n, "m": c["i"], "t": c["t"], "row": c["row"]}
    if n == "new_subset":
        return {"op": n, "m": c["i"], "label": c["label"], "idx": c["idx"]}
    if n == "export_idx":
        return {"op": n, "m": c["i"], "idx": c["idx"]}
    if n == "export_sub":
        return {"op": n, "m": c["i"], "by": "label", "label": c["label"]}
    if n == "concat":
        return {"op": n, "args": c["args"]}
    return None


def world_oracle(env, c, pre, post, pre_slots, post_slots, status, res, ret, pool_ids, res_id):
    """the statement on objects.  `pre_slots` / `post_slots` = share_slots before / after."""
    n = c["op"]
    if status == "Timeout":
        return [("Timeout", "%s did not return within %.0f s" % (n, TL))]
    if status.startswith("Internal"):
        return [("exception", "%s raised %s" % (n, status))]
    bad = []
    npre = len(pre)
    obj_of = {}
    for i, g, a in pre_slots:
        obj_of.setdefault(i, set()).add(a)
    shared_pre = bool(share_groups(pre_slots))
    target = None if n in WFRESH else c["i"]
    # (1) frame: a matrix none of whose sequence objects is held by the matrix the call was made on must not change
    for j in range(npre):
        if j == target:
            continue
        if target is not None and obj_of.get(j, set()) & obj_of.get(target, set()):
            continue
        if pre[j].key() != post[j].key():
            bad.append(("argument-changed", "%s changed matrix %d of the pool, which shares no sequence object with the matrix it was "
                        "called on: %s -> %s" % (n, j, pre[j].state(), post[j].state())))
    # (2) the library never makes two dict entries hold one object (only `m[t] = obj` and copy.copy do); a deep copy mirrors its source
    if n not in ("setseq", "copy"):
        old = {(i, g): a for i, g, a in pre_slots}
        new = {(i, g): a for i, g, a in post_slots}
        for grp in share_groups(post_slots):
            for x in grp:
                for y in grp:
                    if x >= y:
                        continue
                    if x[0] < npre and y[0] < npre:
                        ok = x in old and y in old and old[x] == old[y] and new[x] == old[x]
                    elif x[0] >= npre and y[0] >= npre and n in ("clone", "export_idx", "export_sub"):
                        sx, sy = (c["i"], x[1]), (c["i"], y[1])
                        ok = sx in old and sy in old and old[sx] == old[sy]
                    else:
                        ok = False
                    if not ok:
                        bad.append(("aliasing", "%s: entries %s and %s hold one sequence object afterwards, which they did not before" % (n, x, y)))
        if n in ("clone", "export_idx", "export_sub") and status == "ok":
            for x in [(c["i"], g) for i, g, a in pre_slots if i == c["i"]]:
                for y in [(c["i"], g) for i, g, a in pre_slots if i == c["i"]]:
                    if x < y and old[x] == old[y] and new.get((npre, x[1])) != new.get((npre, y[1])):
                        bad.append(("aliasing", "%s: entries %s and %s hold one object in the source but two in the deep copy" % (n, x, y)))
    if n in WFRESH and status == "ok" and res_id in pool_ids:
        bad.append(("aliasing", "%s returned one of the existing matrices" % n))
    # (3) what the statement says about values
    pop = as_pool_op(env, c, pre)
    if n in ("export_idx", "export_sub", "concat") or (pop is not None and not shared_pre):
        # creating calls only read their operands: judged on every pool; in-place calls: on pools without shared objects
        bad += [b for b in oracle(env, pop, pre, post[:npre], status, res, ret, pool_ids, res_id) if b not in bad]
    elif n == "clone":
        if status != "ok":
            bad.append(("exception", "copy construction raised %s" % status))
        elif res.key() != pre[c["i"]].key():
            bad.append(("clone", "copy construction: %s -> %s" % (pre[c["i"]].state(), res.state())))
    elif n == "copy":
        if status != "ok":
            bad.append(("exception", "copy.copy raised %s" % status))
        elif (res.rows, res.ns, res.label) != (pre[c["i"]].rows, pre[c["i"]].ns, pre[c["i"]].label):
            bad.append(("clone", "copy.copy: %s -> %s" % (pre[c["i"]].state(), res.state())))
    elif n == "setseq":
        s = pre[c["i"]]
        want_status = "ok" if c["t"] in env.ns_gids(s.ns) else "ValueError"
        if status != want_status:
            bad.append(("element", "m[t] = <sequence object>: %s, expected %s" % (status, want_status)))
        elif status == "ok":
            want = dict(s.rows)
            want[c["t"]] = pre[c["j"]].rows[c["u"]]
            if post[c["i"]].rows != want:
                bad.append(("element", "m[t] = <sequence object>: rows %s, expected %s" % (post[c["i"]].state(), state_string(want, []))))
    return bad


def gen_wcall(rng, env, pre, slots, max_w, sharing):
    n = len(pre)
    i = rng.randrange(n)
    s = pre[i]
    own = env.ns_gids(s.ns)
    r = rng.random()
    if sharing:
        # a matrix two of whose entries hold one object: export / extend / fill it (each visits the object once per entry)
        inner = [j for j in range(n) if len(set(a for x, g, a in slots if x == j)) < len([a for x, g, a in slots if x == j])]
        if inner and rng.random() < 0.3:
            j = rng.choice(inner)
            u = rng.random()
            if u < 0.5:
                return {"op": "export_idx", "i": j, "idx": sorted(set(rng.randint(0, max_w) for _ in range(rng.randint(1, 3)))),
                        "kind": rng.choice(["list", "tuple", "set"])}
            if u < 0.75:
                return {"op": rng.choice(["extend_matrix", "extend", "update"]), "i": j, "j": rng.randrange(n)}
            return {"op": rng.choice(["fill", "pack"]), "i": j, "value": rng.randint(1, env.ncodes), "size": rng.randint(0, max_w + 2),
                    "append": rng.random() < 0.6}
    if sharing and r < 0.22:
        if rng.random() < 0.3:
            return {"op": "copy", "i": i}
        cand = [(j, g) for j, g, a in slots]
        if cand:
            j, u = rng.choice(cand) if rng.random() < 0.5 else rng.choice([x for x in cand if x[0] == i] or cand)
            univ = own if rng.random() < 0.9 else sorted(env.taxon_of)
            return {"op": "setseq", "i": i, "t": rng.choice(univ), "j": j, "u": u}
    if r < 0.50:
        u = rng.random()
        j = i if u < 0.35 else rng.randrange(n)        # the matrix as its own argument
        return {"op": rng.choice(sorted(WBIN)), "i": i, "j": j}
    if r < 0.58:
        j = i if rng.random() < 0.5 else rng.randrange(n)
        return {"op": rng.choice(["remove_m", "discard_m", "keep_m", "keep_m"]), "i": i, "j": j}
    if r < 0.64:
        name = rng.choice(["remove", "discard", "keep"])
        taxa = [rng.choice(own) for _ in range(rng.randint(0, len(own)))] if own else []
        if rng.random() < 0.7:
            taxa = list(dict.fromkeys(taxa))
        return {"op": name, "i": i, "taxa": taxa, "kind": rng.choice(["list", "tuple", "gen", "iter"])}
    if r < 0.72:
        return {"op": rng.choice(["fill", "pack"]), "i": i, "value": rng.randint(1, env.ncodes),
                "size": None if rng.random() < 0.5 else rng.randint(0, max_w + 2), "append": rng.random() < 0.6}
    if r < 0.75:
        return {"op": "fill_taxa", "i": i}
    if r < 0.82:
        name = rng.choice(["getitem", "setitem", "newseq", "delitem", "clear"])
        c = {"op": name, "i": i}
        if name != "clear":
            c["t"] = rng.choice(own if (own and rng.random() < 0.9) else sorted(env.taxon_of))
        if name in ("setitem", "newseq"):
            c["row"] = [rng.randint(1, env.ncodes) for _ in range(rng.randint(0, max_w))]
        return c
    if r < 0.85:
        lab = rng.choice([l for l in LABELS if l is not None])
        return {"op": "new_subset", "i": i, "label": lab, "idx": [rng.randint(0, max_w + 1) for _ in range(rng.randint(0, 4))]}
    if n >= 7:
        return {"op": "fill_taxa", "i": i}
    if r < 0.89:
        return {"op": "clone", "i": i}
    if r < 0.94:
        if s.subs and rng.random() < 0.4:
            return {"op": "export_sub", "i": i, "label": rng.choice(s.subs)[0]}
        return {"op": "export_idx", "i": i, "idx": [rng.randint(-1, max_w + 1) for _ in range(rng.randint(0, 5))],
                "kind": rng.choice(["list", "tuple", "gen", "set"])}
    k = rng.choice([1, 2, 2, 3])
    args = [rng.randrange(n) for _ in range(k)]
    if k >= 2 and rng.random() < 0.4:
        args[-1] = args[0]
    return {"op": "concat", "args": args}


def world_case(ctx, dendropy, case, pending, gen=None, ncalls=0):
    """case = {world: True, dtype, ns_sizes, init: [spec], calls: [call]}; with `gen`, `ncalls` calls are drawn one by one"""
    env = Env(dendropy, case["dtype"], case["ns_sizes"])
    pool = [env.build(spec) for spec in case["init"]]
    start = " ".join(enc_matrix(env, Snap(env, m)) for m in pool)
    npool0 = len(pool)
    outs, toks = [], []
    for k in range(ncalls if gen is not None else len(case["calls"])):
        pre = [Snap(env, m) for m in pool]
        pre_slots = share_slots(env, pool)
        if gen is not None:
            case["calls"].append(gen(env, pre, pre_slots))
        c = case["calls"][k]
        pool_ids = [id(m) for m in pool]
        status, out, ret = wexecute(env, pool, c)
        rep = {"world": True, "dtype": case["dtype"], "ns_sizes": case["ns_sizes"], "init": case["init"],
               "calls": case["calls"][:k + 1], "op": "world:" + c["op"], "status": status}
        kind = "world:" + c["op"] + (":self" if c.get("j") == c.get("i") and "j" in c else "")
        ctx.case([case["dtype"], case["init"], case["calls"][:k + 1]], k >= 1 and any(r for s in pre for r in s.rows.values()),
                 kind=kind, sample={"world": [s.state() for s in pre], "shared": groups_string(share_groups(pre_slots)), "call": c})
        ctx.count("%s:%s%s" % (kind, status, ":shared-objects" if share_groups(pre_slots) else ""))
        if status == "Timeout":
            ctx.fail("Timeout-" + c["op"], "%s did not return within %.0f s of CPU time" % (c["op"], TL), rep)
            return False
        res = None
        if out is not None:
            pool.append(out)
            res = Snap(env, out)
        post = [Snap(env, m) for m in pool]
        post_slots = share_slots(env, pool)
        for kd, what in world_oracle(env, c, pre, post, pre_slots, post_slots, status, res, ret, pool_ids,
                                     id(out) if out is not None else None):
            ctx.fail(kd, what, rep)
        if status.startswith("Internal"):
            break
        toks.append(wcall_tokens(c))
        outs.append("%s %s" % (status, world_string(post, share_groups(post_slots))))
    if pending is not None and toks:
        pending.append(("world %d %s %d %s" % (npool0, start, len(toks), " ".join(toks)),
                        {"op": {"op": "world"}, "case": {k: v for k, v in case.items()}}, " | ".join(["ok"] + outs)))
    return True


def gen_world_case(rng, ncodes_of, max_taxa, max_w):
    h = gen_init(rng, ncodes_of, max_taxa, max_w)
    return {"world": True, "dtype": h["dtype"], "ns_sizes": h["ns_sizes"], "init": h["init"][:3], "calls": []}



# ------------------------------------------------------------------------------------------------ the row object (`seq3`)
def seq_tokens(c):
    n = c["op"]
    opt = lambda x: "N" if x is None else str(x)
    lst = lambda l: "N" if l is None else " ".join([str(len(l))] + [str(x) for x in l])
    if n == "append":
        return "append %d %d %d" % (c["v"], c["t"], c["a"])
    if n == "extend":
        return "extend %d %s %s %s" % (len(c["vs"]), " ".join(str(x) for x in c["vs"]), lst(c["ts"]), lst(c["as"]))
    if n == "del":
        return "del %d" % c["i"]
    if n == "delslice":
        return "delslice %s %s" % (opt(c["lo"]), opt(c["hi"]))
    if n == "set":
        return "set %d %d" % (c["i"], c["v"])
    if n == "setslice":
        return "setslice %s %s %d %s" % (opt(c["lo"]), opt(c["hi"]), len(c["vs"]), " ".join(str(x) for x in c["vs"]))
    if n in ("insert", "setat"):
        return "%s %d %d %d %d" % (n, c["i"], c["v"], c["t"], c["a"])
    raise RuntimeError("unknown sequence call " + n)


def seq_expected(state, c):
    """the three lists after the call by plain Python list operations written out here (not the library's), and the status"""
    v, t, a = [list(x) for x in state]
    n = c["op"]
    nn = lambda x: None if x == 0 else x
    try:
        if n == "append":
            v.append(c["v"]); t.append(c["t"]); a.append(c["a"])
        elif n == "extend":
            v.extend(c["vs"])
            if c["ts"] is not None and len(c["ts"]) != len(c["vs"]):
                return (v, t, a), "AssertionError"
            t.extend(c["ts"] if c["ts"] is not None else [0] * len(c["vs"]))
            if c["as"] is not None and len(c["as"]) != len(c["vs"]):
                return (v, t, a), "AssertionError"
            a.extend(c["as"] if c["as"] is not None else [0] * len(c["vs"]))
        elif n == "del":
            del v[c["i"]]; del t[c["i"]]; del a[c["i"]]
        elif n == "delslice":
            del v[c["lo"]:c["hi"]]; del t[c["lo"]:c["hi"]]; del a[c["lo"]:c["hi"]]
        elif n == "set":
            v[c["i"]] = c["v"]
        elif n == "setslice":
            v[c["lo"]:c["hi"]] = c["vs"]
        elif n == "insert":
            v.insert(c["i"], c["v"]); t.insert(c["i"], c["t"]); a.insert(c["i"], c["a"])
        elif n == "setat":
            for _ in range(max(0, c["i"] + 1 - len(v))):
                v.append(0); t.append(0); a.append(0)
            v[c["i"]] = c["v"]; t[c["i"]] = c["t"]; a[c["i"]] = c["a"]
        else:
            raise RuntimeError("unknown sequence call " + n)
    except IndexError:
        return (v, t, a), "IndexError"
    return (v, t, a), "ok"


def seq_case(ctx, dendropy, case, pending):
    """case = {seq3: True, init: [vals, types, annots], calls: [...]}: a CharacterDataSequence edited directly"""
    from dendropy.datamodel.charmatrixmodel import CharacterDataSequence
    dec = lambda x: None if x == 0 else x
    enc = lambda x: 0 if x is None else x
    v0, t0, a0 = case["init"]
    seq = CharacterDataSequence([dec(x) for x in v0], [dec(x) for x in t0], [dec(x) for x in a0]) if v0 else CharacterDataSequence()
    read = lambda: ([enc(x) for x in seq._character_values], [enc(x) for x in seq._character_types], [enc(x) for x in seq._character_annotations])
    outs = []
    fmt = lambda st: "V %s T %s A %s" % tuple(".".join(str(x) for x in l) for l in st)
    for k, c in enumerate(case["calls"]):
        pre = read()
        n = c["op"]
        status = "ok"
        try:
            with cpu_limit(TL):
                if n == "append":
                    seq.append(dec(c["v"]), dec(c["t"]), dec(c["a"]))
                elif n == "extend":
                    seq.extend([dec(x) for x in c["vs"]], None if c["ts"] is None else [dec(x) for x in c["ts"]],
                               None if c["as"] is None else [dec(x) for x in c["as"]])
                elif n == "del":
                    del seq[c["i"]]
                elif n == "delslice":
                    del seq[c["lo"]:c["hi"]]
                elif n == "set":
                    seq[c["i"]] = dec(c["v"])
                elif n == "setslice":
                    seq[c["lo"]:c["hi"]] = [dec(x) for x in c["vs"]]
                elif n == "insert":
                    seq.insert(c["i"], dec(c["v"]), dec(c["t"]), dec(c["a"]))
                elif n == "setat":
                    seq.set_at(c["i"], dec(c["v"]), dec(c["t"]), dec(c["a"]))
                else:
                    raise RuntimeError("unknown sequence call " + n)
        except Timeout:
            status = "Timeout"
        except IndexError:
            status = "IndexError"
        except AssertionError:
            status = "AssertionError"
        except RuntimeError:
            raise
        except Exception as e:
            status = "Internal(%s)" % type(e).__name__
        post = read()
        rep = {"seq3": True, "init": case["init"], "calls": case["calls"][:k + 1], "op": "seq:" + n, "status": status}
        ctx.case(["seq3", case["init"], case["calls"][:k + 1]], len(pre[0]) >= 1, kind="seq:" + n,
                 sample={"sequence": list(pre), "call": c})
        ctx.count("seq:%s:%s" % (n, status))
        want, want_status = seq_expected(pre, c)
        aligned_pre = len(pre[0]) == len(pre[1]) == len(pre[2])
        if status == "Timeout" or status.startswith("Internal"):
            ctx.fail("Timeout-seq" if status == "Timeout" else "exception", "CharacterDataSequence.%s: %s" % (n, status), rep)
            return
        # the statement's part: the VALUES are exactly what the list operation gives (rows change exactly as named) ...
        if status != want_status or list(post[0]) != want[0]:
            ctx.fail("element", "CharacterDataSequence %s on %s: %s, values %s; the list operation gives %s, values %s" % (
                c, list(pre[0]), status, post[0], want_status, want[0]), rep)
        # ... and types / annotations stay in step with them unless the call is one of the two that cannot keep them so
        breaks = (n == "extend" and want_status == "AssertionError") or \
                 (n == "setslice" and len(want[0]) != len(pre[0]))
        if aligned_pre and not breaks and not (len(post[0]) == len(post[1]) == len(post[2])):
            ctx.fail("element", "CharacterDataSequence %s left values / types / annotations of lengths %d / %d / %d" % (
                c, len(post[0]), len(post[1]), len(post[2])), rep)
        outs.append("%s %s" % (status, fmt(post)))
    if pending is not None and outs:
        line = "seq3 %s %d %s" % (" ".join(" ".join([str(len(l))] + [str(x) for x in l]) for l in case["init"]),
                                   len(case["calls"]), " ".join(seq_tokens(c) for c in case["calls"]))
        pending.append((line, {"op": {"op": "seq3"}, "case": case}, " | ".join(["ok"] + outs)))


def gen_seq_case(rng):
    n = rng.randint(0, 5)
    init = [[rng.randint(0 if rng.random() < 0.2 else 1, 9) for _ in range(n)], [rng.randint(0, 3) for _ in range(n)],
            [rng.randint(0, 3) for _ in range(n)]]
    calls = []
    ln = n
    for _ in range(rng.randint(1, 8)):
        name = rng.choice(["append", "extend", "extend", "del", "delslice", "set", "setslice", "insert", "setat"])
        idx = lambda: rng.randint(-ln - 2, ln + 2)
        opt = lambda: None if rng.random() < 0.25 else idx()
        c = {"op": name}
        if name == "append":
            c.update(v=rng.randint(1, 9), t=rng.randint(0, 3), a=rng.randint(0, 3))
        elif name == "extend":
            k = rng.randint(0, 3)
            c["vs"] = [rng.randint(1, 9) for _ in range(k)]
            lst = lambda: None if rng.random() < 0.4 else [rng.randint(0, 3) for _ in range(k if rng.random() < 0.8 else rng.randint(0, 4))]
            c["ts"], c["as"] = lst(), lst()
        elif name == "del":
            c["i"] = idx()
        elif name == "delslice":
            c["lo"], c["hi"] = opt(), opt()
        elif name == "set":
            c.update(i=idx(), v=rng.randint(1, 9))
        elif name == "setslice":
            c["lo"], c["hi"] = opt(), opt()
            c["vs"] = [rng.randint(1, 9) for _ in range(rng.randint(0, 3))]
        else:
            c.update(i=idx() if name == "insert" else rng.randint(-ln - 1, ln + 3), v=rng.randint(1, 9), t=rng.randint(0, 3), a=rng.randint(0, 3))
        calls.append(c)
        ln = max(0, ln + {"append": 1, "insert": 1, "del": -1}.get(name, 0))
    return {"seq3": True, "init": init, "calls": calls}


# ------------------------------------------------------------------------------------------------ exhaustive small scope
def row_patterns():
    """every presence x length pattern over 2 taxa, lengths 0..2; cell codes identify (taxon, position)"""
    pats = []
    for l0 in (None, 0, 1, 2):
        for l1 in (None, 0, 1, 2):
            rows = []
            if l0 is not None:
                rows.append([0, [1 + i for i in range(l0)]])
            if l1 is not None:
                rows.append([1, [3 + i for i in range(l1)]])
            pats.append(rows)
    return pats


def exhaustive(ctx, dendropy, pending):
    n = 0
    pats = row_patterns()

    def go(dtype, init, ops, ns_sizes=(2, 2)):
        run_history(ctx, dendropy, {"dtype": dtype, "ns_sizes": list(ns_sizes), "init": init, "ops": ops}, pending)
        if len(pending) >= 3000:
            flush(ctx, pending)
        return 1

    def mat(rows, label=None, ns=0, subs=()):
        return {"ns": ns, "label": label, "rows": [[g + 100 * ns, list(c)] for g, c in rows], "subs": [list(s) for s in subs]}

    dtypes = itertools.cycle([d for d in DTYPES if d not in ('restriction', 'infinite')])   # >= 8 distinct cell values needed
    # binary row operations: every pattern pair, every operation; plus self as its own argument and a foreign namespace
    for a in pats:
        for b in pats:
            for name in BINARY:
                # second matrix uses other cell codes so that provenance is visible
                b2 = [[g, [c + 1 for c in cells]] for g, cells in b]
                n += go(next(dtypes), [mat(a), mat(b2)], [{"op": name, "m": 0, "o": 1}])
        for name in BINARY:
            n += go(next(dtypes), [mat(a)], [{"op": name, "m": 0, "o": 0}])
            n += go(next(dtypes), [mat(a), mat(a, ns=1)], [{"op": name, "m": 0, "o": 1}])
    # fill / pack / fill_taxa
    for a in pats:
        n += go(next(dtypes), [mat(a)], [{"op": "fill_taxa", "m": 0}])
        for name in ("fill", "pack"):
            for size in (None, 0, 1, 2, 3):
                for append in (True, False):
                    for value in (0, 2):
                        n += go(next(dtypes), [mat(a)], [{"op": name, "m": 0, "value": value, "size": size, "append": append}])
    # remove / discard / keep: every taxon list of length <= 2 over {0, 1, foreign 100}
    univ = [0, 1, 100]
    lists = [[]] + [[x] for x in univ] + [[x, y] for x in univ for y in univ]
    for a in pats:
        for name in ("remove", "discard", "keep"):
            for taxa in lists:
                present = {g for g, _ in a}
                kinds = ORDERED_KINDS + ["dictvalues"]
                if len(set(taxa)) == len(taxa):
                    kinds = kinds + ["dictkeys", "namespace"]
                    if name != "remove" or all(g in present for g in taxa):
                        kinds = kinds + UNORDERED_KINDS
                for kind in kinds:       # every kind of iterable that denotes this taxon list
                    n += go(next(dtypes), [mat(a)], [{"op": name, "m": 0, "taxa": taxa, "kind": kind}])
    # export: every index set over {-1,0,1,2,3}, and by name
    cols = [-1, 0, 1, 2, 3]
    for a in pats:
        for bits in range(32):
            idx = [c for i, c in enumerate(cols) if bits >> i & 1]
            n += go(next(dtypes), [mat(a)], [{"op": "export_idx", "m": 0, "idx": idx if bits % 3 else idx[::-1] + idx,
                                             "kind": (ORDERED_KINDS + ["dictvalues"])[bits % 10]}])
        subs = [["x", [0]], ["Y_002", [1, 2]]]
        for lab in ("x", "X", "y_002", "z", ""):
            n += go(next(dtypes), [mat(a, subs=subs)], [{"op": "export_sub", "m": 0, "by": "label", "label": lab}])
        n += go(next(dtypes), [mat(a, subs=subs)], [{"op": "export_sub", "m": 0, "by": "obj", "from": 0, "k": 1}])
    # element access, sizes, subset definition: every pattern x every taxon of {0, 1, foreign} / every name case
    for a in pats:
        for t in univ:
            n += go(next(dtypes), [mat(a)], [{"op": "getitem", "m": 0, "t": t}, {"op": "getitem", "m": 0, "t": t},
                                             {"op": "items", "m": 0}, {"op": "sizes", "m": 0}])
            n += go(next(dtypes), [mat(a)], [{"op": "setitem", "m": 0, "t": t, "row": [5, 6]}, {"op": "items", "m": 0}])
            n += go(next(dtypes), [mat(a)], [{"op": "newseq", "m": 0, "t": t, "row": [5]}, {"op": "sizes", "m": 0}])
            n += go(next(dtypes), [mat(a)], [{"op": "delitem", "m": 0, "t": t}, {"op": "getitem", "m": 0, "t": t}])
        n += go(next(dtypes), [mat(a)], [{"op": "clear", "m": 0}, {"op": "sizes", "m": 0}, {"op": "items", "m": 0}])
        for lab in ("x", "X", "y", "Y_002", ""):
            n += go(next(dtypes), [mat(a, subs=[["x", [0]], ["y_002", [1]]])],
                    [{"op": "new_subset", "m": 0, "label": lab, "idx": [2, 0, 2]},
                     {"op": "export_sub", "m": 0, "by": "label", "label": lab.upper()}])
    # concatenate: every list of <= 3 matrices over (label, width), complete over 2 taxa; repeated objects; foreign namespace
    labs = [None, "x", "X", "x_002", "locus001", "locus000"]
    kinds = [(l, w) for l in labs for w in (0, 1, 2)]

    def full(l, w, ns=0, base=1):
        return mat([[0, [base + i for i in range(w)]], [1, [base + 2 + i for i in range(w)]]], label=l, ns=ns)

    for k in (1, 2, 3):
        for combo in itertools.product(kinds, repeat=k):
            if k == 3 and not (combo[0][1] == 1 or combo[2][1] == 2):
                continue        # keep the triple enumeration to every label triple x a spread of widths
            init = [full(l, w, base=1 + j) for j, (l, w) in enumerate(combo)]
            n += go(next(dtypes), init, [{"op": "concat", "args": list(range(k))}])
    for l in labs:
        for args in ([0, 0], [0, 0, 0], [0, 1, 0], [1, 0, 0, 1]):
            n += go(next(dtypes), [full(l, 1), full(None, 2, base=2)], [{"op": "concat", "args": args}])
        n += go(next(dtypes), [full(l, 1), full(l, 1, ns=1)], [{"op": "concat", "args": [0, 1]}])
        n += go(next(dtypes), [full(l, 1), mat([[0, [1]]], label=l)], [{"op": "concat", "args": [0, 1]}])
        n += go(next(dtypes), [full(l, 1), mat([[0, [1]], [1, [1, 2]]], label=l)], [{"op": "concat", "args": [1, 0]}])
    # boundaries: nothing to concatenate, a namespace without taxa
    n += go(next(dtypes), [full(None, 1)], [{"op": "concat", "args": []}])
    for ops in ([{"op": "concat", "args": [0]}], [{"op": "concat", "args": [0, 0]}], [{"op": "fill_taxa", "m": 0}],
                [{"op": "pack", "m": 0, "value": 1, "size": 2, "append": True}], [{"op": "items", "m": 0}, {"op": "sizes", "m": 0}],
                [{"op": "keep", "m": 0, "taxa": []}], [{"op": "export_idx", "m": 0, "idx": [0]}]):
        n += go(next(dtypes), [mat([]), mat([], label="x")], ops, ns_sizes=(0, 0))
    # depth-2 histories from every pattern: any mutating op followed by an op using the other matrix (aliasing)
    second = [{"op": "extend", "m": 0, "o": 1}, {"op": "fill", "m": 0, "value": 2, "size": 3, "append": True},
              {"op": "extend_matrix", "m": 1, "o": 0}, {"op": "discard", "m": 0, "taxa": [0]}]
    for a in pats[5:]:
        for b in pats[5:]:
            for name in BINARY:
                for op2 in second:
                    b2 = [[g, [c + 1 for c in cells]] for g, cells in b]
                    n += go(next(dtypes), [mat(a), mat(b2)], [{"op": name, "m": 0, "o": 1}, op2])
    flush(ctx, pending)
    return n


# ------------------------------------------------------------------------------------------------ entry points
def ncodes_table(dendropy):
    out = {}
    for d in DTYPES:
        out[d] = Env(dendropy, d, [1, 1]).ncodes
    return out


def run(ctx):
    dendropy = __import__("dendropy")
    rng = ctx.rng
    ctx.set_budget(12, 420)
    pending = []
    ncodes = ncodes_table(dendropy)
    nhist = ctx.pick(6500, 400000)
    max_taxa, max_w, max_ops = ctx.pick(4, 7), ctx.pick(4, 6), ctx.pick(8, 14)
    hangs = 0
    for k in range(nhist):
        if ctx.out_of_time() or hangs >= 5:
            break
        if k % 12 == 5:
            fasta_case(ctx, dendropy, gen_fasta_case(rng), pending)
            continue
        if k % 12 in (2, 8):
            sharing = rng.random() < 0.5
            world_case(ctx, dendropy, gen_world_case(rng, ncodes, ctx.pick(3, 4), ctx.pick(3, 4)), pending,
                       gen=lambda env, pre, slots: gen_wcall(rng, env, pre, slots, ctx.pick(3, 4), sharing),
                       ncalls=rng.randint(1, ctx.pick(6, 9)))
            if len(pending) >= 2000:
                flush(ctx, pending)
            continue
        if k % 12 in (4, 9):
            hist = gen_size_init(rng, ncodes, ctx.pick(4, 6), ctx.pick(4, 6))
            if not run_history(ctx, dendropy, hist, pending, gen=lambda env, pre: gen_size_op(rng, env, pre, ctx.pick(4, 6)),
                               nops=rng.randint(3, ctx.pick(10, 14))):
                hangs += 1
            if len(pending) >= 2000:
                flush(ctx, pending)
            continue
        if k % 12 == 7:
            seq_case(ctx, dendropy, gen_seq_case(rng), pending)
            continue
        if k % 12 == 11:
            stream_case(ctx, dendropy, gen_stream_case(rng), pending)
            if any(f["kind"].startswith("Timeout") and f["replay"].get("stream") for f in ctx.failures[-1:]):
                hangs += 1
            continue
        hist = gen_init(rng, ncodes, max_taxa, max_w)
        if not run_history(ctx, dendropy, hist, pending, gen=lambda env, pre: gen_op(rng, env, pre, max_w),
                           nops=rng.randint(1, max_ops)):
            hangs += 1
        if len(pending) >= 2000:
            flush(ctx, pending)
    flush(ctx, pending)
    if hangs >= 5:
        ctx.note("stopped generating after %d hangs (each costs %.0f s)" % (hangs, TL))
    if ctx.tier == "thorough":
        if any(f["kind"].startswith("Timeout") for f in ctx.failures):
            ctx.note("exhaustive small scope skipped: the random phase already found hangs (each hang costs %.0f s)" % TL)
        else:
            n = exhaustive(ctx, dendropy, pending)
            ctx.extra["exhaustive_small_scope"] = ("%d single-step and depth-2 histories: all row-presence x length patterns over 2 taxa "
                                                   "(lengths 0-2) for every binary operation pair, every fill/pack/remove/discard/keep/"
                                                   "export argument, every label list up to length 3 for concatenate" % n)


def search(ctx, broken):
    """obligations broke (a kernel of concatenate / fill / export_character_indices no longer regenerates, a bridge or property
    theorem no longer builds) or implementation and model disagreed: hunt for an input on which the real code contradicts the
    statement — histories made of concatenations over colliding labels (the name search, the guards, the recorded spans),
    fill / pack with every size (the padding loop) and exports (the column filter), all judged by the oracle"""
    if ctx.failures:
        return
    dendropy = __import__("dendropy")
    rng = ctx.rng
    pending = []
    ncodes = ncodes_table(dendropy)
    ctx.budget_s = (ctx.budget_s or 0) + ctx.pick(12, 120)
    wanted = ("concat", "fill", "pack", "export_idx", "export_sub")

    def gen(env, pre):
        for _ in range(200):
            op = gen_op(rng, env, pre, 4)
            if op["op"] in wanted:
                return op
        return op

    n = hangs = 0
    for k in range(ctx.pick(3000, 60000)):
        if ctx.out_of_time() or hangs >= 3 or len(ctx.failures) >= 5:
            break
        if k % 3 == 2:     # size observables before and after in-place row edits
            hist = gen_size_init(rng, ncodes, 4, 4)
            if not run_history(ctx, dendropy, hist, pending, gen=lambda env, pre: gen_size_op(rng, env, pre, 4), nops=rng.randint(3, 10)):
                hangs += 1
            n += 1
            continue
        hist = gen_init(rng, ncodes, 4, 4)
        for spec in hist["init"]:        # colliding labels, complete rectangular matrices: the search loop is entered
            spec["label"] = rng.choice(["x", "X", "x_002", None, "locus001", "locus000"])
        if not run_history(ctx, dendropy, hist, pending, gen=gen, nops=rng.randint(1, 6)):
            hangs += 1
        n += 1
        if len(pending) >= 1000:
            flush(ctx, pending)
    flush(ctx, pending)
    ctx.note("targeted search after broken obligations / disagreements: %d concatenate / fill / export histories" % n)


def replay(ctx, rec):
    dendropy = __import__("dendropy")
    c = rec["replay"]
    pending = []
    if c.get("seq3"):
        seq_case(ctx, dendropy, {"seq3": True, "init": c["init"], "calls": c["calls"]}, pending)
    elif c.get("world"):
        world_case(ctx, dendropy, {"world": True, "dtype": c["dtype"], "ns_sizes": c["ns_sizes"], "init": c["init"],
                                   "calls": c["calls"]}, pending)
    elif c.get("fasta"):
        fasta_case(ctx, dendropy, {"fasta": c["fasta"], "kind": c.get("kind")}, pending)
    elif c.get("stream"):
        stream_case(ctx, dendropy, {"labels": c["labels"], "titles": c["titles"], "rows": c["rows"],
                                    "via": c.get("via", "streams"), "kind": c.get("kind"), "bad": c.get("bad", {}),
                                    "missing": c.get("missing", [])}, pending)
    else:
        run_history(ctx, dendropy, {"dtype": c["dtype"], "ns_sizes": c["ns_sizes"], "init": c["init"], "ops": c["ops"]},
                    pending, shrink=False)
    flush(ctx, pending)
