"""C14 - path distances and common ancestors are exact, and NJ/UPGMA invert them."""
import io
import itertools
import os
from fractions import Fraction

import treeutil as tu
from common import time_limit

ID = "C14"
GEN_DEPENDS = ["C14Kernels"]
RULE = ("(pdm) random rose trees (1-12 leaves quick, up to 40 thorough; polytomies, unary nodes, fixed families, None/zero/dyadic lengths, "
        "any rooting flag, namespaces with extra members and shuffled bits): every ordered leaf pair x {patristic, edge count, mrca}, "
        "distances(), sums, mean-pairwise / nearest-taxon under random taxon filters, weighting and normalisation, treemeasure.patristic_distance, "
        "NodeDistanceMatrix; (tm) treemeasure.patristic_distance under current / never-made / stale encodings x refresh flag, compared with "
        "the model op `tm`; (mrca) same trees x random/all taxon subsets x start node x {current, never encoded, stale} encodings x refresh flag "
        "x {taxa, taxon_labels, leafset_bitmask}; (nj/upgma) additive / ultrametric dyadic matrices generated from random trees with positive "
        "lengths (binary and polytomous; 40% with near-ties: internal edges of 2^-33 … 2^-20 next to heights of order 1 under a random "
        "taxon-to-leaf mapping, so the true minimum beats the runner-up by < 1e-9 relative yet by many ulps), the same read back from CSV, unit-length (edge count) matrices, and arbitrary dyadic matrices "
        "(model comparison only); for every NJ / UPGMA run the path lengths in the returned tree (independent walk) are compared with the model's "
        "NT.dist of its own result (op `ntdist`) and, for tree-generated input, with the input matrix; half of the NJ / UPGMA runs go through a "
        "tracing tree class whose node_factory records the loop state at the head of every pass (pool order, _nj_xsub of every member; "
        "_upgma_distance_from_tip, cluster size and the halved minimum), compared with the model ops `njtrace` / `uptrace`; "
        "(hist) histories on ONE PhylogeneticDistanceMatrix and ONE NodeDistanceMatrix object over a shared namespace: compile_from_tree -> "
        "queries -> in-place edit of the tree (new lengths, taxon swap, subtree move, graft of an unused taxon, prune, reroot_at_node) or another "
        "tree over the same namespace (more / fewer taxa, other order) -> compile_from_tree again / clear() / compile_from_dict / write_csv + from_csv / "
        "Tree.phylogenetic_distance_matrix() and node_distance_matrix() called twice after an edit / nj_tree and upgma_tree run twice on the same object "
        "(same result, matrix unaltered); after every step every ordered leaf pair (length, edge count, mrca must be THE turning node of the CURRENT tree), "
        "mapped taxa, distances(), sums, MPD / MNTD (both weightings, normalised or not) and every node pair of the NodeDistanceMatrix are judged by the "
        "root-path oracle on the tree as it is at that moment; "
        "(mix) magnitude-mixed trees (twigs 1e-12 … 1e-6 below stems 1e3 … 1e12, the reverse, or per-edge draws; arbitrary doubles; ladders, stars, balanced and random "
        "shapes): taxon-keyed matrix (entries, distances(), sums, MPD / MNTD), NodeDistanceMatrix and treemeasure.patristic_distance (refresh or current encoding; "
        "a quarter of the tm cases too) judged by the exact Fraction path sum against the float returned within 1e-9 RELATIVE (edge counts and common ancestors exactly), "
        "tm also compared with the exact model within the same tolerance; any disagreement between implementation and model about WHETHER a call raises (or which error) is an "
        "oracle failure of kind `refusal` with a replay; "
        "thorough adds every shape <= 6 leaves (incl. one such history per shape). When an obligation breaks or model and code disagree, `search` runs up to 2500 (thorough 40000) "
        "traced reconstruction cases on 2-12 taxa. Non-trivial = >= 4 leaves.")
MODELLED_NOT_VERIFIED = [
    "C14: the Lean functions walk/pairNode/mirror/lookup/meanPairwise/meanNearest, scanT/scanL/tail/treeMrca/collapseBasal, njJoin/njPick/njRun, "
    "upJoin/upPick/upRun are hand-written from PhylogeneticDistanceMatrix.compile_from_tree/_mirror_lookups/_calculate_mean_*, Tree.mrca, "
    "nj_tree, upgma_tree; tied to the code by the per-case comparison (final trees, path lengths, and the traced loop states of NJ / UPGMA). "
    "The arithmetic kernels of nj_tree / upgma_tree (Q value, reduced distance, row-sum update, both branch-length formulas and their "
    "threshold, loop guard, strictness of both minimum searches, UPGMA edge lengths / height / size-weighted average) are NOT copied by hand "
    "only: harness/gen/c14kernels.py regenerates them from the source on every run (Gen/C14Kernels.lean) and gen_njQ, gen_njNewDist, "
    "gen_njJoin_d, gen_njJoin_x, gen_njLengths, gen_njContinue, gen_pick_strict, gen_upNewDist, gen_upJoin_sub, gen_upJoin_h prove the model's "
    "formulas equal to them over every field; pool iteration order, child order and the pdm / mrca walks stay hand-written",
    "C14: the theorems are proved for every commutative monoid / field of numbers and transported to the type the driver runs: "
    "`toRat` commutes with every `Frac` operation on fractions with non-zero denominator (Aux.toRat_add/sub/mul/div/natCast/lt), the models are "
    "natural in the number type (entries_nat, table_nat, nj_run_rel, up_run_rel), hence frac_pdm_spec, frac_pdm_lookup_spec, "
    "frac_mean_pairwise_both, frac_mntd, frac_nj_rowsum_invariant, frac_nj_tree, frac_upgma_tree, frac_upgma_recovers_tree, frac_treemeasure_spec speak about "
    "`entries fracLen taxonKey`, `meanPairwise`/`meanNearest`, `njTree`, `upgmaTree`, `treePatristic` at `Frac`; Tree.mrca needs no arithmetic. "
    "binary64 rounding in the library is not modelled "
    "(exact comparison on dyadic inputs; means, normalised values and NJ branch lengths within 1e-9)",
    "C14: NJ consistency (a Q-minimal pair of a metric with the strict four-point condition is a cherry) is proved for every number of labels "
    "(minQ_cherry_all, by Theory/C14Cherry.lean), hence nj_realises / nj_inverts_tree / frac_nj_realises: NJ returns a tree with exactly the input "
    "path lengths for every additive input with positive internal edges, and every edge of the source tree is metrically visible in the result with its full "
    "length (tree_edge_separates, nj_result_separates_source_edges). The converse half of the split characterisation is not proved, so there is no uniqueness theorem for additive trees and the last step of "
    "the NJ half of clause (d) — from 'the same path lengths' to 'the same unrooted topology and edge lengths' — is tested (split sets with lengths "
    "of result and generating tree, from-scratch walk), not proved. The UPGMA half is proved including topology (upgma_recovers_tree). The source "
    "trees of nj_inverts_tree / upgma_recovers_tree are binary trees of the result type NT; for the library's tree type T the composition pdm -> upgma is "
    "upgma_inverts_pdm, the composition pdm -> nj exists only in the harness",
    "C14: CSV formatting/parsing and NodeDistanceMatrix are judged by the oracle only (not modelled); treemeasure.patristic_distance is "
    "modelled (treePatristic, op `tm`) with every taxon on exactly one node (find_node is rendered as a search below the common ancestor)",
    "C14: on an unrooted tree a requested refresh collapses a basal bifurcation (encode_bipartitions default); the mrca clause is evaluated on the tree as it is after the call",
]
EXPLANATION = ("Theorems (Props/C14.lean), for every tree and every number type with the stated laws: (a) pdm_pairs_once, pdm_cells_nodup, pdm_spec / "
               "pdm_lookup_spec (each cell = length and edge count of the unique path, ancestor = node where it turns), pdm_symm, pdm_diag, "
               "pdm_mrca_spec; treemeasure_climb_spec / treemeasure_spec / treemeasure_current_spec / frac_treemeasure_spec (Tree.mrca descent + the two climbs of treemeasure.patristic_distance = "
               "the unique path length); (b) distances_spec, mean_pairwise_spec, mntd_spec + nearest_spec; (c) tree_mrca_spec + tree_mrca_deepest, "
               "tree_mrca_reencode_spec, tree_mrca_current_spec / tree_mrca_none_current, tree_mrca_value_error, tree_mrca_refresh_current, "
               "tree_mrca_stale_example; (d) UPGMA in full: upgma_realises (any matrix with the strong triangle inequality is realised exactly), "
               "ultra_three_point, upgma_inverts_ultrametric_tree, ultra_unique, upgma_recovers_tree (the source ultrametric tree with positive "
               "internal edges is returned up to child swaps, lengths included), upgma_avg_spec, upgma_ultrametric, upgma_terminates; NJ: "
               "nj_rowsum_invariant, nj_lengths_formula, nj_cherry_step, nj_terminates, nj_realises_three (<= 3 taxa unconditional). At the driver's "
               "own type Frac (toRat homomorphism + naturality): frac_pdm_spec, frac_pdm_lookup_spec, frac_mean_pairwise_both, frac_mntd, "
               "frac_nj_rowsum_invariant, frac_nj_tree, frac_upgma_tree, frac_upgma_recovers_tree. "
               "Stepping stones: nj_realises_of_cherry_picking (NJ inverts the matrix IF every picked pair is a cherry: the induction over "
               "contractions) and nj_recovers_tree_partial (one step). upgma_recovers_tree_partial is superseded by upgma_recovers_tree. "
               "Last round: MinQCherryAt N states the cherry-picking lemma about finite metrics; nj_realises_of_quartet_lemma reduces NJ's correctness to it "
               "(all NJ machinery discharged: nrel_quartet, qval_eq_Qfun, cherry_of_balanced); minQ_cherry_four / minQ_cherry_five prove it for pools of 4 and 5, hence "
               "nj_realises_five / frac_nj_realises_five; tree_four_point (distances of a tree with positive internal edges satisfy the strict four-point condition) gives "
               "nj_inverts_tree_five (NJ clause about trees, <= 5 taxa). "
               "Extension round 3: minQ_cherry_all proves MinQCherryAt N for EVERY N (the neighbour-joining consistency lemma of Saitou-Nei / Studier-Keppler, "
               "tree-free proof in Theory/C14Cherry.lean: order the other labels by where they leave the path f..g, take the smaller of the two extreme groups, "
               "its deepest pair - or f with its only member - has a strictly smaller Q), so the former partial results are discharged: nj_realises "
               "(NJ inverts every symmetric matrix with the strict four-point condition, any n), nj_inverts_tree (NJ on the path lengths of any binary tree with "
               "positive internal edges returns a tree with the same path lengths, any n; replaces nj_inverts_tree_partial), frac_nj_realises (at the driver's type). "
               "nj_realises_of_cherry_picking / nj_realises_of_quartet_lemma lost their _partial suffix: they are lemmas whose hypothesis is now discharged. "
               "Tie A: gen_njQ, gen_njNewDist, gen_njJoin_d, gen_njJoin_x, gen_njLengths, gen_njContinue, gen_pick_strict, gen_upNewDist, gen_upJoin_sub, gen_upJoin_h "
               "(model formulas = kernels regenerated from nj_tree / upgma_tree). nj_run_states, nj_states_inv, up_run_states: the states listed by the ops "
               "njtrace / uptrace are the states of njRun / upRun and satisfy the row-sum invariant. "
               "Wave 3: tree_edge_separates / tree_edge_separates_strict / tree_root_edge_separates (every edge of a tree with non-negative lengths separates the "
               "leaves below it from the leaves beyond it in the path lengths, d(a,a')+d(b,b')+2e <= d(a,b)+d(a',b'): the 'only if' half of the split characterisation of a "
               "tree metric) and nj_result_separates_source_edges (in the tree NJ returns every edge of the source tree is metrically visible with its full length). "
               "Still partial by name: nj_recovers_tree_partial, upgma_recovers_tree_partial (one-step lemmas, superseded). Missing: the 'if' half of the split "
               "characterisation (a bipartition separated in the path lengths is an edge of the tree), hence uniqueness of the tree realising an additive metric "
               "(topology of the NJ result is tested, not proved), and the pdm -> NJ composition on the library's tree type T.")

TOL = 1e-9


# ------------------------------------------------------------------ small helpers
def fr(x):
    return tu.frac(x)


def close(a, b, tol=TOL):
    a, b = float(a), float(b)
    return abs(a - b) <= tol * max(1.0, abs(a), abs(b))


def relclose(got, want, tol=Fraction(1, 10 ** 9)):
    """|got - want| <= 1e-9 * |want| in exact arithmetic: what binary64 summation of a handful of positive edge lengths is allowed to lose
    (k terms lose at most k * 2^-53 relative); a result obtained by subtracting large root distances does not meet it"""
    got, want = Fraction(got), Fraction(want)
    return abs(got - want) <= tol * abs(want)


ERRORS = ("AssertionError", "AttributeError", "ValueError", "KeyError", "IndexError", "TypeError", "ZeroDivisionError")


def kbit(taxon):
    """the harness names the taxon of bit k `t<k>`: the key of a taxon is read off its label, not asked of the library"""
    return int(taxon.label[1:])


def leaves_lr(tree):
    return [nd for nd in tu.walk(tree.seed_node) if not nd._child_nodes]


def depth_map(tree):
    """id(node) -> (depth, parent) by plain walk"""
    out = {id(tree.seed_node): (0, None)}
    for nd in tu.walk(tree.seed_node):
        for c in nd._child_nodes:
            out[id(c)] = (out[id(nd)][0] + 1, nd)
    return out


def oracle_pairs(tree, ids):
    """independent: {(bitA, bitB): (Fraction length, edges, id of turning node)} for ordered pairs of distinct leaves,
    from root paths (None = 0)"""
    tns = tree.taxon_namespace
    dm = depth_map(tree)

    def rootpath(nd):
        p = []
        while nd is not None:
            p.append(nd)
            nd = dm[id(nd)][1]
        return p[::-1]
    lv = leaves_lr(tree)
    paths = [rootpath(x) for x in lv]
    out = {}
    for i, a in enumerate(lv):
        for j, b in enumerate(lv):
            if i == j:
                continue
            pa, pb = paths[i], paths[j]
            k = 0
            while k < len(pa) and k < len(pb) and pa[k] is pb[k]:
                k += 1
            d = sum((tu.F(x.edge.length) for x in pa[k:]), Fraction(0)) + sum((tu.F(x.edge.length) for x in pb[k:]), Fraction(0))
            out[(kbit(a.taxon), kbit(b.taxon))] = (d, len(pa) - k + len(pb) - k, ids.of(pa[k - 1]))
    return out


def good_tree(tree):
    """every leaf has a taxon and no taxon occurs twice"""
    lv = leaves_lr(tree)
    tx = [x.taxon for x in lv]
    return all(t is not None for t in tx) and len(set(map(id, tx))) == len(tx)


# ------------------------------------------------------------------ op pdm
def parse_cells(words):
    cells = {}
    for w in words:
        p = w.split(":")
        if len(p) == 3:
            cells[(int(p[0]), int(p[1]))] = None
        else:
            cells[(int(p[0]), int(p[1]))] = (Fraction(p[2]), int(p[3]), int(p[4]))
    return cells


def show_cells(cells):
    return " ".join("%d:%d:%s" % (k[0], k[1], "none" if v is None else "%s:%d:%d" % (fr(v[0]), v[1], v[2])) for k, v in sorted(cells.items()))


def case_pdm(ctx, dendropy, case, pending):
    toks = case["tree"]
    rooted = case.get("rooted")
    tree, ids = tu.tree_from_tokens(dendropy, toks, rooted=rooted)
    tns = tree.taxon_namespace
    lv = leaves_lr(tree)
    n = len(lv)
    ctx.case(["pdm", toks, rooted, case.get("summ")], n >= 4, sample=case, kind="pdm")
    try:
        with time_limit(30):
            pdm = tree.phylogenetic_distance_matrix()
        err = None
    except AssertionError:
        err = "AssertionError"
    if err or not good_tree(tree):
        # leaves without taxa / repeated taxa: outside the statement; only the error class is compared
        if all(x.taxon is not None for x in lv):
            return
        pending.append(("pdm " + " ".join(toks), case, err or "ok", "err"))
        return
    # the tree must not have been changed by compiling the matrix
    if tu.encode_tree(tree, ids)[0] != toks:
        ctx.fail("pdm-mutates", "phylogenetic_distance_matrix() changed the tree", case)
    want = oracle_pairs(tree, ids)
    got = {}
    taxa = [x.taxon for x in lv]
    bits = [kbit(t) for t in taxa]
    internal_root = bool(tree.seed_node._child_nodes)
    for a, ba in zip(taxa, bits):
        for b, bb in zip(taxa, bits):
            try:
                d = pdm.patristic_distance(a, b)
                s = pdm.path_edge_count(a, b)
                dd = pdm.distance(a, b)
                ss = pdm.distance(a, b, is_weighted_edge_distances=False)
                call = pdm(a, b)
                m = pdm.mrca(a, b) if internal_root else None
            except KeyError:
                ctx.fail("pdm-missing", "no matrix entry for leaf taxa bits (%d,%d)" % (ba, bb), case)
                return
            if not (d == dd == call and s == ss):
                ctx.fail("pdm-accessors", "distance()/__call__ differ from patristic_distance/path_edge_count for bits (%d,%d)" % (ba, bb), case)
            if a is b:
                if d != 0 or s != 0 or (internal_root and m is not lv[bits.index(ba)]):
                    ctx.fail("pdm-diagonal", "self distance of bit %d is (%r, %r), mrca is the leaf: %s" % (
                        ba, d, s, m is lv[bits.index(ba)]), case)
                if not internal_root:
                    continue
            got[(ba, bb)] = (Fraction(d), s, ids.of(m))
    if n >= 2:
        for k in sorted(want):
            if got.get(k) != want[k]:
                g = got.get(k, (None, None, None))
                ctx.fail("pdm-entry", "taxa bits %s: matrix gives (length %s, edges %s, mrca node %s); unique path has (length %s, edges %s, turning node %s)" % (
                    k, "missing" if g[0] is None else fr(g[0]), g[1], g[2], fr(want[k][0]), want[k][1], want[k][2]), case)
                break
        for (a, b), v in got.items():
            if got.get((b, a)) != v:
                ctx.fail("pdm-symmetry", "entry %s differs from its mirror" % ((a, b),), case)
                break
    # distances(): every unordered pair exactly once
    for weighted in (True, False):
        ds = sorted(Fraction(x) for x in pdm.distances(is_weighted_edge_distances=weighted))
        wd = sorted(Fraction(v[0] if weighted else v[1]) for (a, b), v in want.items() if a < b)
        if ds != wd:
            ctx.fail("pdm-distances", "distances(weighted=%s) = [%s]; the unordered leaf pairs have [%s]" % (
                weighted, " ".join(map(fr, ds)), " ".join(map(fr, wd))), case)
        if Fraction(pdm.sum_of_distances(is_weighted_edge_distances=weighted)) != sum(wd, Fraction(0)):
            ctx.fail("pdm-sum", "sum_of_distances(weighted=%s) is not the sum over unordered pairs" % weighted, case)
    npairs = len(list(pdm.distinct_taxon_pair_iter()))
    if npairs != n * (n - 1) // 2:
        ctx.fail("pdm-pairs", "distinct_taxon_pair_iter yields %d pairs for %d leaves" % (npairs, n), case)
    if internal_root and sorted(kbit(t) for t in pdm.taxon_iter()) != sorted(bits):
        ctx.fail("pdm-taxa", "taxon_iter does not yield exactly the leaf taxa", case)
    if n >= 2:
        mx = pdm.max_pairwise_distance_taxa()
        mxb = tuple(kbit(x) for x in mx)
        if mxb not in want or want[mxb][0] != max(v[0] for v in want.values()):
            ctx.fail("pdm-max", "max_pairwise_distance_taxa is not a pair at maximal distance", case)
    pending.append(("pdm " + " ".join(toks), case, (show_cells(got), fr(tu.total_length(tree)), str(len(ids))), "cells"))
    pending.append(("spec " + " ".join(toks), case, show_cells(want), "spec"))
    # summaries
    total = tu.total_length(tree)
    nedges = len(ids)
    for (kind, weighted, norm, keepbits) in case.get("summ", []):
        if norm and weighted and total == 0:
            continue
        keep = None if keepbits is None else set(keepbits)
        ff = None if keep is None else (lambda t: kbit(t) in keep)
        fn = pdm.mean_pairwise_distance if kind == "mpd" else pdm.mean_nearest_taxon_distance
        try:
            r = fn(filter_fn=ff, is_weighted_edge_distances=weighted, is_normalize_by_tree_size=norm)
        except dendropy.utility.error.NullAssemblageException:
            r = None
        kb = [b for b in bits if keep is None or b in keep]
        val = (lambda a, b: want[(a, b)][0]) if weighted else (lambda a, b: Fraction(want[(a, b)][1]))
        nf = (total if weighted else Fraction(nedges)) if norm else Fraction(1)
        if kind == "mpd":
            vals = [val(a, b) for a, b in itertools.combinations(kb, 2)]
        else:
            vals = [min(val(a, b) for b in kb if b != a) for a in kb] if len(kb) >= 2 else []
        exact = None if not vals else sum(vals, Fraction(0)) / nf / len(vals)
        if (r is None) != (exact is None) or (r is not None and not close(r, exact, 1e-12)):
            ctx.fail("summary-" + kind, "%s(keep=%s, weighted=%s, normalised=%s) = %r; the average of the entries is %s" % (
                kind, keepbits, weighted, norm, r, None if exact is None else fr(exact)), case)
        line = "summ %s %d %d %s %s" % (kind, 1 if weighted else 0, 1 if norm else 0,
                                        "*" if keep is None else ("-" if not keep else ",".join(map(str, sorted(keep)))), " ".join(toks))
        pending.append((line, case, r, "approx"))
    for (weighted, norm) in case.get("dists", []):
        if norm and weighted and total == 0:
            continue
        ds = sorted(pdm.distances(is_weighted_edge_distances=weighted, is_normalize_by_tree_size=norm))
        nf = (total if weighted else Fraction(nedges)) if norm else Fraction(1)
        wd = sorted((v[0] if weighted else Fraction(v[1])) / nf for (a, b), v in want.items() if a < b)
        if len(ds) != len(wd) or any(not close(x, y, 1e-12) for x, y in zip(ds, wd)):
            ctx.fail("pdm-distances", "distances(weighted=%s, normalised=%s) is not the list of path values over the unordered leaf pairs" % (
                weighted, norm), case)
        pending.append(("summ dists %d %d * %s" % (1 if weighted else 0, 1 if norm else 0, " ".join(toks)), case, ds, "approx-list"))
    # treemeasure.patristic_distance and NodeDistanceMatrix (oracle only); they may re-encode, so work on rebuilt copies
    if case.get("tm") and n >= 2:
        from dendropy.calculate import treemeasure
        for (ba, bb, upd) in case["tm"]:
            t2, ids2 = tu.tree_from_tokens(dendropy, toks, rooted=rooted)
            if not upd:
                t2.encode_bipartitions(suppress_unifurcations=False, collapse_unrooted_basal_bifurcation=False)
            by = {kbit(x.taxon): x.taxon for x in leaves_lr(t2)}
            with time_limit(30):
                d = treemeasure.patristic_distance(t2, by[ba], by[bb], is_bipartitions_updated=not upd)
            w = Fraction(0) if ba == bb else want[(ba, bb)][0]
            if Fraction(d) != w:
                ctx.fail("treemeasure", "treemeasure.patristic_distance(bits %d,%d, refresh=%s) = %s; path length is %s" % (ba, bb, upd, fr(d), fr(w)), case)
    if case.get("ndm"):
        judge_ndm(ctx, tree.node_distance_matrix(), tree, case, "")


def judge_ndm(ctx, ndm, tree, case, tag, rel=False):
    """every ordered pair of nodes of the CURRENT tree: length, edge count and common ancestor (a node of this tree) from root paths"""
    nodes = tu.walk(tree.seed_node)
    dm = depth_map(tree)
    num = {id(x): i for i, x in enumerate(nodes)}

    def up(nd):
        p = []
        while nd is not None:
            p.append(nd)
            nd = dm[id(nd)][1]
        return p[::-1]
    ps = [up(x) for x in nodes]
    for i, a in enumerate(nodes):
        for j, b in enumerate(nodes):
            pa, pb = ps[i], ps[j]
            k = 0
            while k < len(pa) and k < len(pb) and pa[k] is pb[k]:
                k += 1
            w = sum((tu.F(x.edge.length) for x in pa[k:] + pb[k:]), Fraction(0))
            ws = len(pa) + len(pb) - 2 * k
            try:
                gd, gs, gm = ndm.patristic_distance(a, b), ndm.path_edge_count(a, b), ndm.mrca(a, b)
            except KeyError:
                ctx.fail("node-distance-matrix", "%sNodeDistanceMatrix has no entry for nodes (%d,%d) (pre-order numbers)" % (tag, i, j), case)
                return False
            if (not relclose(gd, w) if rel else Fraction(gd) != w) or gs != ws or gm is not pa[k - 1]:
                ctx.fail("node-distance-matrix", "%sNodeDistanceMatrix nodes (%d,%d) (pre-order numbers): (%s, %s, mrca %s), path has (%s, %s, %s)" % (
                    tag, i, j, fr(gd), gs, num.get(id(gm), "not a node of the current tree"), fr(w), ws, num[id(pa[k - 1])]), case)
                return False
    return True


# ------------------------------------------------------------------ op mrca
def stale_mutation(tree, ids, how, dendropy=None):
    """change the tree without re-encoding; returns the taxon bit whose presence on the tree changed (graft / prune), else None"""
    nodes = [ids.node(i) for i in range(len(ids))]
    lv = [x for x in nodes if not x._child_nodes]
    if how[0] == "swap" and len(lv) >= 2:
        a, b = lv[how[1] % len(lv)], lv[how[2] % len(lv)]
        a.taxon, b.taxon = b.taxon, a.taxon
    elif how[0] == "move":
        cand = [x for x in nodes if x._parent_node is not None]
        if cand:
            x = cand[how[1] % len(cand)]
            below = set(map(id, tu.walk(x)))
            dest = [y for y in nodes if id(y) not in below and y is not x._parent_node and y._child_nodes]
            if dest:
                y = dest[how[2] % len(dest)]
                x._parent_node.remove_child(x)
                y.add_child(x)
    elif how[0] == "graft" and dendropy is not None:
        # a new leaf with a taxon that was not on the tree: the leaf set grows
        tns = tree.taxon_namespace
        used = {int(x.taxon.label[1:]) for x in lv if x.taxon is not None}
        by_bit = {int(t.label[1:]): t for t in tns}
        k = 0
        while k in used:
            k += 1
        if k not in by_bit:
            if k != len(tns):
                return None
            by_bit[k] = tns.new_taxon(label="t%d" % k)
        dest = [y for y in nodes if y._child_nodes]
        if not dest:
            return None
        nd = dendropy.Node()
        nd.taxon = by_bit[k]
        nd.edge.length = 1.0
        dest[how[1] % len(dest)].add_child(nd)
        return k
    elif how[0] == "prune" and len(lv) >= 3:
        # a leaf goes away: the leaf set shrinks
        cand = [x for x in lv if x._parent_node is not None and len(x._parent_node._child_nodes) >= 2 and x.taxon is not None]
        if cand:
            x = cand[how[1] % len(cand)]
            x._parent_node.remove_child(x)
            return int(x.taxon.label[1:])
    return None


def label_masks(tree):
    """leaf sets as bit masks with the bit read off the taxon label `t<k>` (independent of TaxonNamespace.accession_index / taxa_bitmask)"""
    masks = {}
    for nd in reversed(tu.walk(tree.seed_node)):
        if not nd._child_nodes:
            masks[id(nd)] = 0 if nd.taxon is None else (1 << int(nd.taxon.label[1:]))
        else:
            m = 0
            for c in nd._child_nodes:
                m |= masks[id(c)]
            masks[id(nd)] = m
    return masks


def shape_of(nd, ids):
    """structure only, same text as the driver's `shape`"""
    return "(" + " ".join([str(ids.of(nd))] + [shape_of(c, ids) for c in nd._child_nodes]) + ")"


def case_mrca(ctx, dendropy, case, pending):
    toks = case["tree"]
    rooted = case["rooted"]
    tree, ids = tu.tree_from_tokens(dendropy, toks, rooted=rooted)
    tns = tree.taxon_namespace
    enc = case["enc"]
    if enc in ("fresh", "stale"):
        tree.encode_bipartitions(suppress_unifurcations=False, collapse_unrooted_basal_bifurcation=False)
    affected = None
    if enc == "stale":
        affected = stale_mutation(tree, ids, case["how"], dendropy)
    toks2, _ = tu.encode_tree(tree, ids)          # ids keep their numbers; this is the tree the query runs on
    order = tu.Ids().assign_preorder(tree)
    if len(order) != len(ids) or [ids.of(order.node(i)) for i in range(len(order))] != list(range(len(order))):
        # protocol numbering must be pre-order over the nodes now on the tree: renumber
        ids = order
        toks2, _ = tu.encode_tree(tree, ids)
    stored = [ids.node(i).edge.bipartition.leafset_bitmask for i in range(len(ids))]
    target = case["target"]
    if affected is not None and case.get("aim"):
        target |= 1 << affected       # ask about the taxon whose presence changed since the encoding
    start = case["start"] % len(ids)
    refresh = case["refresh"]
    route = case["route"]
    if not rooted and len(tree.seed_node._child_nodes) == 2 and ids.node(start)._parent_node is tree.seed_node:
        start = 0       # a re-encoding may dissolve a child of an unrooted seed: keep the start node out of it
    ctx.case(["mrca", toks, rooted, enc, case.get("how"), target, start, refresh, route, case.get("aim")],
             len(leaves_lr(tree)) >= 4, sample=case, kind="mrca-" + enc)
    by_bit = {int(t.label[1:]): t for t in tns}      # tree_from_tokens labels the taxon of bit k `t<k>`
    tbits = [i for i in range(target.bit_length()) if target >> i & 1]
    kw = {}
    if start != 0 or case.get("explicit_start"):
        kw["start_node"] = ids.node(start)
    if refresh is not None:
        kw["is_bipartitions_updated"] = not refresh
    if route == "taxa" and all(b in by_bit for b in tbits):
        kw["taxa"] = [by_bit[b] for b in tbits]
    elif route == "labels" and all(b in by_bit for b in tbits):
        kw["taxon_labels"] = [by_bit[b].label for b in tbits]
    else:
        kw["leafset_bitmask"] = target
    masks0 = label_masks(tree)
    current = all(stored[i] == masks0[id(ids.node(i))] for i in range(len(ids)))
    try:
        with time_limit(30):
            r = tree.mrca(**kw)
        got = "None" if r is None else str(ids.of(r))
    except ValueError:
        got = "ValueError"
    # oracle (c): deepest node below start whose leaves (from-scratch walk of the tree as it is now) include all
    if got != "ValueError" and (current or refresh or stored[start] == 0) and ids.node(start) in tu.walk(tree.seed_node):
        masks = label_masks(tree)
        dm = depth_map(tree)
        sub = tu.walk(ids.node(start))
        cover = [x for x in sub if masks[id(x)] & target == target]
        if not cover:
            want = "None"
        else:
            deepest = max(dm[id(x)][0] for x in cover)
            want = sorted(str(ids.of(x)) for x in cover if dm[id(x)][0] == deepest)
            want = want[0] if len(want) == 1 else want
        # well-formedness the statement presupposes: every leaf below carries a taxon, none twice
        sibs_ok = all(masks[id(x)] for x in sub) and all(
            not (masks[id(a)] & masks[id(b)]) for x in sub for a, b in itertools.combinations(x._child_nodes, 2))
        if sibs_ok and got != want:
            ctx.fail("tree-mrca", "Tree.mrca(mask %d via %s, start %d, encoding %s, refresh %s) returned node %s; deepest node whose leaves include them all is %s" % (
                target, route, start, enc, refresh, got, want), case)
    elif got == "ValueError" and target != 0:
        ctx.fail("tree-mrca", "ValueError for a non-empty taxon set", case)
    after = shape_of(tree.seed_node, ids)
    line = "mrca %d %d %d %d %s %s" % (1 if rooted else 0, 1 if refresh else 0, target, start,
                                       ",".join(map(str, stored)) or "-", " ".join(toks2))
    pending.append((line, case, got if got == "ValueError" else got + " | " + after, "exact"))


def case_tm(ctx, dendropy, case, pending):
    """treemeasure.patristic_distance under current / never-made / stale encodings and both refresh settings:
    model comparison (op `tm`) and, where the statement applies, the path-length oracle"""
    from dendropy.calculate import treemeasure
    toks = case["tree"]
    rooted = case["rooted"]
    tree, ids = tu.tree_from_tokens(dendropy, toks, rooted=rooted)
    tns = tree.taxon_namespace
    enc = case["enc"]
    if enc in ("fresh", "stale"):
        tree.encode_bipartitions(suppress_unifurcations=False, collapse_unrooted_basal_bifurcation=False)
    affected = None
    if enc == "stale":
        affected = stale_mutation(tree, ids, case["how"], dendropy)
    order = tu.Ids().assign_preorder(tree)
    if len(order) != len(ids) or [ids.of(order.node(i)) for i in range(len(order))] != list(range(len(order))):
        ids = order
    toks2, _ = tu.encode_tree(tree, ids)
    stored = [ids.node(i).edge.bipartition.leafset_bitmask for i in range(len(ids))]
    refresh = case["refresh"]
    lv = leaves_lr(tree)
    ctx.case(["tm", toks, rooted, enc, case.get("how"), case["a"], case["b"], refresh, case.get("aim")], len(lv) >= 4, sample=case, kind="tm-" + enc)
    by_bit = {int(t.label[1:]): t for t in tns}
    a, b = case["a"], case["b"]
    if affected is not None and case.get("aim"):
        b = affected
    by_bit = {int(t.label[1:]): t for t in tns}
    if a not in by_bit or b not in by_bit:
        return
    masks0 = label_masks(tree)
    nodes = tu.walk(tree.seed_node)
    current = all(stored[ids.of(x)] == masks0[id(x)] for x in nodes)
    wellformed = good_tree(tree) and all(x.taxon is None for x in nodes if x._child_nodes) and all(masks0[id(x)] for x in nodes)
    want = oracle_pairs(tree, ids) if wellformed else {}
    try:
        with time_limit(30):
            d = treemeasure.patristic_distance(tree, by_bit[a], by_bit[b], is_bipartitions_updated=not refresh)
        got = fr(d)
    except AttributeError:
        got = "AttributeError"
    except ValueError:
        got = "ValueError"
    if wellformed and (current or refresh or stored[0] == 0) and all(any(x.taxon is by_bit[k] for x in lv) for k in (a, b)):
        w = Fraction(0) if a == b else want[(a, b)][0]
        if got in ("AttributeError", "ValueError") or (not relclose(Fraction(got), w) if case.get("mixed") else Fraction(got) != w):
            ctx.fail("treemeasure", "treemeasure.patristic_distance(bits %d,%d, encoding %s, refresh=%s) = %s; path length is %s" % (
                a, b, enc, refresh, got, fr(w)), case)
    line = "tm %d %d %d %d %s %s" % (1 if rooted else 0, 1 if refresh else 0, a, b, ",".join(map(str, stored)) or "-", " ".join(toks2))
    pending.append((line, case, got, "rel" if case.get("mixed") else "exact"))


# ------------------------------------------------------------------ op mix: magnitude-mixed edge lengths
def mixed_lengths(rng, toks):
    """rewrite the length column with lengths of very different magnitude: twigs of 1e-12 … 1e-6 below stems of 1e3 … 1e12, the reverse,
    or an independent draw per edge (arbitrary doubles, not dyadic): sums of a few positive terms stay accurate to ~1e-15 relative,
    a difference of two root distances does not"""
    k = int(toks[0])
    par = [int(x) for x in toks[1:1 + k]]
    leaf = [str(i) not in toks[1:1 + k] for i in range(k)]
    toks = list(toks)
    pattern = rng.choice(["twigs", "twigs", "reverse", "any"])

    def small():
        return rng.uniform(1, 10) * 10.0 ** (-rng.randint(6, 12))

    def big():
        return rng.uniform(1, 10) * 10.0 ** rng.randint(3, 12)
    for i in range(k):
        if par[i] < 0:
            toks[1 + 2 * k + i] = "N"
            continue
        r = rng.random()
        if r < 0.04:
            v = None
        elif pattern == "any":
            v = small() if rng.random() < 0.5 else big()
        elif (pattern == "twigs") == leaf[i]:
            v = small()
        else:
            v = big() if rng.random() < 0.85 else small()
        toks[1 + 2 * k + i] = "N" if v is None else fr(v)
    return toks


def gen_mix(ctx, dendropy, rng, max_leaves):
    n = rng.randint(2, max_leaves)
    r = rng.random()
    if r < 0.35:
        shape = rng.choice(tu.shape_families(n))
    else:
        shape = tu.rand_shape(rng, n, p_poly=rng.choice([0.0, 0.2, 0.5]), p_unary=rng.choice([0.0, 0.1]))
    tns = tu.make_namespace(dendropy, n, rng.randint(0, 2))
    tree = tu.build_tree(dendropy, shape, tns, rng.sample(list(tns), n), None, None)
    toks, ids = tu.encode_tree(tree)
    bits = sorted(tu.bit_of(tns, x.taxon) for x in leaves_lr(tree))
    pairs = [(rng.choice(bits), rng.choice(bits), rng.random() < 0.7) for _ in range(3)]
    # the first / last two leaves in pre-order: on ladders the recent cherry at the end of the backbone
    lvs = [tu.bit_of(tns, x.taxon) for x in leaves_lr(tree)]
    pairs.append((lvs[-2], lvs[-1], True))
    pairs.append((lvs[0], lvs[1], rng.random() < 0.5))
    return {"op": "mix", "tree": mixed_lengths(rng, toks), "rooted": rng.choice([True, True, False, None]), "pairs": pairs,
            "ndm": len(ids) <= 25}


def case_mix(ctx, dendropy, case, pending):
    """lengths of mixed magnitude through every route to a path length: the taxon-keyed matrix, the node matrix,
    treemeasure.patristic_distance (Tree.mrca + climbs); exact Fraction path sums against the floats returned, 1e-9 relative"""
    from dendropy.calculate import treemeasure
    toks = case["tree"]
    rooted = case.get("rooted")
    tree, ids = tu.tree_from_tokens(dendropy, toks, rooted=rooted)
    n = len(leaves_lr(tree))
    ctx.case(["mix", toks, rooted, case.get("pairs")], n >= 4, sample=case, kind="mix")
    with time_limit(30):
        pdm = tree.phylogenetic_distance_matrix()
    if not judge_matrix(ctx, dendropy, pdm, tree, case, "", "full", rel=True):
        return
    if case.get("ndm") and not judge_ndm(ctx, tree.node_distance_matrix(), tree, case, "", rel=True):
        return
    want = oracle_nodes(tree)
    for (ba, bb, upd) in case.get("pairs", []):
        t2, ids2 = tu.tree_from_tokens(dendropy, toks, rooted=bool(rooted))
        if not upd:
            t2.encode_bipartitions(suppress_unifurcations=False, collapse_unrooted_basal_bifurcation=False)
        by = {kbit(x.taxon): x.taxon for x in leaves_lr(t2)}
        with time_limit(30):
            d = treemeasure.patristic_distance(t2, by[ba], by[bb], is_bipartitions_updated=not upd)
        w = Fraction(0) if ba == bb else want[(ba, bb)][0]
        if not relclose(d, w):
            ctx.fail("treemeasure", "treemeasure.patristic_distance(bits %d,%d, refresh=%s) = %r; the edge lengths on the path sum to %r (exactly %s)" % (
                ba, bb, upd, d, float(w), fr(w)), case)
            return
        # model (exact rationals) on the same tree; a rooted tree is not altered by the refresh
        stored = [0] * len(ids2) if upd else [ids2.node(i).edge.bipartition.leafset_bitmask for i in range(len(ids2))]
        if rooted:
            pending.append(("tm 1 %d %d %d %s %s" % (1 if upd else 0, ba, bb, ",".join(map(str, stored)), " ".join(toks)), case, fr(d), "rel"))


# ------------------------------------------------------------------ op nj / upgma
def flat_impl(tree, index_of):
    """pre-order flattening of a result tree: N lenF lenG <F> <G> / L i"""
    out = []

    def go(nd):
        ch = nd._child_nodes
        if not ch:
            out.extend(["L", str(index_of[id(nd.taxon)])])
        elif len(ch) == 2:
            out.extend(["N", ch[0].edge.length, ch[1].edge.length])
            go(ch[0])
            go(ch[1])
        else:
            out.extend(["X%d" % len(ch)])
    go(tree.seed_node)
    return out


def flat_equal(impl, model_words, exact):
    if len(impl) != len(model_words):
        return False
    for a, b in zip(impl, model_words):
        if isinstance(a, str):
            if a != b:
                return False
        else:
            if a is None:
                return False
            if exact:
                if Fraction(a) != Fraction(b):
                    return False
            elif not close(a, Fraction(b)):
                return False
    return True


def flat_show(impl):
    return " ".join(x if isinstance(x, str) else fr(x) for x in impl)


def usplits(tree, tol_zero=False, rooted=False):
    """from-scratch {frozenset(leaf labels): length}.  Unrooted: each edge keyed by the side not containing the smallest label,
    edges meeting at a degree-2 node merged; rooted: clades. Zero-length internal edges dropped when tol_zero."""
    seed = tree.seed_node
    below = {}
    order = tu.walk(seed)
    for nd in reversed(order):
        if not nd._child_nodes:
            below[id(nd)] = frozenset([nd.taxon.label])
        else:
            s = frozenset()
            for c in nd._child_nodes:
                s |= below[id(c)]
            below[id(nd)] = s
    allx = below[id(seed)]
    ref = min(allx)
    out = {}
    for nd in order:
        if nd is seed:
            continue
        ln = tu.F(nd.edge.length) if nd.edge.length is not None else Fraction(0)
        s = below[id(nd)]
        if not rooted and ref in s:
            s = allx - s
        out[s] = out.get(s, Fraction(0)) + Fraction(ln)
    if tol_zero:
        out = {s: l for s, l in out.items() if len(s) == 1 or (not rooted and len(s) == len(allx) - 1) or abs(l) > 1e-12}
    return out


def compare_splits(a, b, exact):
    if set(a) != set(b):
        return "split sets differ: only in result %s; only in source %s" % (
            sorted(map(sorted, set(a) - set(b)))[:3], sorted(map(sorted, set(b) - set(a)))[:3])
    for s in a:
        if (a[s] != b[s]) if exact else (not close(a[s], b[s])):
            return "edge %s has length %s, source tree has %s" % (sorted(s), fr(a[s]), fr(b[s]))
    return None


def traced_run(dendropy, pdm, method, weighted):
    """nj_tree / upgma_tree with a tree class whose `node_factory` records, every time a node is created, the bookkeeping attributes of
    the nodes that carry them at that moment: inside the main loop that is the state at the head of a pass (pool in order with
    `_nj_xsub`, resp. `_upgma_distance_from_tip` and cluster size), an intermediate observable the result tree does not show.
    Returns (tree, [(pair picked, [(pool id, values…)])]) with pool ids as in the model: taxa 0..n-1 in pool order, joins n, n+1, …"""
    created, snaps = [], []

    class TraceTree(dendropy.Tree):
        @classmethod
        def node_factory(cls, **kwargs):
            if method == "nj":
                alive = [(nd, (nd._nj_xsub,)) for nd in created if hasattr(nd, "_nj_xsub")]
            else:
                alive = [(nd, (nd._upgma_distance_from_tip, len(nd._upgma_cluster))) for nd in created
                         if hasattr(nd, "_upgma_distance_from_tip")]
                if not all(getattr(nd, "_upgma_distances", None) for nd, _ in alive):
                    alive = []      # still filling the pool
            nd = super(TraceTree, cls).node_factory(**kwargs)
            created.append(nd)
            if alive:
                snaps.append((nd, alive))
            return nd
    with time_limit(60):
        res = (pdm.nj_tree if method == "nj" else pdm.upgma_tree)(is_weighted_edge_distances=weighted, tree_factory=TraceTree)
    seen = set()
    for _, alive in snaps:
        seen.update(id(nd) for nd, _ in alive)
    ident = {}
    for nd in created:
        if id(nd) in seen:
            ident[id(nd)] = len(ident)
    trace = []
    for new, alive in snaps:
        ch = new._child_nodes
        pair = tuple(ident.get(id(c), -1) for c in ch)
        vals = {id(nd): v for nd, v in alive}
        extra = None
        if method == "upgma" and len(ch) == 2 and ch[0].edge.length is not None and id(ch[0]) in vals:
            extra = 2 * (ch[0].edge.length + vals[id(ch[0])][0])      # the minimum distance that was halved
        trace.append((pair, extra, [(ident[id(nd)],) + tuple(v) for nd, v in alive]))
    return res, trace


def trace_show(trace):
    return " ".join("%s%s;%s" % (",".join(map(str, pair)), "" if extra is None else ":" + fr(extra),
                                 ",".join(":".join([str(row[0])] + [fr(x) if isinstance(x, float) else str(x) for x in row[1:]]) for row in rows))
                    for pair, extra, rows in trace)


def trace_equal(trace, model):
    items = model.split()
    if len(items) != len(trace):
        return False
    try:
        for (pair, extra, rows), it in zip(trace, items):
            head, body = it.split(";")
            hp = head.split(":")
            if tuple(int(x) for x in hp[0].split(",")) != pair:
                return False
            if extra is not None and (len(hp) != 2 or not close(extra, Fraction(hp[1]))):
                return False
            mrows = [r.split(":") for r in body.split(",")]
            if len(mrows) != len(rows):
                return False
            for row, mr in zip(rows, mrows):
                if int(mr[0]) != row[0] or len(mr) != len(row):
                    return False
                if not close(row[1], Fraction(mr[1])):
                    return False
                if len(row) > 2 and int(mr[2]) != row[2]:
                    return False
    except (ValueError, IndexError):
        return False
    return True


def run_matrix(ctx, dendropy, pdm, case, pending, source=None, weighted=True, methods=("nj", "upgma")):
    """NJ/UPGMA on `pdm`; model comparison; oracle against the generating tree `source` = (kind, tree)"""
    taxa = list(pdm.taxon_iter())
    n = len(taxa)
    if n == 0:
        return      # no taxon mapped (single-node tree): outside the statement
    index_of = {id(t): i for i, t in enumerate(taxa)}
    df = pdm.patristic_distance if weighted else pdm.path_edge_count
    mat = [[Fraction(0) if a is b else Fraction(df(a, b)) for b in taxa] for a in taxa]
    mwords = " ".join(fr(x) for row in mat for x in row)
    for method in methods:
        if method == "upgma" and n > 5 and not (source and source[0] == "ultrametric"):
            continue    # cluster averages leave the dyadics: float ties could be broken differently from the exact model
        if case.get("trace"):
            res, trace = traced_run(dendropy, pdm, method, weighted)
            pending.append(("%s %d %s" % ("njtrace" if method == "nj" else "uptrace", n, mwords), case, trace, "trace"))
        else:
            with time_limit(60):
                res = (pdm.nj_tree if method == "nj" else pdm.upgma_tree)(is_weighted_edge_distances=weighted)
        if (res.is_rooted is not False) if method == "nj" else (res.is_rooted is not True):
            ctx.fail(method + "-rooting", "%s result has is_rooted=%r" % (method, res.is_rooted), case)
        flat = flat_impl(res, index_of)
        exact = method == "upgma" and bool(source) and source[0] == "ultrametric"
        pending.append(("%s %d %s" % (method, n, mwords), case, flat, "flat-exact" if exact else "flat"))
        # path lengths between the taxa in the tree returned (independent walk), against the model's `NT.dist` of its own result
        lp = tu.leaf_paths(res)
        lab = [t.label for t in taxa]
        pd = {(i, j): lp[frozenset((lab[i], lab[j]))][0] for i in range(n) for j in range(i + 1, n)} if n >= 2 else {}
        pending.append(("ntdist %s %d %s" % (method, n, mwords), case, pd, "pairs-exact" if exact else "pairs"))
        if source is not None and n >= 2 and ((method == "nj" and source[0] in ("additive", "ultrametric")) or exact):
            # "NJ / UPGMA invert them": the tree returned realises the matrix it was given
            for (i, j), v in pd.items():
                if (Fraction(v) != mat[i][j]) if exact else (not close(v, mat[i][j])):
                    ctx.fail(method + "-inverts", "%s_tree: taxa %s,%s are %s apart in the tree returned, the matrix says %s" % (
                        method, lab[i], lab[j], fr(v), fr(mat[i][j])), case)
                    break
        if source is None or n < 2:
            continue
        kind, src = source
        if method == "nj" and kind in ("additive", "ultrametric"):
            w = usplits(src, tol_zero=True)
            g = usplits(res, tol_zero=True)
            msg = compare_splits(g, w, False)
            if msg:
                ctx.fail("nj-recovery", "nj_tree on the distances of a tree with positive internal lengths: " + msg, case)
        if method == "upgma" and kind == "ultrametric":
            w = usplits(src, tol_zero=True, rooted=True)
            g = usplits(res, tol_zero=True, rooted=True)
            msg = compare_splits(g, w, True)
            if msg:
                ctx.fail("upgma-recovery", "upgma_tree on the distances of an ultrametric tree: " + msg, case)


def case_recon(ctx, dendropy, case, pending):
    toks = case["tree"]
    tree, ids = tu.tree_from_tokens(dendropy, toks, rooted=case["kind"] == "ultrametric")
    n = len(leaves_lr(tree))
    ctx.case(["recon", toks, case["kind"], case.get("csv"), case.get("weighted", True)], n >= 4, sample=case,
             kind="recon-" + case["kind"] + ("-neartie" if case.get("neartie") else "") + ("-traced" if case.get("trace") else ""))
    pdm = tree.phylogenetic_distance_matrix()
    weighted = case.get("weighted", True)
    src = tree
    if not weighted:
        # edge-count distances are the path lengths of the same tree with unit lengths
        toks1 = list(toks)
        k = int(toks[0])
        for i in range(k):
            toks1[1 + 2 * k + i] = "1"
        src, _ = tu.tree_from_tokens(dendropy, toks1, rooted=False)
    if case.get("csv"):
        s = io.StringIO()
        pdm.write_csv(s, is_normalize_by_tree_size=False, is_weighted_edge_distances=weighted)
        pdm2 = dendropy.PhylogeneticDistanceMatrix.from_csv(io.StringIO(s.getvalue()), taxon_namespace=tree.taxon_namespace)
        taxa = [x.taxon for x in leaves_lr(tree)]
        df = pdm.patristic_distance if weighted else pdm.path_edge_count
        for a in taxa:
            for b in taxa:
                if a is not b and not close(pdm2.patristic_distance(a, b), df(a, b), 1e-12):
                    ctx.fail("csv-roundtrip", "distance %s-%s read back from CSV is %r, written from %r" % (
                        a.label, b.label, pdm2.patristic_distance(a, b), df(a, b)), case)
                    return
        run_matrix(ctx, dendropy, pdm2, case, pending, (case["kind"], src), True)
    else:
        run_matrix(ctx, dendropy, pdm, case, pending, (case["kind"], src), weighted,
                   methods=("nj", "upgma") if weighted else ("nj",))


def case_matrix(ctx, dendropy, case, pending):
    """arbitrary symmetric dyadic matrix through from_csv: model comparison only"""
    labels = case["labels"]
    rows = case["matrix"]
    n = len(labels)
    ctx.case(["matrix", labels, rows], n >= 4, sample=case, kind="matrix-traced" if case.get("trace") else "matrix")
    text = "," + ",".join(labels) + "\n" + "".join(
        labels[i] + "," + ",".join(repr(float(Fraction(x))) for x in rows[i]) + "\n" for i in range(n))
    pdm = dendropy.PhylogeneticDistanceMatrix.from_csv(io.StringIO(text))
    by = {t.label: t for t in pdm.taxon_iter()}
    for i in range(n):
        for j in range(i + 1, n):
            if not close(pdm.patristic_distance(by[labels[i]], by[labels[j]]), Fraction(rows[i][j]), 1e-12) or \
                    pdm.patristic_distance(by[labels[j]], by[labels[i]]) != pdm.patristic_distance(by[labels[i]], by[labels[j]]):
                ctx.fail("csv-read", "from_csv: cell (%s,%s) is %r, file says %s" % (
                    labels[i], labels[j], pdm.patristic_distance(by[labels[i]], by[labels[j]]), rows[i][j]), case)
                return
    run_matrix(ctx, dendropy, pdm, case, pending, None, True)


# ------------------------------------------------------------------ op hist: ONE matrix object through a history
def oracle_nodes(tree):
    """independent: {(bitA, bitB): (Fraction length, edges, turning node object)} for ordered pairs of distinct leaves of the tree as it is"""
    dm = depth_map(tree)

    def rootpath(nd):
        p = []
        while nd is not None:
            p.append(nd)
            nd = dm[id(nd)][1]
        return p[::-1]
    lv = leaves_lr(tree)
    paths = [rootpath(x) for x in lv]
    out = {}
    for i, a in enumerate(lv):
        for j, b in enumerate(lv):
            if i == j:
                continue
            pa, pb = paths[i], paths[j]
            k = 0
            while k < len(pa) and k < len(pb) and pa[k] is pb[k]:
                k += 1
            d = sum((tu.F(x.edge.length) for x in pa[k:] + pb[k:]), Fraction(0))
            out[(kbit(a.taxon), kbit(b.taxon))] = (d, len(pa) - k + len(pb) - k, pa[k - 1])
    return out


def judge_matrix(ctx, dendropy, pdm, tree, case, tag, level="full", rel=False):
    """the statement's matrix clause evaluated on a matrix object, whatever its past, against the tree AS IT IS NOW.
    level "full": lengths, edge counts, common ancestors (nodes of the current tree), taxa, distances(), sums, MPD / MNTD;
    level "dist": lengths only (matrix filled from a dict / read back from CSV)"""
    lv = leaves_lr(tree)
    n = len(lv)
    want = oracle_nodes(tree)
    taxa = [x.taxon for x in lv]
    bits = [kbit(t) for t in taxa]
    internal_root = bool(tree.seed_node._child_nodes)
    current = set(map(id, tu.walk(tree.seed_node)))
    if internal_root or level == "dist":
        mapped = sorted(kbit(t) for t in pdm.taxon_iter())
        if mapped != sorted(bits):
            ctx.fail("reuse-taxa", "%staxon_iter yields bits %s; the leaves of the tree carry %s" % (tag, mapped, sorted(bits)), case)
            return False
    got = {}
    for a, ba in zip(taxa, bits):
        for b, bb in zip(taxa, bits):
            if a is b:
                continue
            try:
                d = pdm.patristic_distance(a, b)
                if level == "full":
                    st, m = pdm.path_edge_count(a, b), pdm.mrca(a, b)
            except KeyError:
                ctx.fail("reuse-missing", "%sno matrix entry for leaf taxa bits (%d,%d)" % (tag, ba, bb), case)
                return False
            w = want[(ba, bb)]
            if level == "dist":
                if not close(d, w[0], 1e-12):
                    ctx.fail("reuse-entry", "%staxa bits (%d,%d): matrix gives length %s; the unique path has %s" % (tag, ba, bb, fr(d), fr(w[0])), case)
                    return False
                continue
            if (not relclose(d, w[0]) if rel else Fraction(d) != w[0]) or st != w[1]:
                ctx.fail("pdm-entry" if rel else "reuse-entry", "%staxa bits (%d,%d): matrix gives (length %s, edges %s); the unique path has (length %s, edges %s)" % (
                    tag, ba, bb, fr(d), st, fr(w[0]), w[1]), case)
                return False
            if m is not w[2]:
                ctx.fail("reuse-mrca", "%staxa bits (%d,%d): mrca() is %s" % (
                    tag, ba, bb, "another node of the current tree than the one where the path turns" if id(m) in current
                    else "not a node of the current tree"), case)
                return False
    if level != "full":
        return True
    for weighted in (True, False):
        ds = sorted(Fraction(x) for x in pdm.distances(is_weighted_edge_distances=weighted))
        wd = sorted(Fraction(v[0] if weighted else v[1]) for (a, b), v in want.items() if a < b)
        if (len(ds) != len(wd) or not all(relclose(x, y) for x, y in zip(ds, wd))) if rel else ds != wd:
            ctx.fail("reuse-distances", "%sdistances(weighted=%s) = [%s]; the unordered leaf pairs have [%s]" % (
                tag, weighted, " ".join(map(fr, ds)), " ".join(map(fr, wd))), case)
            return False
        sod = Fraction(pdm.sum_of_distances(is_weighted_edge_distances=weighted))
        if not relclose(sod, sum(wd, Fraction(0))) if rel else sod != sum(wd, Fraction(0)):
            ctx.fail("reuse-distances", "%ssum_of_distances(weighted=%s) is not the sum over unordered pairs" % (tag, weighted), case)
            return False
        total = tu.total_length(tree)
        nedges = len(tu.walk(tree.seed_node))
        for norm in (False, True):
            if norm and weighted and total == 0:
                continue
            nf = (total if weighted else Fraction(nedges)) if norm else Fraction(1)
            val = (lambda a, b: want[(a, b)][0]) if weighted else (lambda a, b: Fraction(want[(a, b)][1]))
            for kind in ("mpd", "mntd"):
                fn = pdm.mean_pairwise_distance if kind == "mpd" else pdm.mean_nearest_taxon_distance
                try:
                    r = fn(is_weighted_edge_distances=weighted, is_normalize_by_tree_size=norm)
                except dendropy.utility.error.NullAssemblageException:
                    r = None
                if kind == "mpd":
                    vals = [val(a, b) for a, b in itertools.combinations(bits, 2)]
                else:
                    vals = [min(val(a, b) for b in bits if b != a) for a in bits] if n >= 2 else []
                exact = None if not vals else sum(vals, Fraction(0)) / nf / len(vals)
                if (r is None) != (exact is None) or (r is not None and not (relclose(r, exact) if rel else close(r, exact, 1e-12))):
                    ctx.fail("summary-" + kind if rel else "reuse-summary", "%s%s(weighted=%s, normalised=%s) = %r; the average of the path values is %s" % (
                        tag, kind, weighted, norm, r, None if exact is None else fr(exact)), case)
                    return False
    if len(list(pdm.distinct_taxon_pair_iter())) != n * (n - 1) // 2:
        ctx.fail("reuse-taxa", "%sdistinct_taxon_pair_iter does not yield the %d pairs of the %d leaves" % (tag, n * (n - 1) // 2, n), case)
        return False
    return True


def hist_edit(tree, how, dendropy):
    """edit the current tree in place (plain Node surgery, except `reroot`); nodes are addressed by pre-order position"""
    nodes = tu.walk(tree.seed_node)
    lv = [x for x in nodes if not x._child_nodes]
    kind = how[0]
    if kind == "relen":
        vals = how[1]
        for i, nd in enumerate(nodes):
            if nd._parent_node is not None:
                v = vals[i % len(vals)]
                nd.edge.length = None if v == "N" else float(Fraction(v))
    elif kind == "swap" and len(lv) >= 2:
        a, b = lv[how[1] % len(lv)], lv[how[2] % len(lv)]
        a.taxon, b.taxon = b.taxon, a.taxon
    elif kind == "move":
        cand = [x for x in nodes if x._parent_node is not None and len(x._parent_node._child_nodes) >= 2]
        if cand:
            x = cand[how[1] % len(cand)]
            below = set(map(id, tu.walk(x)))
            dest = [y for y in nodes if id(y) not in below and y is not x._parent_node and y._child_nodes]
            if dest:
                y = dest[how[2] % len(dest)]
                x._parent_node.remove_child(x)
                y.add_child(x)
    elif kind == "graft":
        used = {kbit(x.taxon) for x in lv if x.taxon is not None}
        free = sorted(kbit(t) for t in tree.taxon_namespace if kbit(t) not in used)
        dest = [y for y in nodes if y._child_nodes]
        if free and dest:
            nd = dendropy.Node()
            nd.taxon = [t for t in tree.taxon_namespace if kbit(t) == free[how[1] % len(free)]][0]
            nd.edge.length = float(Fraction(how[3]))
            dest[how[2] % len(dest)].add_child(nd)
    elif kind == "prune" and len(lv) >= 3:
        cand = [x for x in lv if x._parent_node is not None and len(x._parent_node._child_nodes) >= 2]
        if cand:
            x = cand[how[1] % len(cand)]
            x._parent_node.remove_child(x)
    elif kind == "reroot":
        cand = [x for x in nodes if x._child_nodes and x._parent_node is not None]
        if cand:
            tree.reroot_at_node(cand[how[1] % len(cand)], update_bipartitions=False, suppress_unifurcations=False,
                                collapse_unrooted_basal_bifurcation=False)


def case_hist(ctx, dendropy, case, pending):
    """one PhylogeneticDistanceMatrix and one NodeDistanceMatrix object live through the whole history; after every step that
    (re)fills them they must describe the tree as it is at that moment"""
    from dendropy.calculate.phylogeneticdistance import PhylogeneticDistanceMatrix, NodeDistanceMatrix
    tns = dendropy.TaxonNamespace(["t%d" % i for i in range(case["ns"])])
    steps = case["steps"]
    ctx.case(["hist", case["ns"], steps], len(steps) >= 2, sample=case, kind="hist")
    pdm = PhylogeneticDistanceMatrix()
    ndm = NodeDistanceMatrix()
    tree = None
    level = None        # what the matrix object is expected to hold now
    for k, st in enumerate(steps):
        act = st["act"]
        tag = "step %d (%s) of a history on one matrix object: " % (k, act)
        if act == "compile":
            tree, _ = tu.tree_from_tokens(dendropy, st["tree"], rooted=st.get("rooted"), tns=tns)
        elif act == "edit":
            if tree is None:
                continue
            hist_edit(tree, tuple(st["how"]), dendropy)
        elif act == "clear":
            pdm.clear()
            ndm.clear()
            level = None
            continue
        if tree is None or not good_tree(tree) or len(leaves_lr(tree)) < 1:
            return
        n = len(leaves_lr(tree))
        if act in ("compile", "edit", "recompile"):
            with time_limit(30):
                pdm.compile_from_tree(tree)
            level = "full"
            if not judge_matrix(ctx, dendropy, pdm, tree, case, tag):
                return
            if len(tu.walk(tree.seed_node)) <= 20:
                with time_limit(30):
                    ndm.compile_from_tree(tree)
                if not judge_ndm(ctx, ndm, tree, case, tag):
                    return
        elif act == "fresh":
            # Tree.phylogenetic_distance_matrix() repeatedly around edits: each call describes the tree as it is
            for rep in range(2):
                if not judge_matrix(ctx, dendropy, tree.phylogenetic_distance_matrix(), tree, case, tag + "call %d: " % rep):
                    return
            if len(tu.walk(tree.seed_node)) <= 20 and not judge_ndm(ctx, tree.node_distance_matrix(), tree, case, tag):
                return
        elif act == "dict":
            want = oracle_nodes(tree)
            by = {kbit(x.taxon): x.taxon for x in leaves_lr(tree)}
            # as from_csv hands it over: every taxon has a row and its diagonal cell (a dict lacking rows makes _mirror_lookups grow
            # the dict it iterates, one lacking the diagonal cannot be written as CSV: input conventions, outside the statement)
            dd = {by[a]: {by[a]: 0.0} for a in sorted(by)}
            for (a, b), v in want.items():
                if st.get("both") or a < b:
                    dd.setdefault(by[a], {})[by[b]] = float(v[0])
            if n < 2:
                continue
            pdm.compile_from_dict(dd, tns)
            level = "dist"
            if not judge_matrix(ctx, dendropy, pdm, tree, case, tag, "dist"):
                return
        elif act == "csv":
            if level is None or n < 2:
                continue
            buf = io.StringIO()
            pdm.write_csv(buf, is_normalize_by_tree_size=False)
            back = PhylogeneticDistanceMatrix.from_csv(io.StringIO(buf.getvalue()), taxon_namespace=tns)
            if not judge_matrix(ctx, dendropy, back, tree, case, tag + "read back from CSV: ", "dist"):
                return
            if not judge_matrix(ctx, dendropy, pdm, tree, case, tag + "after write_csv: ", level):
                return
        elif act == "nj2":
            if level is None or n < 2:
                continue
            index_of = {id(t): i for i, t in enumerate(pdm.taxon_iter())}
            for method in ("nj", "upgma"):
                fn = pdm.nj_tree if method == "nj" else pdm.upgma_tree
                with time_limit(60):
                    f1 = flat_impl(fn(), index_of)
                    f2 = flat_impl(fn(), index_of)
                if f1 != f2:
                    ctx.fail("reuse-nj-repeat", "%s%s_tree() run twice on the same matrix object returns different trees" % (tag, method), case)
                    return
            # a run must not consume or alter the matrix
            if not judge_matrix(ctx, dendropy, pdm, tree, case, tag + "after the runs: ", level):
                return
            if n <= 9:
                run_matrix(ctx, dendropy, pdm, case, pending, None, True)


def gen_hist(ctx, dendropy, rng, max_leaves):
    ns = rng.randint(3, max(4, max_leaves))
    tns = tu.make_namespace(dendropy, ns)

    def some_tree():
        n = rng.randint(2, ns) if rng.random() < 0.9 else rng.randint(1, 2)
        shape = tu.rand_shape(rng, n, p_poly=rng.choice([0.0, 0.3, 0.7]), p_unary=rng.choice([0.0, 0.0, 0.2]))
        nr = rng.choice([0.0, 0.0, 0.2])
        tree = tu.build_tree(dendropy, shape, tns, rng.sample(list(tns), n), lambda: tu.dyadic(rng, nr, 0.05), None)
        return tu.encode_tree(tree)[0]

    def lens():
        return [("N" if rng.random() < 0.1 else fr(tu.dyadic(rng, 0.0, 0.05))) for _ in range(rng.randint(3, 7))]

    def edit():
        k = rng.choice(["relen", "relen", "swap", "move", "graft", "prune", "reroot"])
        if k == "relen":
            return ["relen", lens()]
        return [k, rng.randrange(100), rng.randrange(100), fr(tu.dyadic(rng, 0.0, 0.0))]
    steps = [{"act": "compile", "tree": some_tree(), "rooted": rng.choice([True, False, None])}]
    for _ in range(rng.randint(1, 5)):
        r = rng.random()
        if r < 0.30:
            steps.append({"act": "compile", "tree": some_tree(), "rooted": rng.choice([True, False, None])})
        elif r < 0.58:
            steps.append({"act": "edit", "how": edit()})
        elif r < 0.66:
            steps.append({"act": "clear"})
            steps.append({"act": "recompile"})
        elif r < 0.74:
            steps.append({"act": "dict", "both": rng.random() < 0.4})
        elif r < 0.80:
            steps.append({"act": "csv"})
        elif r < 0.90:
            steps.append({"act": "nj2"})
        else:
            steps.append({"act": "edit", "how": edit()})
            steps.append({"act": "fresh"})
    if rng.random() < 0.5:
        steps.append({"act": "recompile"})
    return {"op": "hist", "ns": ns, "steps": steps}


# ------------------------------------------------------------------ model comparison
def flush(ctx, pending):
    outs = ctx.ask([p[0] for p in pending])
    for (line, case, got, how), m in zip(pending, outs):
        if m is None:
            continue
        ctx.compared()
        op = line.split(" ", 1)[0]
        m = m.strip()
        if how == "err":
            ok = (m == "AssertionError") == (got == "AssertionError")
            shown = got
        elif how == "cells":
            w = m.split()
            ok = w[:1] == ["ok"] and "|" in w
            if ok:
                cells = parse_cells(w[w.index("|") + 1:])
                # cells; `_tree_length` and `_num_edges` of the model against the independent walk (they feed the normalised summaries)
                ok = show_cells(cells) == got[0] and w[1:3] == [got[1], got[2]]
            shown = "%s %s | %s" % (got[1], got[2], got[0])
        elif how == "spec":
            w = m.split()
            ok = w[:1] == ["ok"] and show_cells(parse_cells(w[1:])) == got
            shown = got
        elif how == "approx":
            shown = repr(got)
            if got is None:
                ok = m == "Null"
            else:
                ok = m not in ("Null", "ZeroDivisionError", "AssertionError", "bad-op") and close(got, Fraction(m), 1e-12)
        elif how == "approx-list":
            shown = " ".join(repr(x) for x in got)
            try:
                mv = sorted(Fraction(x) for x in m.split())
                ok = len(mv) == len(got) and all(close(x, y, 1e-12) for x, y in zip(got, mv))
            except ValueError:
                ok = False
        elif how in ("pairs", "pairs-exact"):
            shown = " ".join("%d:%d:%s" % (k[0], k[1], fr(v)) for k, v in sorted(got.items()))
            try:
                mv = {}
                for w in m.split():
                    a, b, v = w.split(":")
                    mv[(int(a), int(b))] = Fraction(v)
                ok = set(mv) == set(got) and all((Fraction(got[k]) == mv[k]) if how == "pairs-exact" else close(got[k], mv[k]) for k in got)
            except ValueError:
                ok = False
        elif how == "trace":
            shown = trace_show(got)
            ok = trace_equal(got, m)
        elif how in ("flat", "flat-exact"):
            shown = flat_show(got)
            ok = flat_equal(got, m.split(), how == "flat-exact")
        elif how == "rel":
            shown = got
            if got in ERRORS or m.split(" ")[0] in ERRORS or m in ("Null", "bad-op"):
                ok = m == got
            else:
                try:
                    ok = relclose(Fraction(got), Fraction(m))
                except ValueError:
                    ok = False
        else:
            shown = got
            ok = m == got
        if not ok:
            ctx.disagree(op, case, shown, m)
            # implementation and model disagree about WHETHER the call raises (or which error): the refusal behaviour of the entry point
            # changed, or a call in the documented domain raises — a failing input in its own right, not only a broken correspondence
            gi = isinstance(shown, str) and shown.split(" ")[0] in ERRORS
            mi = m.split(" ")[0] in ERRORS
            if (gi or mi) and (not (gi and mi) or shown.split(" ")[0] != m.split(" ")[0]) and m != "bad-op":
                ctx.fail("refusal", "op %s: the library %s, the reference behaviour (model of the unchanged entry point) is %s" % (
                    op, ("raises " + shown.split(" ")[0]) if gi else "returns " + str(shown)[:80],
                    ("to raise " + m.split(" ")[0]) if mi else "to return " + m[:80]), case)
    del pending[:]


# ------------------------------------------------------------------ generators
def gen_tokens(ctx, dendropy, rng, max_leaves, none_rate=None, p_unary=None, zero_rate=0.08):
    r = rng.random()
    n = rng.randint(1, max_leaves) if rng.random() < 0.93 else rng.randint(1, 3)
    pu = rng.choice([0.0, 0.1, 0.3]) if p_unary is None else p_unary
    if r < 0.12:
        shape = rng.choice(tu.shape_families(n))
    else:
        shape = tu.rand_shape(rng, n, p_poly=rng.choice([0.0, 0.2, 0.5, 0.8]), p_unary=pu)
    extra = rng.randint(0, 3)
    tns = tu.make_namespace(dendropy, n, extra)
    taxa = rng.sample(list(tns), n)
    nr = rng.choice([0.0, 0.0, 0.15, 0.5, 1.0]) if none_rate is None else none_rate
    tree = tu.build_tree(dendropy, shape, tns, taxa, lambda: tu.dyadic(rng, nr, zero_rate), None)
    toks, ids = tu.encode_tree(tree)
    return toks, len(ids), sorted(tu.bit_of(tns, t) for t in taxa)


def gen_summ(rng, bits):
    out = []
    for _ in range(rng.randint(1, 3)):
        keep = None if rng.random() < 0.3 else sorted(b for b in bits if rng.random() < rng.choice([0.3, 0.6, 0.9]))
        out.append((rng.choice(["mpd", "mntd"]), rng.random() < 0.7, rng.random() < 0.3, keep))
    return out


def gen_pdm(ctx, dendropy, rng, max_leaves):
    toks, nn, bits = gen_tokens(ctx, dendropy, rng, max_leaves)
    case = {"op": "pdm", "tree": toks, "rooted": rng.choice([True, False, None]), "summ": gen_summ(rng, bits),
            "dists": [(rng.random() < 0.5, rng.random() < 0.6)]}
    if len(bits) >= 2 and rng.random() < 0.5:
        case["tm"] = [(rng.choice(bits), rng.choice(bits), rng.random() < 0.6) for _ in range(2)]
    case["ndm"] = rng.random() < 0.25 and nn <= 25
    if rng.random() < 0.04:
        # malformed stream: one leaf loses its taxon
        k = int(toks[0])
        par = toks[1:1 + k]
        lv = [i for i in range(k) if str(i) not in par]
        toks = list(toks)
        toks[1 + k + rng.choice(lv)] = "-"
        case = {"op": "pdm", "tree": toks, "rooted": None, "summ": []}
    return case


def gen_mrca(ctx, dendropy, rng, max_leaves):
    toks, nn, bits = gen_tokens(ctx, dendropy, rng, max_leaves)
    r = rng.random()
    enc = "fresh" if r < 0.55 else ("never" if r < 0.75 else "stale")
    k = rng.choice([1, 1, 2, 2, 2, 3, len(bits)])
    tb = rng.sample(bits, min(k, len(bits)))
    target = sum(1 << b for b in tb)
    if rng.random() < 0.06:
        target |= 1 << (max(bits) + 1 + rng.randint(0, 2))     # a taxon that is not on the tree
    rooted = rng.choice([True, True, False, None])
    refresh = rng.choice([None, None, True, False])
    start = 0 if rng.random() < 0.75 else rng.randrange(nn)
    par = toks[1:1 + nn]
    if not rooted and start != 0 and par.count("0") == 2:
        start = 0       # a refresh may dissolve a child of the seed: keep the start node out of it
    return {"op": "mrca", "tree": toks, "rooted": rooted, "enc": enc, "how": (rng.choice(["swap", "move", "graft", "prune"]), rng.randrange(100), rng.randrange(100)), "aim": rng.random() < 0.7,
            "target": target, "start": start, "refresh": refresh, "route": rng.choice(["taxa", "labels", "mask"]),
            "explicit_start": rng.random() < 0.3}


def gen_tm(ctx, dendropy, rng, max_leaves):
    toks, nn, bits = gen_tokens(ctx, dendropy, rng, max_leaves)
    r = rng.random()
    enc = "fresh" if r < 0.45 else ("never" if r < 0.7 else "stale")
    a = rng.choice(bits)
    b = rng.choice(bits) if rng.random() < 0.9 else a
    mixed = rng.random() < 0.25
    if mixed:
        toks = mixed_lengths(rng, toks)
    return {"op": "tm", "tree": toks, "rooted": rng.choice([True, True, False, None]), "enc": enc, "mixed": mixed,
            "how": (rng.choice(["swap", "move", "graft", "prune"]), rng.randrange(100), rng.randrange(100)), "aim": rng.random() < 0.7, "a": a, "b": b,
            "refresh": rng.random() < 0.5}


TINY = (33, 31, 30, 28, 25, 22, 20)      # near-ties: internal edges of 2^-k (1e-10 … 1e-6) next to heights of order 1


def positive_lengths(rng, toks, ultrametric, neartie=False):
    """rewrite the length column: all edges positive dyadic; ultrametric = all tips at the same depth.
    neartie: many internal edges are tiny relative to the height they sit at (near-polytomies of time-calibrated trees): the true
    minimum of the UPGMA / NJ criterion is then separated from the runner-up by < 1e-9 relative, yet by many ulps — every value stays
    an exactly representable dyadic, so binary64 decides each comparison unambiguously and the exact model still applies."""
    k = int(toks[0])
    par = [int(x) for x in toks[1:1 + k]]
    kids = {i: [j for j in range(k) if par[j] == i] for i in range(k)}
    toks = list(toks)

    def tiny():
        return Fraction(rng.randint(1, 3), 2 ** rng.choice(TINY))
    if not ultrametric:
        for i in range(k):
            if par[i] < 0:
                toks[1 + 2 * k + i] = "N"
            elif neartie and kids[i] and rng.random() < 0.6:
                toks[1 + 2 * k + i] = fr(tiny())
            else:
                toks[1 + 2 * k + i] = fr(rng.randint(1, 12) / float(2 ** rng.randint(0, 2)))
        return toks
    height = {}

    def h(i):
        if not kids[i]:
            height[i] = Fraction(0)
        else:
            below = max(h(j) for j in kids[i])
            if neartie and below > 0 and rng.random() < 0.7:
                height[i] = below + tiny()
            else:
                height[i] = below + Fraction(rng.randint(1, 6), 2 ** rng.randint(0, 2))
        return height[i]
    h(par.index(-1))
    for i in range(k):
        toks[1 + 2 * k + i] = "N" if par[i] < 0 else fr(height[par[i]] - height[i])
    return toks


def gen_recon(ctx, dendropy, rng, max_leaves):
    kind = rng.choice(["additive", "ultrametric"])
    n = rng.randint(2, max_leaves) if rng.random() < 0.9 else rng.randint(1, 3)
    shape = tu.rand_shape(rng, n, p_poly=rng.choice([0.0, 0.0, 0.3]), p_unary=0.0)
    if rng.random() < 0.1:
        shape = rng.choice(tu.shape_families(n))
    tns = tu.make_namespace(dendropy, n, rng.randint(0, 2))
    tree = tu.build_tree(dendropy, shape, tns, rng.sample(list(tns), n), None, None)
    toks, _ = tu.encode_tree(tree)
    neartie = rng.random() < 0.4
    toks = positive_lengths(rng, toks, kind == "ultrametric", neartie)
    case = {"op": "recon", "tree": toks, "kind": kind, "csv": rng.random() < 0.3, "weighted": True, "neartie": neartie,
            "trace": rng.random() < 0.5}
    if kind == "additive" and rng.random() < 0.15:
        case["weighted"] = False
    return case


def gen_matrix(ctx, rng, max_n):
    n = rng.randint(1, max_n)
    labels = ["x%d" % i for i in range(n)]
    rng.shuffle(labels)
    rows = [["0"] * n for _ in range(n)]
    few = rng.random() < 0.4       # few distinct values: many ties
    for i in range(n):
        for j in range(i + 1, n):
            v = Fraction(rng.randint(1, 4 if few else 40), 2 ** rng.randint(0, 0 if few else 2))
            rows[i][j] = rows[j][i] = fr(v)
    return {"op": "matrix", "labels": labels, "matrix": rows, "trace": rng.random() < 0.5}


def one_case(ctx, dendropy, case, pending):
    op = case["op"]
    fn = {"pdm": case_pdm, "mrca": case_mrca, "recon": case_recon, "matrix": case_matrix, "tm": case_tm, "hist": case_hist, "mix": case_mix}.get(op)
    if fn is None:
        raise ValueError(op)
    try:
        fn(ctx, dendropy, case, pending)
    except Exception as e:
        # an exception raised *inside the library* on a well-formed input means the observed routine did not deliver the
        # stated value; anything raised by the harness itself is a harness error and propagates
        import traceback
        tb = traceback.extract_tb(e.__traceback__)
        if tb and os.sep + "dendropy" + os.sep in tb[-1].filename:
            where = "%s:%s" % (os.path.basename(tb[-1].filename), tb[-1].name)
            ctx.fail("library-exception", "%s raised in %s while evaluating a %s case" % (type(e).__name__, where, op), case)
        else:
            raise


def norm_case(c):
    """JSON round trip turns tuples into lists; generators produce tuples"""
    c = dict(c)
    if "summ" in c:
        c["summ"] = [tuple(x) for x in c["summ"]]
    if "tm" in c and c["tm"]:
        c["tm"] = [tuple(x) for x in c["tm"]]
    if "dists" in c and c["dists"]:
        c["dists"] = [tuple(x) for x in c["dists"]]
    if "how" in c and c["how"] is not None:
        c["how"] = tuple(c["how"])
    return c


def run(ctx):
    dendropy = __import__("dendropy")
    rng = ctx.rng
    ctx.set_budget(34, 560)
    pending = []
    ncases = ctx.pick(6000, 90000)
    max_leaves = ctx.pick(12, 40)
    for k in range(ncases):
        if ctx.out_of_time():
            ctx.note("random stream stopped by the time budget after %d cases" % k)
            break
        r = rng.random()
        ml = max_leaves if rng.random() < 0.85 else 12
        if r < 0.30:
            case = gen_pdm(ctx, dendropy, rng, ml)
        elif r < 0.38:
            case = gen_hist(ctx, dendropy, rng, min(ml, ctx.pick(8, 14)))
        elif r < 0.44:
            case = gen_mix(ctx, dendropy, rng, min(ml, ctx.pick(10, 20)))
        elif r < 0.62:
            case = gen_mrca(ctx, dendropy, rng, ml)
        elif r < 0.72:
            case = gen_tm(ctx, dendropy, rng, ml)
        elif r < 0.92:
            case = gen_recon(ctx, dendropy, rng, min(ml, ctx.pick(10, 22)))
        else:
            case = gen_matrix(ctx, rng, ctx.pick(9, 16))
        one_case(ctx, dendropy, case, pending)
        if len(pending) >= 400:
            flush(ctx, pending)
    flush(ctx, pending)
    if ctx.tier == "thorough":
        exhaustive(ctx, dendropy, rng, pending)


def exhaustive(ctx, dendropy, rng, pending):
    """every rose-tree shape with <= 6 leaves (no unary nodes): pdm with one random length pattern; Tree.mrca for every
    non-empty taxon subset (current encoding, and refresh on the never-encoded tree); NJ on every shape with positive lengths,
    UPGMA on every shape with ultrametric lengths"""
    count = 0
    ctx.budget_s = 840
    for n in range(1, 7):
        for shape in tu.all_shapes(n):
            if ctx.out_of_time():
                ctx.note("exhaustive enumeration cut short by the time budget at n=%d" % n)
                flush(ctx, pending)
                return
            tns = tu.make_namespace(dendropy, n)
            tree = tu.build_tree(dendropy, shape, tns, list(tns), lambda: tu.dyadic(rng, 0.1), None)
            toks, ids = tu.encode_tree(tree)
            bits = list(range(n))
            one_case(ctx, dendropy, {"op": "pdm", "tree": toks, "rooted": True, "summ": gen_summ(rng, bits),
                                     "tm": [(a, b, True) for a, b in itertools.combinations(bits, 2)][:6], "ndm": n <= 5}, pending)
            for target in range(1, 1 << n):
                for enc, refresh in (("fresh", None), ("never", True)):
                    one_case(ctx, dendropy, {"op": "mrca", "tree": toks, "rooted": True, "enc": enc, "how": None, "target": target,
                                             "start": 0, "refresh": refresh, "route": "mask", "explicit_start": False}, pending)
                    count += 1
            if n >= 2:
                # one matrix object: this shape, new lengths, another tree over the same taxa, this shape again, NJ/UPGMA twice
                ol = rng.randint(2, n)
                other = tu.build_tree(dendropy, tu.rand_shape(rng, ol, p_poly=0.3, p_unary=0.0), tns, rng.sample(list(tns), ol),
                                      lambda: tu.dyadic(rng, 0.1), None)
                one_case(ctx, dendropy, {"op": "hist", "ns": n, "steps": [
                    {"act": "compile", "tree": toks, "rooted": True},
                    {"act": "edit", "how": ["relen", [fr(tu.dyadic(rng, 0.0, 0.05)) for _ in range(5)]]},
                    {"act": "compile", "tree": tu.encode_tree(other)[0], "rooted": None},
                    {"act": "compile", "tree": toks, "rooted": True},
                    {"act": "nj2"}]}, pending)
                count += 1
                for kind in ("additive", "ultrametric"):
                    for neartie in (False, True):
                        one_case(ctx, dendropy, {"op": "recon", "tree": positive_lengths(rng, toks, kind == "ultrametric", neartie),
                                                 "kind": kind, "csv": False, "weighted": True, "neartie": neartie,
                                                 "trace": not neartie}, pending)
                        count += 1
            count += 1
            if len(pending) >= 2000:
                flush(ctx, pending)
    flush(ctx, pending)
    ctx.extra["exhaustive_small_scope"] = ("all rose-tree shapes <= 6 leaves: pdm, Tree.mrca for every taxon subset (current / refreshed), "
                                           "NJ and UPGMA on positive / ultrametric lengths: %d cases" % count)


def search(ctx, broken):
    """obligations broke (the NJ / UPGMA kernels no longer regenerate, a bridge or property theorem no longer builds) or implementation
    and model disagreed: hunt for an input on which the real nj_tree / upgma_tree contradicts the statement — additive and ultrametric
    inputs of every size from 2 taxa up (both branches of the branch-length formula, ties, near-ties), traced, judged by the oracle"""
    if ctx.failures:
        return
    dendropy = __import__("dendropy")
    rng = ctx.rng
    pending = []
    ctx.budget_s = (ctx.budget_s or 0) + ctx.pick(12, 120)
    n = 0
    for k in range(ctx.pick(2500, 40000)):
        if ctx.out_of_time() or ctx.failures:
            break
        case = gen_recon(ctx, dendropy, rng, rng.choice([2, 3, 4, 5, 6, 8, 12]))
        case["trace"] = True
        one_case(ctx, dendropy, case, pending)
        n += 1
        if len(pending) >= 300:
            flush(ctx, pending)
    flush(ctx, pending)
    ctx.note("targeted search after broken obligations / disagreements: %d NJ/UPGMA reconstruction cases" % n)


def replay(ctx, rec):
    dendropy = __import__("dendropy")
    pending = []
    one_case(ctx, dendropy, norm_case(rec["replay"]), pending)
    flush(ctx, pending)
